"""Runner shared by all property checks: violation bookkeeping, known-findings
matching, replay files, evidence writing, parallel map."""
import hashlib
import json
import multiprocessing as mp
import os
import sys
import time
import traceback

VERIF = os.path.dirname(os.path.dirname(os.path.abspath(__file__)))
KNOWN = os.path.join(VERIF, "known_findings.json")


def jdump(obj):
    return json.dumps(obj, sort_keys=True, default=_default)


def _default(o):
    try:
        import torch

        if isinstance(o, torch.Tensor):
            return o.tolist()
    except Exception:
        pass
    try:
        import numpy as np

        if isinstance(o, np.ndarray):
            return o.tolist()
        if isinstance(o, (np.floating, np.integer)):
            return o.item()
    except Exception:
        pass
    if isinstance(o, (set, frozenset, tuple)):
        return list(o)
    return repr(o)


def load_known(prop):
    if not os.path.exists(KNOWN):
        return []
    with open(KNOWN) as fp:
        data = json.load(fp)
    return [
        f
        for f in data.get("findings", [])
        if f.get("property") == prop and f.get("status") == "open"
    ]


def sig_matches(key, sig):
    for k, v in key.items():
        if sig.get(k) != v:
            return False
    return True


class Run:
    """One execution of one property check."""

    def __init__(self, prop, tier, level, replaying=False):
        self.prop = prop
        self.tier = tier
        self.level = level
        self.seed = int(os.environ.get("VERIF_SEED", "0") or 0)
        self.t0 = time.time()
        self.violations = []  # unlisted
        self.known_hits = {}  # finding index -> count
        self.known = load_known(prop)
        self.replaying = replaying
        self.replay_paths = []
        self.notes = []

    # -- violations ------------------------------------------------------
    def violation(self, case, detail, sig=None):
        """Record a failing case.  `case` must be enough for `replay(case)` of
        the property module to re-execute it; `sig` is the flat signature the
        known-findings file is matched against."""
        sig = dict(sig or {})
        for i, f in enumerate(self.known):
            if sig_matches(f["key"], sig):
                self.known_hits[i] = self.known_hits.get(i, 0) + 1
                return False
        self.violations.append({"case": case, "detail": detail, "sig": sig})
        return True

    def absorb(self, viols):
        for v in viols:
            self.violation(v["case"], v["detail"], v.get("sig"))

    def _write_replay(self, v):
        d = os.path.join(VERIF, "replays", self.prop)
        os.makedirs(d, exist_ok=True)
        body = {"property": self.prop, "case": v["case"], "detail": v["detail"], "sig": v["sig"]}
        h = hashlib.sha1(jdump(body["case"]).encode()).hexdigest()[:12]
        path = os.path.join(d, h + ".json")
        with open(path, "w") as fp:
            fp.write(json.dumps(body, indent=1, sort_keys=True, default=_default))
        return path

    # -- finish ------------------------------------------------------------
    def finish(self, coverage, assumptions=()):
        wall = time.time() - self.t0
        for i, n in sorted(self.known_hits.items()):
            f = self.known[i]
            print(f"KNOWN-FINDING: property={self.prop} {f['what']} (cases matched this run: {n})")
        # one replay file per distinct signature (smallest case first), max 10
        seen = set()
        reported = 0
        for v in self.violations:
            s = jdump(v["sig"]) if v["sig"] else jdump(v["case"])
            if s in seen:
                continue
            seen.add(s)
            if reported < 10:
                path = self._write_replay(v) if not self.replaying else "(replay)"
                self.replay_paths.append(path)
                print(f"VIOLATION property={self.prop} replay={path}")
                print(f"  detail: {str(v['detail'])[:600]}")
                reported += 1
        if os.environ.get("VERIF_DUMP"):
            with open(os.environ["VERIF_DUMP"], "w") as fp:
                for v in self.violations:
                    fp.write(jdump({"sig": v["sig"], "detail": str(v["detail"])[:400]}) + "\n")
        if self.violations and len(seen) > reported:
            print(f"  ... {len(seen) - reported} further distinct violation signatures not written")
        if not self.replaying:
            cov = dict(coverage)
            cov.setdefault("samples", [])
            cov["known_findings_matched"] = {
                self.known[i]["what"][:80]: n for i, n in self.known_hits.items()
            }
            ev = {
                "property_id": self.prop,
                "tier": self.tier,
                "seed": self.seed,
                "level": self.level,
                "coverage": json.loads(jdump(cov)),
                "assumptions": list(assumptions),
                "wall_s": round(wall, 2),
                "violations": len(self.violations),
            }
            if not os.environ.get("VERIF_NO_EVIDENCE"):
                os.makedirs(os.path.join(VERIF, "evidence"), exist_ok=True)
                with open(os.path.join(VERIF, "evidence", self.prop + ".json"), "w") as fp:
                    json.dump(ev, fp, indent=1, sort_keys=True)
            brief = {k: v for k, v in cov.items() if isinstance(v, (int, float, bool))}
            print(f"[{self.prop}] tier={self.tier} seed={self.seed} wall={wall:.1f}s "
                  f"violations={len(self.violations)} coverage={brief}")
        return 1 if self.violations else 0


# -- parallel map -------------------------------------------------------------

def _worker(args):
    fn, chunk = args
    try:
        return ("ok", fn(chunk))
    except Exception:
        return ("err", traceback.format_exc())


def nworkers():
    try:
        n = int(os.environ.get("VERIF_WORKERS", "0"))
    except ValueError:
        n = 0
    return n or min(16, os.cpu_count() or 1)


def pmap(fn, chunks, workers=None):
    """Map a module-level function over a list of chunks in forked worker
    processes (deterministic order of results).  A harness error in a worker is
    re-raised in the parent – never swallowed."""
    chunks = list(chunks)
    workers = workers or nworkers()
    if workers <= 1 or len(chunks) <= 1:
        out = []
        for c in chunks:
            out.append(fn(c))
        return out
    ctx = mp.get_context("fork")
    with ctx.Pool(min(workers, len(chunks))) as pool:
        res = pool.map(_worker, [(fn, c) for c in chunks], chunksize=1)
    out = []
    for status, val in res:
        if status == "err":
            raise RuntimeError("worker failed:\n" + val)
        out.append(val)
    return out


def chunked(seq, n):
    seq = list(seq)
    k = max(1, (len(seq) + n - 1) // n)
    return [seq[i:i + k] for i in range(0, len(seq), k)]


def shards(seq, size):
    seq = list(seq)
    return [seq[i:i + size] for i in range(0, len(seq), size)]
