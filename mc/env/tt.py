"""Bootstrap of the implementation under test.

`boot()` makes sure `torchtree` is imported from the repository working tree
(`/repo`, or `$TORCHTREE_ROOT` when a scratch copy is being checked), sets the
defaults the `torchtree` entry point sets (float64) and imports every module so
that short class names are registered exactly as `torchtree.main` does it.
"""
import importlib
import logging
import os
import sys

ROOT = os.environ.get("TORCHTREE_ROOT", "/repo")
_booted = False


def boot():
    global _booted
    if _booted:
        return
    if sys.path[0] != ROOT:
        sys.path.insert(0, ROOT)
    import torch

    torch.set_default_dtype(torch.float64)
    torch.set_num_threads(1)
    logging.disable(logging.CRITICAL)
    import torchtree
    from torchtree.core.utils import package_contents

    here = os.path.realpath(os.path.dirname(torchtree.__file__))
    want = os.path.realpath(os.path.join(ROOT, "torchtree"))
    if here != want:
        raise RuntimeError(f"torchtree imported from {here}, expected {want}")
    for module in sorted(package_contents("torchtree")):
        try:
            importlib.import_module(module)
        except Exception:  # optional plugins etc.
            pass
    _booted = True


def load(spec, dic=None):
    """Load a JSON specification (list of objects or one object) the way
    torchtree.main does: deep copy, remove comments, expand plates, process."""
    import copy

    from torchtree.core.utils import expand_plates, process_objects, remove_comments

    boot()
    data = copy.deepcopy(spec)
    if dic is None:
        dic = {}
    if isinstance(data, list):
        remove_comments(data)
        expand_plates(data)
        for element in data:
            process_objects(element, dic)
    else:
        remove_comments(data)
        expand_plates(data)
        process_objects(data, dic)
    return dic
