"""Bootstrap of the implementation under test.

`boot()` makes sure `torchtree` is imported from the repository working tree
(`/repo`, or `$TORCHTREE_ROOT` when a scratch copy is being checked), sets the
defaults the `torchtree` entry point sets (float64) and imports every module so
that short class names are registered exactly as `torchtree.main` does it.
"""
import importlib
import logging
import os
import sys

ROOT = os.environ.get("TORCHTREE_ROOT", "/repo")
_booted = False


def boot():
    global _booted
    if _booted:
        return
    if sys.path[0] != ROOT:
        sys.path.insert(0, ROOT)
    import torch

    torch.set_default_dtype(torch.float64)
    torch.set_num_threads(1)
    logging.disable(logging.CRITICAL)
    import torchtree
    from torchtree.core.utils import package_contents

    here = os.path.realpath(os.path.dirname(torchtree.__file__))
    want = os.path.realpath(os.path.join(ROOT, "torchtree"))
    if here != want:
        raise RuntimeError(f"torchtree imported from {here}, expected {want}")
    for module in sorted(package_contents("torchtree")):
        try:
            importlib.import_module(module)
        except Exception:  # optional plugins etc.
            pass
    _booted = True


def load(spec, dic=None):
    """Load a JSON specification (list of objects or one object) the way
    torchtree.main does: deep copy, remove comments, expand plates, process."""
    import copy

    from torchtree.core.utils import expand_plates, process_objects, remove_comments

    boot()
    data = copy.deepcopy(spec)
    if dic is None:
        dic = {}
    if isinstance(data, list):
        remove_comments(data)
        expand_plates(data)
        for element in data:
            process_objects(element, dic)
    else:
        remove_comments(data)
        expand_plates(data)
        process_objects(data, dic)
    return dic


class _Collect(logging.Handler):
    def __init__(self):
        super().__init__()
        self.messages = []

    def emit(self, record):
        if record.levelno >= logging.ERROR:
            self.messages.append(record.getMessage())


def load_main(spec):
    """Load a specification through the real entry point: torchtree.torchtree.main() with
    `- --dry` and the document on stdin.  The registry is captured by wrapping the module
    global process_objects from outside; a JSONParseError that main() logs is re-raised."""
    import contextlib
    import io
    import json

    boot()
    import torchtree.torchtree as entry
    from torchtree.core.utils import JSONParseError

    captured = {}
    original = entry.process_objects

    def wrapper(element, dic):
        captured["dic"] = dic
        return original(element, dic)

    handler = _Collect()
    root = logging.getLogger()
    if not root.handlers:
        root.addHandler(logging.NullHandler())  # keeps main()'s basicConfig from printing
    root.addHandler(handler)
    logging.disable(logging.NOTSET)
    argv, stdin = sys.argv, sys.stdin
    sys.argv = ["torchtree", "-", "--dry"]
    sys.stdin = io.StringIO(json.dumps(spec))
    entry.process_objects = wrapper
    try:
        with contextlib.redirect_stdout(io.StringIO()):
            entry.main()
    finally:
        entry.process_objects = original
        sys.argv, sys.stdin = argv, stdin
        root.removeHandler(handler)
        logging.disable(logging.CRITICAL)
    if handler.messages:
        raise JSONParseError(handler.messages[0])
    return captured.get("dic", {})
