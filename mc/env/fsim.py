"""In-memory file system with a crash injector.

While `CrashFS.mounted()` is active, `builtins.open`/`io.open` and the `os` /
`shutil` functions that can create, rename, replace, copy or delete a file are
routed to an in-memory directory for every path below PREFIX (other paths go to
the real functions).  Directory entries point to inodes, so a file renamed while
still open keeps receiving the writes of its handle, as on POSIX.

Every operation is an entry of `log`.  A crash is scheduled as
`(k, mode)`: just before operation k happens the file system freezes (all later
operations are ignored – that is what process death means for clean-up code in
`finally` / `__exit__`) and `Crash` is raised.  `mode` says what happens to data
that was written through a handle but not yet flushed/closed (Python's buffered
writer hands data to the OS at unpredictable buffer boundaries, so any prefix of
the unflushed data may or may not have reached the file):
  "keep"  all bytes issued so far are in the file (write-through),
  "drop"  every still-open handle loses what it wrote since its last flush,
  "half"  every still-open handle keeps half of its unflushed bytes;
  "mid"   like keep, plus half of the chunk of operation k itself (k is a write).
`Crash` derives from BaseException so `except Exception` cannot swallow it.
"""
import builtins
import contextlib
import io
import os

PREFIX = "/vfs-mc/"


class Crash(BaseException):
    pass


class Unsupported(Exception):
    """The code under test used a file-system call the model does not cover."""


class _File:
    def __init__(self, fs, ino, path, mode):
        self.fs, self.ino, self.path, self.mode = fs, ino, path, mode
        self.closed = False
        self._rpos = 0
        self._wpos = len(fs.inodes[ino]) if "a" in mode else 0
        self.synced = len(fs.inodes[ino])

    # writing -----------------------------------------------------------
    def write(self, s):
        if isinstance(s, (bytes, bytearray)):
            s = bytes(s).decode("latin-1")
        fs = self.fs
        fs._op(("write", self.path, len(s)), partial=(self, s))
        if not fs.frozen:
            self._put(s)
        return len(s)

    def _put(self, s):
        """write at the handle's position (a file opened without truncation is overwritten from the start,
        whatever lies beyond the written bytes stays)"""
        cur = self.fs.inodes[self.ino]
        self.fs.inodes[self.ino] = cur[:self._wpos] + s + cur[self._wpos + len(s):]
        self._wpos += len(s)

    def writelines(self, lines):
        for line in lines:
            self.write(line)

    def flush(self):
        self.fs._op(("flush", self.path))
        if not self.fs.frozen:
            self.synced = len(self.fs.inodes[self.ino])

    def fileno(self):
        return 10_000 + self.ino

    def close(self):
        if not self.closed:
            try:
                self.fs._op(("close", self.path))
            finally:
                self.closed = True
            if not self.fs.frozen:
                self.synced = len(self.fs.inodes[self.ino])
                self.fs.handles.discard(self)

    # reading -----------------------------------------------------------
    def read(self, n=-1):
        data = self.fs.inodes[self.ino]
        if n is None or n < 0:
            out = data[self._rpos:]
            self._rpos = len(data)
        else:
            out = data[self._rpos:self._rpos + n]
            self._rpos += len(out)
        return out.encode("latin-1") if "b" in self.mode else out

    def __iter__(self):
        return iter(self.read().splitlines(True))

    def __enter__(self):
        return self

    def __exit__(self, *exc):
        self.close()
        return False


class CrashFS:
    def __init__(self, files=None):
        self.inodes = {}
        self.dir = {}
        for p, c in (files or {}).items():
            self._create(p, c)
        self.log = []
        self.crash_at = None  # (op index, mode)
        self.frozen = False
        self.handles = set()
        self._fds = {}

    # directory view -----------------------------------------------------
    def _create(self, path, content=""):
        ino = len(self.inodes) + 1
        while ino in self.inodes:
            ino += 1
        self.inodes[ino] = content
        self.dir[path] = ino
        return ino

    @property
    def files(self):
        return {p: self.inodes[i] for p, i in self.dir.items()}

    def _mine(self, path):
        try:
            path = os.fspath(path)
        except TypeError:
            return False
        return isinstance(path, str) and path.startswith(PREFIX)

    def _op(self, entry, partial=None):
        """Register one operation; crash here if scheduled."""
        if self.frozen:
            return
        idx = len(self.log)
        self.log.append(entry)
        if self.crash_at is not None and self.crash_at[0] == idx:
            mode = self.crash_at[1]
            if mode == "interrupt":
                # death by an asynchronous exception (SIGINT -> KeyboardInterrupt): unlike a kill, the
                # clean-up code of the writer (finally blocks, context managers) still runs with effect
                self.crash_at = None
                self.log.pop()
                raise KeyboardInterrupt()
            if mode == "mid" and partial is not None:
                f, s = partial
                f._put(s[: len(s) // 2])
            elif mode in ("drop", "half"):
                for h in list(self.handles):
                    if h.closed or not any(c in h.mode for c in "wax"):
                        continue
                    cur = self.inodes[h.ino]
                    keep = h.synced if mode == "drop" else h.synced + (len(cur) - h.synced) // 2
                    self.inodes[h.ino] = cur[:keep]
            self.frozen = True
            raise Crash()

    # patched entry points -------------------------------------------------
    def open(self, path, mode="r", *a, **k):
        if not self._mine(path):
            return self._real_open(path, mode, *a, **k)
        path = os.fspath(path)
        if any(c in mode for c in "wax+"):
            if "+" in mode:
                raise Unsupported("open mode " + mode)
            self._op(("open", path, mode))
            if self.frozen:
                ino = self.dir.get(path)
                if ino is None:
                    ino = -1
                    self.inodes.setdefault(-1, "")
            elif "w" in mode:
                # O_TRUNC on the existing inode (other links/handles see it)
                if path in self.dir:
                    ino = self.dir[path]
                    self.inodes[ino] = ""
                else:
                    ino = self._create(path)
            elif "x" in mode:
                if path in self.dir:
                    raise FileExistsError(path)
                ino = self._create(path)
            else:
                ino = self.dir[path] if path in self.dir else self._create(path)
            f = _File(self, ino, path, mode)
            if "w" in mode:
                f.synced = 0
            self.handles.add(f)
            return f
        if path not in self.dir:
            raise FileNotFoundError(path)
        return _File(self, self.dir[path], path, mode)

    def rename(self, src, dst, *a, **k):
        if not (self._mine(src) or self._mine(dst)):
            return self._real["rename"](src, dst, *a, **k)
        src, dst = os.fspath(src), os.fspath(dst)
        self._op(("rename", src, dst))
        if self.frozen:
            return
        if src not in self.dir:
            raise FileNotFoundError(src)
        self.dir[dst] = self.dir.pop(src)

    def remove(self, path, *a, **k):
        if not self._mine(path):
            return self._real["remove"](path, *a, **k)
        path = os.fspath(path)
        self._op(("remove", path))
        if self.frozen:
            return
        if path not in self.dir:
            raise FileNotFoundError(path)
        del self.dir[path]

    def exists(self, path):
        if not self._mine(path):
            return self._real["exists"](path)
        return os.fspath(path) in self.dir

    def fsync(self, fd):
        if isinstance(fd, int) and fd >= 10_000:
            self._op(("fsync", fd))
            if not self.frozen:
                for h in self.handles:
                    if h.ino == fd - 10_000:
                        h.synced = len(self.inodes[h.ino])
            return
        return self._real["fsync"](fd)

    def os_open(self, path, flags, mode=0o777, *a, **k):
        """os.open on a modelled path: O_CREAT / O_EXCL / O_TRUNC as documented; the descriptor is turned
        into a file object by os.fdopen"""
        if not self._mine(path):
            return self._real["os_open"](path, flags, mode, *a, **k)
        path = os.fspath(path)
        if flags & (os.O_APPEND | os.O_RDWR):
            raise Unsupported("os.open flags")
        writing = bool(flags & os.O_WRONLY)
        if writing:
            self._op(("open", path, "os.open"))
        if path not in self.dir:
            if not flags & os.O_CREAT:
                raise FileNotFoundError(path)
            ino = -1 if self.frozen else self._create(path)
            self.inodes.setdefault(-1, "")
        else:
            if flags & os.O_CREAT and flags & os.O_EXCL:
                raise FileExistsError(path)
            ino = self.dir[path]
            if flags & os.O_TRUNC and writing and not self.frozen:
                self.inodes[ino] = ""
        f = _File(self, ino, path, "w" if writing else "r")
        f.synced = 0 if flags & os.O_TRUNC else len(self.inodes[ino])
        if writing:
            self.handles.add(f)
        self._fds[f.fileno()] = f
        return f.fileno()

    def fdopen(self, fd, *a, **k):
        if isinstance(fd, int) and fd in self._fds:
            return self._fds[fd]
        return self._real["fdopen"](fd, *a, **k)

    def lstat(self, path, *a, **k):
        if not self._mine(path):
            return self._real["lstat"](path, *a, **k)
        path = os.fspath(path)
        if path not in self.dir:
            raise FileNotFoundError(path)
        return os.stat_result((0o100644, self.dir[path], 0, 1, 0, 0, len(self.inodes[self.dir[path]]), 0, 0, 0))

    def stat(self, path, *a, **k):
        if not self._mine(path):
            return self._real["stat"](path, *a, **k)
        return self.lstat(path)

    def _unsupported(self, name):
        real = self._real[name]

        def f(path, *a, **k):
            if self._mine(path) or (a and self._mine(a[0])):
                raise Unsupported(name)
            return real(path, *a, **k)

        return f

    def _copy(self, src, dst, *a, **k):
        if not (self._mine(src) or self._mine(dst)):
            return self._real["copyfile"](src, dst, *a, **k)
        src, dst = os.fspath(src), os.fspath(dst)
        if src not in self.dir:
            raise FileNotFoundError(src)
        data = self.inodes[self.dir[src]]
        f = self.open(dst, "w")
        step = max(1, len(data) // 4)  # a copy is not atomic: chunked writes
        for i in range(0, len(data), step):
            f.write(data[i:i + step])
        f.close()
        return dst

    @contextlib.contextmanager
    def mounted(self):
        import os.path as osp
        import shutil

        self._real_open = builtins.open
        self._real = {
            "rename": os.rename, "remove": os.remove, "exists": osp.exists,
            "fsync": os.fsync, "link": os.link, "symlink": os.symlink,
            "truncate": os.truncate, "copyfile": shutil.copyfile, "os_open": os.open,
            "fdopen": os.fdopen, "lstat": os.lstat, "stat": os.stat,
        }
        patches = [
            (builtins, "open", self.open), (io, "open", self.open),
            (os, "rename", self.rename), (os, "replace", self.rename),
            (os, "remove", self.remove), (os, "unlink", self.remove),
            (osp, "exists", self.exists), (osp, "lexists", self.exists),
            (osp, "isfile", self.exists), (os, "fsync", self.fsync),
            (os, "link", self._unsupported("link")),
            (os, "symlink", self._unsupported("symlink")),
            (os, "truncate", self._unsupported("truncate")),
            (os, "open", self.os_open), (os, "fdopen", self.fdopen),
            (os, "lstat", self.lstat), (os, "stat", self.stat),
            (shutil, "copyfile", self._copy), (shutil, "copy", self._copy),
            (shutil, "copy2", self._copy), (shutil, "move", self.rename),
        ]
        saved = [(m, n, getattr(m, n)) for m, n, _ in patches]
        for m, n, v in patches:
            setattr(m, n, v)
        try:
            yield self
        finally:
            for m, n, v in saved:
                setattr(m, n, v)
