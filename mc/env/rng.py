"""Scripted randomness: every random source torchtree's samplers use is replaced, for the
duration of one execution, by a choice point with a small ordered menu (entry 0 = default).
A `Script` replays a prefix of choices and takes the default afterwards, recording every
point met – the classic stateless exploration set-up.  Any *other* use of the global torch
generator is detected by comparing the generator state before and after the execution."""
import contextlib

UNIFORMS = (0.5, 0.02, 0.98, 1e-12, 1.0 - 1e-12)


class Divergence(Exception):
    """a recorded choice does not fit the menu met while replaying"""


class Script:
    def __init__(self, choices=()):
        self.choices = list(choices)
        self.points = []  # (kind, menu size, choice taken, free)

    def choose(self, kind, n, free=False):
        i = len(self.points)
        c = self.choices[i] if i < len(self.choices) else 0
        if c >= n or c < 0:
            raise Divergence(f"choice {c} at point {i} ({kind}) but the menu has {n} entries")
        self.points.append((kind, n, c, free))
        return c

    def taken(self):
        return [p[2] for p in self.points]


def _unit_menu(d):
    """standard-normal draws: zero, +e_i, -e_i"""
    return 1 + 2 * d


def _unit_value(torch, d, c, dtype=None):
    z = torch.zeros(d, dtype=dtype or torch.get_default_dtype())
    if c > 0:
        k = (c - 1) // 2
        z[k] = 1.0 if (c - 1) % 2 == 0 else -1.0
    return z


@contextlib.contextmanager
def scripted(script):
    import torch
    from torch.distributions import Categorical, Dirichlet, MultivariateNormal, Normal

    saved = {
        "rand": torch.rand, "randn": torch.randn, "randint": torch.randint,
        "cat": Categorical.sample, "dir": Dirichlet.sample,
        "nsample": Normal.sample, "nrsample": Normal.rsample,
        "mvsample": MultivariateNormal.sample, "mvrsample": MultivariateNormal.rsample,
    }
    state0 = torch.get_rng_state()

    def shape_of(args):
        if len(args) == 1 and isinstance(args[0], (tuple, list, torch.Size)):
            return tuple(args[0])
        return tuple(args)

    def rand(*size, **kw):
        shape = shape_of(size)
        n = 1
        for s in shape:
            n *= s
        vals = [UNIFORMS[script.choose("uniform", len(UNIFORMS))] for _ in range(n)]
        return torch.tensor(vals, dtype=kw.get("dtype") or torch.get_default_dtype()).reshape(shape)

    def randn(*size, **kw):
        shape = shape_of(size)
        d = 1
        for s in shape:
            d *= s
        c = script.choose("normal", _unit_menu(d))
        return _unit_value(torch, d, c, kw.get("dtype")).reshape(shape)

    def randint(low, high=None, size=None, **kw):
        if high is None or isinstance(high, (tuple, list, torch.Size)):
            if size is None and high is not None:
                size = high
            low, high = 0, low
        shape = tuple(size)
        n = 1
        for s in shape:
            n *= s
        vals = [low + script.choose("index", high - low) for _ in range(n)]
        return torch.tensor(vals, dtype=torch.long).reshape(shape)

    def cat_sample(self, sample_shape=torch.Size()):
        if tuple(sample_shape) != () or self.probs.dim() != 1:
            raise NotImplementedError("scripted Categorical.sample: batch draws")
        idx = [i for i, p in enumerate(self.probs.tolist()) if p > 0]
        return torch.tensor(idx[script.choose("operator", len(idx), free=True)])

    def dir_sample(self, sample_shape=torch.Size()):
        if tuple(sample_shape) != ():
            raise NotImplementedError("scripted Dirichlet.sample: batch draws")
        a = self.concentration.detach()
        m = a / a.sum(-1, keepdim=True)
        c = script.choose("dirichlet", 3)
        if c == 0:
            return m.clone()
        x = m.clone()
        k = 0 if c == 1 else x.shape[-1] - 1
        x = 0.8 * x
        x[..., k] += 0.2
        return x

    def n_sample(self, sample_shape=torch.Size()):
        shape = self._extended_shape(sample_shape)
        d = 1
        for s in shape:
            d *= s
        c = script.choose("normal", _unit_menu(d))
        z = _unit_value(torch, d, c, self.loc.dtype).reshape(shape)
        return (self.loc + self.scale * z).detach()

    def n_rsample(self, sample_shape=torch.Size()):
        shape = self._extended_shape(sample_shape)
        d = 1
        for s in shape:
            d *= s
        c = script.choose("normal", _unit_menu(d))
        z = _unit_value(torch, d, c, self.loc.dtype).reshape(shape)
        return self.loc + self.scale * z

    def mv_rsample(self, sample_shape=torch.Size()):
        shape = self._extended_shape(sample_shape)
        d = 1
        for s in shape:
            d *= s
        c = script.choose("normal", _unit_menu(d))
        z = _unit_value(torch, d, c, self.loc.dtype).reshape(shape)
        return self.loc + (self._unbroadcasted_scale_tril @ z.unsqueeze(-1)).squeeze(-1)

    def mv_sample(self, sample_shape=torch.Size()):
        with torch.no_grad():
            return mv_rsample(self, sample_shape)

    torch.rand, torch.randn, torch.randint = rand, randn, randint
    Categorical.sample = cat_sample
    Dirichlet.sample = dir_sample
    Normal.sample, Normal.rsample = n_sample, n_rsample
    MultivariateNormal.sample, MultivariateNormal.rsample = mv_sample, mv_rsample
    try:
        yield script
    finally:
        torch.rand, torch.randn, torch.randint = saved["rand"], saved["randn"], saved["randint"]
        Categorical.sample = saved["cat"]
        Dirichlet.sample = saved["dir"]
        Normal.sample, Normal.rsample = saved["nsample"], saved["nrsample"]
        MultivariateNormal.sample, MultivariateNormal.rsample = saved["mvsample"], saved["mvrsample"]
        if not torch.equal(torch.get_rng_state(), state0):
            raise RuntimeError("an un-intercepted random source consumed the global torch generator")


def explore(run_one, bound, max_executions=None):
    """Deviation-bounded stateless exploration.  run_one(script) executes the system once and
    returns an observation (violations etc.).  Yields (choices, points, observation).
    Free points do not count as deviations."""
    stack = [[]]
    n = 0
    while stack:
        prefix = stack.pop()
        script = Script(prefix)
        obs = run_one(script)
        pts = script.points
        n += 1
        yield script.taken(), pts, obs
        if max_executions is not None and n >= max_executions:
            return
        devs = 0
        cost_before = []
        for (kind, m, c, free) in pts:
            cost_before.append(devs)
            if c != 0 and not free:
                devs += 1
        taken = script.taken()
        for i in range(len(prefix), len(pts)):
            kind, m, c, free = pts[i]
            for alt in range(1, m):
                cost = cost_before[i] + (0 if free else 1)
                if cost > bound:
                    continue
                stack.append(taken[:i] + [alt])
