"""Genealogies from event interleavings: event times, a compatible labelled tree, grid
placements.  Plain Python; used by the coalescent-related checks (C20)."""
import itertools
import math

from mc.explore import enumerate as en

PHI = (math.sqrt(5.0) - 1.0) / 2.0


def generic(k, seed, lo, hi, salt=0):
    """k pairwise distinct 'generic' values in (lo, hi): a golden-ratio sequence whose
    offset is moved by the seed (the only thing VERIF_SEED is allowed to change)."""
    off = (0.1234567 * seed + 0.31 * salt) % 1.0
    out = []
    for j in range(k):
        f = ((j + 1) * PHI + off) % 1.0
        out.append(round(lo + (hi - lo) * (0.02 + 0.96 * f), 6))
    if len(set(out)) != k:
        raise RuntimeError("generic(): values not distinct")
    return out


def event_times(inter, seed, ties="none", salt=0):
    """Times of the events of an interleaving (first event at 0, increasing).
    ties = 'none'  : all gaps positive and generic
           'samp'  : consecutive sampling events share their time (e.g. 'sss..' isochronous)"""
    gaps = generic(len(inter), seed, 0.15, 1.6, salt)
    t = [0.0]
    for j in range(1, len(inter)):
        if ties == "samp" and inter[j] == "s" and inter[j - 1] == "s":
            t.append(t[-1])
        else:
            t.append(round(t[-1] + gaps[j], 6))
    return t


def has_sampling_run(inter):
    return "ss" in inter


def tree_of(inter, rule="front"):
    """A labelled binary tree compatible with the interleaving: a sampling adds lineage
    t<k>; a coalescence merges the first two active lineages ('front': caterpillar-like)
    or the last two ('last': internal nodes are then NOT in height order in a post-order
    traversal) and puts the result at the front of the list.
    Returns (topology as nested tuples, labels in sampling order, list of clades in the
    order of the coalescent events)."""
    active = []
    labels = []
    order = []
    for ev in inter:
        if ev == "s":
            lab = f"t{len(labels)}"
            labels.append(lab)
            active.append(lab)
        else:
            if rule == "front":
                node, rest = (active[0], active[1]), active[2:]
            elif rule == "last":
                node, rest = (active[-2], active[-1]), active[:-2]
            else:
                raise ValueError(rule)
            active = [node] + rest
            order.append(frozenset(en.leaves(node)))
    if len(active) != 1:
        raise RuntimeError("interleaving did not coalesce to one lineage")
    return active[0], labels, order


def sampling_and_coalescent_times(inter, times):
    s = [t for e, t in zip(inter, times) if e == "s"]
    c = [t for e, t in zip(inter, times) if e == "c"]
    return s, c


def shifted_times(inter, times, seed):
    """a second time vector with the SAME sampling times and the same interleaving: every
    coalescent time is moved a generic fraction of the way to the next event"""
    fr = generic(len(inter), seed, 0.1, 0.9, salt=3)
    out = list(times)
    for j, ev in enumerate(inter):
        if ev == "c":
            hi = times[j + 1] if j + 1 < len(times) else times[j] + 1.0
            out[j] = round(times[j] + fr[j] * (hi - times[j]), 6)
    for a, b, e in zip(out, out[1:], inter[1:]):
        if not (b > a or (e == "s" and b == a)):
            raise RuntimeError("shifted_times broke the event order")
    return out


def positive_gaps(times):
    """indices j such that (times[j], times[j+1]) has positive length, plus the open
    slot beyond the last event (index len(times)-1)"""
    out = [j for j in range(len(times) - 1) if times[j + 1] > times[j]]
    out.append(len(times) - 1)
    return out


def grid_placements(times, G):
    """every multiset of G slots out of the positive gaps (+ beyond the root)"""
    return list(itertools.combinations_with_replacement(positive_gaps(times), G))


def n_multisets(slots, G):
    return math.comb(slots + G - 1, G)


def grid_of(times, placement, seed):
    """grid times for a placement: the k-th of m points put in the same gap sits at the
    generic fraction (k+f)/(m) of it; beyond the root the points are spaced generically"""
    fr = generic(len(placement), seed, 0.0, 1.0, salt=7)
    out = []
    for slot in sorted(set(placement)):
        m = placement.count(slot)
        for k in range(m):
            frac = (k + fr[len(out)]) / m
            if slot == len(times) - 1:
                out.append(round(times[-1] + 0.2 + 1.3 * (k + fr[len(out)]), 6))
            else:
                lo, hi = times[slot], times[slot + 1]
                out.append(round(lo + (hi - lo) * frac, 6))
    out.sort()
    for a, b in zip(out, out[1:]):
        if not b > a:
            raise RuntimeError("grid points not increasing")
    return out
