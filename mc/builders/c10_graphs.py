"""Hand-written model graphs for C10 (sample dimensions): one small JSON specification per
callable model / transform that the torchtree-cli fixtures of mc/builders/graphs do not
contain, every parameter of interest given as a *named* Parameter so that any subset of them
can be replaced by a batched tensor.

Each entry:  name -> {"spec": [json objects], "domains": {parameter id: kind}, "dims": [ints]}
`kind` says how a generic in-domain value is produced for sample slice j (see c10.displace):
real | positive | unit | simplex | spd | tril | grid | heights4 | heights3
`dims` are sizes of other dimensions present in the graph (states, categories, branches, taxa)
that the sample size S is additionally set equal to.
"""
from mc.builders import likelihood as lb

TD = "torch.distributions."
TT = "torchtree.distributions.transforms."


def P(id_, v, **kw):
    d = {"id": id_, "type": "Parameter", "tensor": v}
    d.update(kw)
    return d


AGES4 = [0.0, 0.3, 0.0, 0.5]
AGES3 = [0.0, 0.2, 0.0]
L4 = ["t0", "t1", "t2", "t3"]
L3 = ["t0", "t1", "t2"]
NWK4 = "((t0,t1),(t2,t3));"
NWK3 = "((t0,t1),t2);"


def taxa(labels, ages=None, id_="taxa"):
    out = []
    for i, lab in enumerate(labels):
        t = {"id": lab, "type": "Taxon"}
        if ages is not None:
            t["attributes"] = {"date": ages[i]}
        out.append(t)
    return {"id": id_, "type": "Taxa", "taxa": out}


def ttree4(ages=AGES4):
    return {"id": "tree", "type": "TimeTreeModel", "newick": NWK4, "taxa": taxa(L4, ages),
            "internal_heights": P("tree.heights", [0.9, 0.75, 1.6])}


def ttree3(ages=AGES3):
    return {"id": "tree", "type": "TimeTreeModel", "newick": NWK3, "taxa": taxa(L3, ages),
            "internal_heights": P("tree.heights", [0.7, 1.3])}


def utree4():
    return {"id": "tree", "type": "UnRootedTreeModel", "newick": NWK4, "taxa": taxa(L4),
            "branch_lengths": P("tree.blens", [0.11, 0.23, 0.07, 0.31, 0.13])}


def utree3():
    return {"id": "tree", "type": "UnRootedTreeModel", "newick": NWK3, "taxa": taxa(L3),
            "branch_lengths": P("tree.blens", [0.11, 0.23, 0.17])}


def rtree4():
    return {"id": "tree", "type": "ReparameterizedTimeTreeModel", "newick": NWK4, "taxa": taxa(L4, AGES4),
            "ratios": P("tree.ratios", [0.4, 0.7]), "root_height": P("tree.root_height", [2.0])}


def stree4():
    return {"id": "tree", "type": "ReparameterizedTimeTreeModel", "newick": NWK4, "taxa": taxa(L4, AGES4),
            "shifts": P("tree.shifts", [0.4, 0.3, 0.6])}


SEQ4 = ["ACGTACGTAACCGGTT", "ACGTACGAAACCGGTA", "ACGAACGTAACCGCTT", "ACGTTCGTAACGGGTT"]
SEQ3 = ["ACGTACGTAACC", "ACGAACGTTACC", "ACCTACGTAAGC"]
AA4 = ["ARNDCQEGHILK", "ARNDCQEGHILM", "ARNECQEGHIFK", "AKNDCQEGHILK"]


def aln(labels, seqs, datatype="nucleotide"):
    return {"id": "aln", "type": "Alignment", "datatype": datatype, "taxa": "taxa",
            "sequences": [{"taxon": l, "sequence": s} for l, s in zip(labels, seqs)]}


def like(tree, subst, site, labels, seqs, clock=None, tip_states=False, datatype="nucleotide"):
    d = {"id": "like", "type": "TreeLikelihoodModel", "tree_model": tree, "site_model": site,
         "substitution_model": subst,
         "site_pattern": {"id": "sp", "type": "SitePattern", "alignment": aln(labels, seqs, datatype)}}
    if clock is not None:
        d["branch_model"] = clock
    if tip_states:
        d["use_tip_states"] = True
    return d


PI = [0.1, 0.2, 0.3, 0.4]


def hky():
    return {"id": "subst", "type": "HKY", "kappa": P("subst.kappa", [2.7]), "frequencies": P("subst.freqs", PI)}


def gtr():
    return {"id": "subst", "type": "GTR", "rates": P("subst.rates", [0.7, 2.3, 0.4, 1.1, 3.7, 1.0]),
            "frequencies": P("subst.freqs", PI)}


def site_const():
    return {"id": "site", "type": "ConstantSiteModel"}


def site_weibull(K, pinv=False, mu=False):
    s = {"id": "site", "type": "WeibullSiteModel", "categories": K, "shape": P("site.shape", [0.8])}
    if pinv:
        s["invariant"] = P("site.pinv", [0.3])
    if mu:
        s["mu"] = P("site.mu", [1.4])
    return s


def dist(id_, cls, x, params=None):
    d = {"id": id_, "type": "Distribution", "distribution": cls, "x": x}
    if params is not None:
        d["parameters"] = params
    return d


def tp(id_, transform, x, params=None):
    d = {"id": id_, "type": "TransformedParameter", "transform": transform, "x": x}
    if params is not None:
        d["parameters"] = params
    return d


def graphs():
    g = {}

    def add(name, spec, domains=None, dims=()):
        g[name] = {"spec": spec if isinstance(spec, list) else [spec], "domains": dict(domains or {}),
                   "dims": list(dims)}

    H4 = {"tree.heights": "heights4"}
    H3 = {"tree.heights": "heights3"}

    # ---- plain Distribution wrappers ------------------------------------------------------
    add("dist_normal", dist("d", TD + "Normal", P("x", [0.3, -1.2, 0.8]),
                            {"loc": P("loc", [0.2]), "scale": P("scale", [1.3])}),
        {"scale": "positive"}, dims=[3])
    add("dist_normal_vec", dist("d", TD + "Normal", P("x", [0.3, -1.2, 0.8]),
                                {"loc": P("loc", [0.2, -0.4, 0.9]), "scale": P("scale", [1.3, 0.6, 2.1])}),
        {"scale": "positive"}, dims=[3])
    add("dist_normal_1", dist("d", TD + "Normal", P("x", [0.3]),
                              {"loc": P("loc", [0.2]), "scale": P("scale", [1.3])}),
        {"scale": "positive"})
    add("dist_normal_precision", dist("d", "torchtree.distributions.normal.Normal", P("x", [0.3, -1.2]),
                                      {"loc": P("loc", [0.2]), "precision": P("precision", [0.7])}),
        {"precision": "positive"})
    add("dist_gamma", dist("d", TD + "Gamma", P("x", [0.3, 1.2, 0.8]),
                           {"concentration": P("concentration", [2.2]), "rate": P("rate", [1.3])}),
        {"x": "positive", "concentration": "positive", "rate": "positive"}, dims=[3])
    add("dist_lognormal", dist("d", TD + "LogNormal", P("x", [0.3, 1.2, 0.8]),
                               {"loc": P("loc", [0.2]), "scale": P("scale", [1.3])}),
        {"x": "positive", "scale": "positive"}, dims=[3])
    add("dist_lognormal_mean", dist("d", "torchtree.distributions.log_normal.LogNormal", P("x", [0.3, 1.2]),
                                    {"mean": P("mean", [1.2]), "scale": P("scale", [0.7])}),
        {"x": "positive", "mean": "positive", "scale": "positive"})
    add("dist_exponential", dist("d", TD + "Exponential", P("x", [0.3, 1.2]), {"rate": P("rate", [1.3])}),
        {"x": "positive", "rate": "positive"})
    add("dist_invgamma", dist("d", "torchtree.distributions.inverse_gamma.InverseGamma", P("x", [0.3, 1.2]),
                              {"concentration": P("concentration", [2.2]), "rate": P("rate", [1.3])}),
        {"x": "positive", "concentration": "positive", "rate": "positive"})
    add("dist_oneonx", dist("d", "torchtree.distributions.one_on_x.OneOnX", P("x", [0.3, 1.2])),
        {"x": "positive"})
    add("dist_dirichlet", dist("d", TD + "Dirichlet", P("x", [0.2, 0.5, 0.3]),
                               {"concentration": P("concentration", [1.5, 0.7, 2.2])}),
        {"x": "simplex", "concentration": "positive"}, dims=[3])
    cov = [[1.3, 0.2, -0.1], [0.2, 0.9, 0.3], [-0.1, 0.3, 1.7]]
    tril = [[1.1, 0.0, 0.0], [0.3, 0.8, 0.0], [-0.2, 0.4, 1.5]]
    add("dist_mvn_wrapped", dist("d", TD + "MultivariateNormal", P("x", [0.3, -1.2, 0.8]),
                                 {"loc": P("loc", [0.2, -0.4, 0.9]), "covariance_matrix": P("cov", cov)}),
        {"cov": "spd"}, dims=[3])
    for key, pid, val, kind in (("covariance_matrix", "cov", cov, "spd"),
                                ("precision_matrix", "prec", cov, "spd"),
                                ("scale_tril", "tril", tril, "tril")):
        add("dist_mvn_" + pid, {"id": "d", "type": "MultivariateNormal", "x": P("x", [0.3, -1.2, 0.8]),
                                "parameters": {"loc": P("loc", [0.2, -0.4, 0.9]), key: P(pid, val)}},
            {pid: kind}, dims=[3])
    add("dist_cat_x", dist("d", TD + "Normal", [P("xa", [0.3, -1.2]), P("xb", [0.8])],
                           {"loc": P("loc", [0.2]), "scale": P("scale", [1.3])}),
        {"scale": "positive"})
    add("dist_deterministic_normal",
        {"id": "d", "type": "DeterministicNormal", "loc": P("loc", [0.2, -0.4]), "scale": P("scale", [1.3, 0.6]),
         "x": P("x", [0.3, -1.2]), "shape": []},
        {"scale": "positive"})
    add("dist_scale_mixture",
        {"id": "d", "type": "ScaleMixtureNormal", "x": P("x", [0.3, -1.2, 0.8]), "loc": 0.0,
         "global_scale": P("global", [0.7]), "local_scale": P("local", [1.3, 0.6, 2.1])},
        {"global": "positive", "local": "positive"}, dims=[3])
    add("dist_scale_mixture_slab",
        {"id": "d", "type": "ScaleMixtureNormal", "x": P("x", [0.3, -1.2, 0.8]), "loc": 0.0,
         "global_scale": P("global", [0.7]), "local_scale": P("local", [1.3, 0.6, 2.1]), "slab": P("slab", [1.9])},
        {"global": "positive", "local": "positive", "slab": "positive"}, dims=[3])
    add("dist_bridge",
        {"id": "d", "type": "BayesianBridge", "x": P("x", [0.3, -1.2, 0.8]), "scale": P("scale", [0.7]),
         "alpha": P("alpha", [0.6])},
        {"scale": "positive", "alpha": "positive"}, dims=[3])
    add("dist_bridge_local",
        {"id": "d", "type": "BayesianBridge", "x": P("x", [0.3, -1.2, 0.8]), "scale": P("scale", [0.7]),
         "local_scale": P("local", [1.3, 0.6, 2.1]), "slab": P("slab", [1.9])},
        {"scale": "positive", "local": "positive", "slab": "positive"}, dims=[3])

    # ---- joint distributions over mixed components -------------------------------------------
    add("joint_mixed", {
        "id": "joint", "type": "JointDistributionModel", "distributions": [
            dist("d.normal", TD + "Normal", P("x", [0.3, -1.2, 0.8]),
                 {"loc": P("loc", [0.2]), "scale": P("scale", [1.3])}),
            dist("d.gamma", TD + "Gamma", P("y", [0.7]), {"concentration": 2.0, "rate": 3.0}),
            {"id": "d.mvn", "type": "MultivariateNormal", "x": P("z", [0.3, -0.5]),
             "parameters": {"loc": P("z.loc", [0.1, 0.2]), "covariance_matrix": P("z.cov", [[1.3, 0.2], [0.2, 0.9]])}},
            dist("d.dirichlet", TD + "Dirichlet", P("w", [0.2, 0.5, 0.3]), {"concentration": [1.5, 0.7, 2.2]}),
            dist("d.lognormal", TD + "LogNormal",
                 tp("u.pos", TD + "ExpTransform", P("u", [0.4, -0.3])), {"loc": 0.1, "scale": 0.9}),
            "u.pos",
        ]},
        {"scale": "positive", "y": "positive", "w": "simplex", "z.cov": "spd"}, dims=[3])
    add("joint_nested", {
        "id": "joint", "type": "JointDistributionModel", "distributions": [
            {"id": "inner", "type": "JointDistributionModel", "distributions": [
                dist("d.normal", TD + "Normal", P("x", [0.3, -1.2]),
                     {"loc": P("loc", [0.2]), "scale": P("scale", [1.3])}),
                dist("d.exp", TD + "Exponential", P("y", [0.7]), {"rate": P("rate", [1.7])}),
            ]},
            dist("d.gamma", TD + "Gamma", "scale", {"concentration": 2.0, "rate": 3.0}),
        ]},
        {"scale": "positive", "y": "positive", "rate": "positive"})
    add("joint_coalescent", {
        "id": "joint", "type": "JointDistributionModel", "distributions": [
            {"id": "coalescent", "type": "ConstantCoalescentModel", "theta": P("theta", [3.1]),
             "tree_model": ttree4()},
            dist("theta.prior", TD + "Gamma", "theta", {"concentration": 2.0, "rate": 0.5}),
            dist("heights.prior", TD + "Exponential", "tree.heights", {"rate": P("rate", [1.7])}),
        ]},
        dict(H4, theta="positive", rate="positive"), dims=[3, 4])

    # ---- coalescent models on a time tree with named heights ----------------------------------
    add("coal_constant", {"id": "coalescent", "type": "ConstantCoalescentModel", "theta": P("theta", [3.1]),
                          "tree_model": ttree4()}, dict(H4, theta="positive"), dims=[3, 4, 7])
    add("coal_constant3", {"id": "coalescent", "type": "ConstantCoalescentModel", "theta": P("theta", [3.1]),
                           "tree_model": ttree3()}, dict(H3, theta="positive"), dims=[3, 5])
    add("coal_constant_data", {"id": "coalescent", "type": "ConstantCoalescentModel", "theta": P("theta", [3.1]),
                               "times": [0.0, 0.0, 0.3, 0.5, 0.8, 1.1, 1.9], "events": [1, 1, 1, 0, 1, 0, 0]},
        {"theta": "positive"})
    add("coal_exponential", {"id": "coalescent", "type": "ExponentialCoalescentModel", "theta": P("theta", [3.1]),
                             "growth": P("growth", [0.7]), "tree_model": ttree4()},
        dict(H4, theta="positive"), dims=[3, 4, 7])
    add("coal_skyride", {"id": "coalescent", "type": "PiecewiseConstantCoalescentModel",
                         "theta": P("theta", [3.1, 1.7, 5.3]), "tree_model": ttree4()},
        dict(H4, theta="positive"), dims=[3, 4, 7])
    add("coal_skyride3", {"id": "coalescent", "type": "PiecewiseConstantCoalescentModel",
                          "theta": P("theta", [3.1, 1.7]), "tree_model": ttree3()},
        dict(H3, theta="positive"), dims=[3, 5])
    add("coal_skygrid", {"id": "coalescent", "type": "PiecewiseConstantCoalescentGridModel",
                         "theta": P("theta", [3.1, 1.7, 5.3]), "grid": P("grid", [0.8, 1.4]),
                         "tree_model": ttree4()},
        dict(H4, theta="positive", grid="grid"), dims=[3, 4, 7])
    add("coal_skygrid_cutoff", {"id": "coalescent", "type": "PiecewiseConstantCoalescentGridModel",
                                "theta": P("theta", [3.1, 1.7, 5.3, 2.2]), "cutoff": 2.1, "tree_model": ttree4()},
        dict(H4, theta="positive"), dims=[3, 4, 7])
    add("coal_skygrid_soft", {"id": "coalescent", "type": "PiecewiseConstantCoalescentGridModel",
                              "theta": P("theta", [3.1, 1.7, 5.3]), "grid": [0.8, 1.4], "temperature": 0.05,
                              "tree_model": ttree4()},
        dict(H4, theta="positive"), dims=[3, 4])
    add("coal_skyglide", {"id": "coalescent", "type": "PiecewiseLinearCoalescentGridModel",
                          "theta": P("theta", [3.1, 1.7, 5.3]), "grid": P("grid", [0.8, 1.4]),
                          "tree_model": ttree4()},
        dict(H4, theta="positive", grid="grid"), dims=[3, 4, 7])
    add("coal_pexp", {"id": "coalescent", "type": "PiecewiseExponentialCoalescentGridModel",
                      "theta": P("theta", [3.1, 1.7, 5.3]), "growth": P("growth", [0.7, -0.4, 0.2]),
                      "grid": [0.8, 1.4], "tree_model": ttree4()},
        dict(H4, theta="positive"), dims=[3])
    add("coal_integrated", {"id": "coalescent", "type": "ConstantCoalescentIntegratedModel", "alpha": 2.5,
                            "beta": 1.5, "tree_model": ttree4()}, H4, dims=[3, 4, 7])

    # ---- birth-death --------------------------------------------------------------------------
    add("bdsk_plain", {"id": "bdsk", "type": "BDSKModel", "tree_model": ttree4(),
                       "R": P("R", [1.7, 2.4]), "delta": P("delta", [1.1, 0.6]), "s": P("s", [0.3, 0.5]),
                       "rho": P("rho", [0.4]), "origin": P("origin", [6.0])},
        dict(H4, R="positive", delta="positive", s="unit", rho="unit", origin="positive"), dims=[3])
    add("bdsk_rootedge", {"id": "bdsk", "type": "BDSKModel", "tree_model": ttree4(),
                          "R": P("R", [1.7]), "delta": P("delta", [1.1]), "s": P("s", [0.3]),
                          "origin": P("origin", [0.9]), "origin_is_root_edge": True},
        dict(H4, R="positive", delta="positive", s="unit", origin="positive"), dims=[3])
    add("bd_constant", {"id": "bd", "type": "BirthDeathModel", "tree_model": ttree4(),
                        "lambda": P("lambda", [2.1]), "mu": P("mu", [1.1]), "psi": P("psi", [0.4]),
                        "rho": P("rho", [0.4]), "origin": P("origin", [6.0])},
        dict(H4, **{"lambda": "positive", "mu": "positive", "psi": "positive", "rho": "unit",
                    "origin": "positive"}))

    # ---- GMRF variants, CTMC scale, gamma-Dirichlet -----------------------------------------------
    add("gmrf_plain", {"id": "gmrf", "type": "GMRF", "x": P("field", [0.3, -0.4, 0.9, 0.1]),
                       "precision": P("precision", [1.7])}, {"precision": "positive"}, dims=[3, 4])
    add("gmrf_time_aware", {"id": "gmrf", "type": "GMRF", "x": P("field", [0.3, -0.4, 0.9]),
                            "precision": P("precision", [1.7]), "tree_model": ttree4()},
        dict(H4, precision="positive"), dims=[3])
    add("gmrf_weights", {"id": "gmrf", "type": "GMRF", "x": P("field", [0.3, -0.4, 0.9, 0.1]),
                         "precision": P("precision", [1.7]), "weights": P("weights", [0.6, 1.1, 0.9])},
        {"precision": "positive", "weights": "positive"}, dims=[3])
    add("gmrf_integrated", {"id": "gmrf", "type": "GMRFGammaIntegrated", "x": P("field", [0.3, -0.4, 0.9, 0.1]),
                            "shape": 1.5, "rate": 0.7}, {}, dims=[3, 4])
    add("gmrf_integrated_time_aware", {"id": "gmrf", "type": "GMRFGammaIntegrated",
                                       "x": P("field", [0.3, -0.4, 0.9]), "shape": 1.5, "rate": 0.7,
                                       "tree_model": ttree4()}, H4, dims=[3])
    add("gmrf_covariate", {"id": "gmrf", "type": "GMRFCovariate", "field": P("field", [0.3, -0.4, 0.9]),
                           "precision": P("precision", [1.7]),
                           "covariates": [[0.2, 1.1], [0.5, -0.3], [-0.7, 0.4]], "beta": P("beta", [0.6, -0.2])},
        {"precision": "positive"}, dims=[3])
    add("ctmc_unrooted", {"id": "ctmc", "type": "CTMCScale", "x": P("rate", [0.02]), "tree_model": utree4()},
        {"rate": "positive", "tree.blens": "positive"}, dims=[5])
    add("ctmc_time", {"id": "ctmc", "type": "CTMCScale", "x": P("rate", [0.02]), "tree_model": ttree4()},
        dict(H4, rate="positive"), dims=[3, 6])
    add("gammadir", {"id": "prior", "type": "CompoundGammaDirichletPrior", "tree_model": utree4(),
                     "alpha": P("alpha", [1.3]), "c": P("c", [0.7]), "shape": P("shape", [2.1]),
                     "rate": P("rate", [1.7])},
        {"tree.blens": "positive", "alpha": "positive", "c": "positive", "shape": "positive",
         "rate": "positive"}, dims=[5])

    # ---- tree likelihoods: every substitution / site / clock model ----------------------------------
    BL = {"tree.blens": "positive"}
    FQ = {"subst.freqs": "simplex", "subst.kappa": "positive", "subst.rates": "positive"}
    ST = {"site.shape": "positive", "site.pinv": "unit", "site.mu": "positive"}

    def doms(*ds):
        out = {}
        for d in ds:
            out.update(d)
        return out

    add("like_jc_unrooted3", [taxa(L3), like(dict(utree3(), taxa="taxa"), {"id": "subst", "type": "JC69"},
                                             site_const(), L3, SEQ3)],
        BL, dims=[3, 4])
    add("like_hky_unrooted4", [taxa(L4), like(dict(utree4(), taxa="taxa"), hky(), site_const(), L4, SEQ4)],
        doms(BL, FQ), dims=[4, 5])
    add("like_hky_unrooted4_states",
        [taxa(L4), like(dict(utree4(), taxa="taxa"), hky(), site_const(), L4, SEQ4, tip_states=True)],
        doms(BL, FQ), dims=[4, 5])
    add("like_gtr_w3", [taxa(L4), like(dict(utree4(), taxa="taxa"), gtr(), site_weibull(3), L4, SEQ4)],
        doms(BL, FQ, ST), dims=[3, 4, 5])
    add("like_hky_inv_mu", [taxa(L4), like(dict(utree4(), taxa="taxa"), hky(),
                                           {"id": "site", "type": "InvariantSiteModel",
                                            "invariant": P("site.pinv", [0.3]), "mu": P("site.mu", [1.4])},
                                           L4, SEQ4)],
        doms(BL, FQ, ST), dims=[4, 5])
    add("like_const_mu", [taxa(L3), like(dict(utree3(), taxa="taxa"), {"id": "subst", "type": "JC69"},
                                         {"id": "site", "type": "ConstantSiteModel", "mu": P("site.mu", [1.4])},
                                         L3, SEQ3)],
        doms(BL, ST), dims=[3, 4])
    add("like_hky_w2inv_mu", [taxa(L3), like(dict(utree3(), taxa="taxa"), hky(),
                                             site_weibull(2, pinv=True, mu=True), L3, SEQ3)],
        doms(BL, FQ, ST), dims=[3, 4])
    gdt = {"id": "gdt", "type": "GeneralDataType", "codes": ["A", "C", "G", "T"]}
    add("like_gensym", [taxa(L4), gdt,
                        like(dict(utree4(), taxa="taxa"),
                             {"id": "subst", "type": "GeneralSymmetricSubstitutionModel", "data_type": "gdt",
                              "mapping": [0, 1, 0, 0, 1, 0], "rates": P("subst.rates", [0.8, 3.3]),
                              "frequencies": P("subst.freqs", PI)},
                             site_const(), L4, SEQ4, datatype="gdt")],
        doms(BL, FQ), dims=[4, 5])
    add("like_gennonsym", [taxa(L4), gdt,
                           like(dict(utree4(), taxa="taxa"),
                                {"id": "subst", "type": "GeneralNonSymmetricSubstitutionModel", "data_type": "gdt",
                                 "mapping": list(range(12)),
                                 "rates": P("subst.rates", [0.3 + 0.37 * i for i in range(12)]),
                                 "frequencies": P("subst.freqs", PI)},
                                site_const(), L4, SEQ4, datatype="gdt")],
        doms(BL, FQ), dims=[4, 5])
    add("like_genjc", [taxa(L4), gdt,
                       like(dict(utree4(), taxa="taxa"), {"id": "subst", "type": "GeneralJC69", "state_count": 4},
                            site_weibull(2), L4, SEQ4, datatype="gdt")],
        doms(BL, ST), dims=[4, 5])
    add("like_lg", [taxa(L4), {"id": "adt", "type": "AminoAcidDataType"},
                    like(dict(utree4(), taxa="taxa"), {"id": "subst", "type": lb.AA_LG}, site_weibull(2), L4, AA4,
                         datatype="adt")],
        doms(BL, ST), dims=[5])
    add("like_strict_time4", [taxa(L4, AGES4),
                              like(dict(ttree4(), taxa="taxa"), hky(), site_const(), L4, SEQ4,
                                   clock={"id": "clock", "type": "StrictClockModel", "tree_model": "tree",
                                          "rate": P("clock.rate", [0.13])})],
        doms(H4, FQ, {"clock.rate": "positive"}), dims=[3, 4, 6])
    add("like_strict_time3_states",
        [taxa(L3, AGES3),
         like(dict(ttree3(), taxa="taxa"), {"id": "subst", "type": "JC69"}, site_weibull(2), L3, SEQ3,
              clock={"id": "clock", "type": "StrictClockModel", "tree_model": "tree",
                     "rate": P("clock.rate", [0.13])}, tip_states=True)],
        doms(H3, ST, {"clock.rate": "positive"}), dims=[3, 4])
    add("like_simple_time4", [taxa(L4, AGES4),
                              like(dict(ttree4(), taxa="taxa"), {"id": "subst", "type": "JC69"}, site_const(), L4,
                                   SEQ4, clock={"id": "clock", "type": "SimpleClockModel", "tree_model": "tree",
                                                "rate": P("clock.rates", [0.13, 0.21, 0.08, 0.17, 0.3, 0.11])})],
        doms(H4, {"clock.rates": "positive"}), dims=[3, 4, 6])
    add("like_strict_ratio4", [taxa(L4, AGES4),
                               like(dict(rtree4(), taxa="taxa"), hky(), site_weibull(2), L4, SEQ4,
                                    clock={"id": "clock", "type": "StrictClockModel", "tree_model": "tree",
                                           "rate": P("clock.rate", [0.13])})],
        doms(FQ, ST, {"clock.rate": "positive", "tree.ratios": "unit", "tree.root_height": "positive"}),
        dims=[4, 6])
    add("poisson_like", [{"id": "like", "type": "PoissonTreeLikelihood", "tree_model": ttree4(),
                          "branch_model": {"id": "clock", "type": "StrictClockModel", "tree_model": "tree",
                                           "rate": P("clock.rate", [2.3])},
                          "edge_lengths": [1.0, 3.0, 0.0, 2.0, 1.0, 4.0]}],
        doms(H4, {"clock.rate": "positive"}), dims=[3, 6])

    # ---- tree transforms ---------------------------------------------------------------------------
    add("tree_ratio4", rtree4(), {"tree.ratios": "unit", "tree.root_height": "positive"}, dims=[3, 4])
    add("tree_shift4", stree4(), {"tree.shifts": "positive"}, dims=[3, 4])

    # ---- transforms through TransformedParameter ------------------------------------------------------
    X3 = [0.3, -1.2, 0.8]
    for name, path, dom in (("cumsum", TT + "CumSumTransform", "real"),
                            ("cumsumexp", TT + "CumSumExpTransform", "real"),
                            ("softplus", TT + "SoftPlusTransform", "real"),
                            ("cumsumsoftplus", TT + "CumSumSoftPlusTransform", "real"),
                            ("log", TT + "LogTransform", "positive"),
                            ("exp", TD + "ExpTransform", "real"),
                            ("sigmoid", TD + "SigmoidTransform", "real"),
                            ("stickbreaking", TD + "StickBreakingTransform", "real"),
                            ("trilexp", TT + "TrilExpDiagonalTransform", "real")):
        x0 = [abs(v) for v in X3] if dom == "positive" else X3
        add("tp_" + name, tp("tp", path, P("x", x0)), {"x": dom}, dims=[3])
    add("tp_affine", tp("tp", TD + "AffineTransform", P("x", X3), {"loc": P("loc", [1.5]), "scale": 2.5}),
        {}, dims=[3])
    add("tp_affine_vec", tp("tp", TD + "AffineTransform", P("x", X3),
                            {"loc": P("loc", [1.5, -0.2, 0.4]), "scale": P("scale", [2.5, 0.7, 1.2])}),
        {"scale": "positive"}, dims=[3])
    add("tp_convex", tp("tp", "ConvexCombinationTransform", P("x", [0.3, 1.2, 0.8]),
                        {"weights": P("w", [0.2, 0.3, 0.5])}), {"x": "positive", "w": "simplex"}, dims=[3])
    add("tp_linear", tp("tp", "torchtree.distributions.transforms.LinearTransform", P("x", X3),
                        {"weight": P("weight", [[0.2, 1.1, -0.4], [0.5, -0.3, 0.9]]),
                         "bias": P("bias", [0.1, -0.6])}), {}, dims=[2, 3])
    add("tp_cat_x", tp("tp", TD + "ExpTransform", [P("xa", [0.3, -1.2]), P("xb", [0.8])]), {}, dims=[3])
    add("tp_logdiff", [ttree4(), tp("tp", "LogDifferenceRateTransform",
                                    P("rates", [0.13, 0.21, 0.08, 0.17, 0.3, 0.11]), {"tree_model": "tree"})],
        dict(H4, rates="positive"), dims=[3, 6])
    add("tp_rescaled", [ttree4(), tp("tp", "RescaledRateTransform",
                                     P("rates", [0.13, 0.21, 0.08, 0.17, 0.3, 0.11]),
                                     {"rate": P("rate", [0.02]), "tree_model": "tree"})],
        dict(H4, rates="positive", rate="positive"), dims=[3, 6])
    add("view_prior", [P("a", [0.7, 1.9, 0.4]),
                       {"id": "a.view", "type": "ViewParameter", "parameter": "a", "indices": "1:"},
                       dist("d", TD + "Gamma", "a.view", {"concentration": P("concentration", [2.0]), "rate": 1.5})],
        {"a": "positive", "concentration": "positive"}, dims=[2, 3])
    return g
