"""Small JSON specifications shared by the run-state checks (C15, C17, C18)."""


def normal_toy(x=(0.5, 1.5), loc=0.3, scale=1.2, dtype=None, nn=False):
    xp = {"id": "x", "type": "Parameter", "tensor": list(x)}
    if dtype:
        xp["dtype"] = dtype
    if nn:
        xp["nn"] = True
    return {
        "id": "joint",
        "type": "JointDistributionModel",
        "distributions": [
            {
                "id": "like",
                "type": "Distribution",
                "distribution": "torch.distributions.Normal",
                "x": xp,
                "parameters": {"loc": loc, "scale": scale},
            },
            {
                "id": "prior",
                "type": "Distribution",
                "distribution": "torch.distributions.Gamma",
                "x": {"id": "y", "type": "Parameter", "tensor": [0.7]},
                "parameters": {"concentration": 2.0, "rate": 3.0},
            },
        ],
    }


def mcmc_toy(checkpoint, iterations=3, frequency=1):
    return [
        normal_toy(),
        {
            "id": "mcmc",
            "type": "MCMC",
            "joint": "joint",
            "iterations": iterations,
            "every": 0,
            "checkpoint": checkpoint,
            "checkpoint_frequency": frequency,
            "operators": [
                {"id": "op.x", "type": "SlidingWindowOperator", "parameters": ["x"],
                 "width": 0.5, "weight": 1.0},
                {"id": "op.y", "type": "ScalerOperator", "parameters": ["y"],
                 "scaler": 0.5, "weight": 1.0},
            ],
        },
    ]


def optimizer_toy(checkpoint, iterations=3, frequency=1, checkpoint_all=False,
                  algorithm="torch.optim.SGD", options=None):
    return [
        normal_toy(),
        {
            "id": "opt",
            "type": "Optimizer",
            "algorithm": algorithm,
            "options": options or {"lr": 0.01},
            "maximize": True,
            "loss": "joint",
            "parameters": ["x", "y"],
            "iterations": iterations,
            "checkpoint": checkpoint,
            "checkpoint_frequency": frequency,
            "checkpoint_all": checkpoint_all,
        },
    ]
