"""JSON builders for tree models + independent index bookkeeping."""
from mc.explore import enumerate as en


def taxa_spec(labels, dates=None, id_="taxa"):
    taxa = []
    for i, lab in enumerate(labels):
        t = {"id": lab, "type": "Taxon"}
        if dates is not None:
            t["attributes"] = {"date": dates[i]}
        taxa.append(t)
    return {"id": id_, "type": "Taxa", "taxa": taxa}


def P(id_, v, **kw):
    d = {"id": id_, "type": "Parameter", "tensor": v}
    d.update(kw)
    return d


def ratio_tree(topology, labels, dates, ratios, root_height, id_="tree", taxa="spec"):
    return {
        "id": id_, "type": "ReparameterizedTimeTreeModel", "newick": en.newick(topology),
        "taxa": taxa_spec(labels, dates) if taxa == "spec" else taxa,
        "ratios": P(id_ + ".ratios", ratios), "root_height": P(id_ + ".root_height", root_height),
    }


def shift_tree(topology, labels, dates, shifts, id_="tree", taxa="spec"):
    return {
        "id": id_, "type": "ReparameterizedTimeTreeModel", "newick": en.newick(topology),
        "taxa": taxa_spec(labels, dates) if taxa == "spec" else taxa,
        "shifts": P(id_ + ".shifts", shifts),
    }


def time_tree(topology, labels, dates, heights, id_="tree", taxa="spec"):
    return {
        "id": id_, "type": "TimeTreeModel", "newick": en.newick(topology),
        "taxa": taxa_spec(labels, dates) if taxa == "spec" else taxa,
        "internal_heights": P(id_ + ".heights", heights),
    }


def unrooted_tree(topology, labels, blens, id_="tree", taxa="spec", newick=None, keep=False):
    d = {
        "id": id_, "type": "UnRootedTreeModel",
        "newick": newick if newick is not None else en.newick(topology),
        "taxa": taxa_spec(labels) if taxa == "spec" else taxa,
        "branch_lengths": P(id_ + ".blens", blens),
    }
    if keep:
        d["keep_branch_lengths"] = True
    return d


def index_clades(tree_model, labels):
    """node index -> clade (frozenset of labels), derived from the model's post-order
    triples; leaves are assumed to be indexed by their position in the taxa list (that
    convention is itself checked by the callers against the oracle values)."""
    n = len(labels)
    cl = {i: frozenset([labels[i]]) for i in range(n)}
    for node, left, right in tree_model.postorder:
        cl[int(node)] = cl[int(left)] | cl[int(right)]
    return cl


def sampling_heights(dates):
    """documented convention: a minimum of exactly 0 means the dates are ages; otherwise
    they are calendar dates and the most recent tip is at height 0"""
    if min(dates) == 0.0:
        return list(dates)
    mx = max(dates)
    return [mx - d for d in dates]


def oracle_ratio_heights(topology, heights_by_leaf, ratio_by_clade, root_height):
    """heights by clade: bound + ratio * (parent - bound), root at root_height"""
    root = frozenset(en.leaves(topology))
    out = {}

    def bound(x):
        return max(heights_by_leaf[l] for l in en.leaves(x))

    def rec(x, parent_h):
        if not isinstance(x, tuple):
            return
        c = frozenset(en.leaves(x))
        if c == root:
            h = root_height
        else:
            b = bound(x)
            h = b + ratio_by_clade[c] * (parent_h - b)
        out[c] = h
        rec(x[0], h)
        rec(x[1], h)

    rec(topology, None)
    return out


def oracle_shift_heights(topology, heights_by_leaf, shift_by_clade):
    out = {}

    def rec(x):
        if not isinstance(x, tuple):
            return heights_by_leaf[x]
        h = max(rec(x[0]), rec(x[1])) + shift_by_clade[frozenset(en.leaves(x))]
        out[frozenset(en.leaves(x))] = h
        return h

    rec(topology)
    return out
