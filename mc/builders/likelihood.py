"""JSON builders for tree-likelihood models together with the matching reference
ingredients (normalised Q, frequencies, category rates/probabilities)."""
import numpy as np

from mc.builders import trees as tb
from mc.oracle import ratematrix as orm

AA_LG = "torchtree.evolution.substitution_model.amino_acid.LG"
AA_WAG = "torchtree.evolution.substitution_model.amino_acid.WAG"


def P(id_, v):
    return {"id": id_, "type": "Parameter", "tensor": v}


# -- substitution models: name -> (spec, datatype-kind) --------------------------------------

PI1 = [0.1, 0.2, 0.3, 0.4]
PI2 = [0.37, 0.13, 0.08, 0.42]
SUBST_POINTS = {
    "JC69": [{}],
    "HKY": [{"kappa": 2.7, "pi": PI1}, {"kappa": 0.4, "pi": PI2}, {"kappa": 1.0, "pi": [0.25] * 4}],
    "GTR": [{"rates": [0.7, 2.3, 0.4, 1.1, 3.7, 1.0], "pi": PI1},
            {"rates": [3.1, 0.2, 1.9, 0.6, 0.9, 2.2], "pi": PI2}],
    "GeneralJC69": [{}],
    "GeneralSymHKY": [{"rates": [0.8, 3.3], "pi": PI2}],
    "GeneralSymId": [{"rates": [0.7, 2.3, 0.4, 1.1, 3.7, 1.0], "pi": PI1}],
    "GeneralNonSym": [{"rates": [0.3 + 0.37 * i for i in range(12)], "pi": PI1},
                      {"rates": [2.9 - 0.21 * i for i in range(12)], "pi": PI2}],
    "LG": [{}],
    "WAG": [{}],
    "MG94": [{"alpha": 0.6, "beta": 0.15, "kappa": 2.2}],
}
DATATYPE = {"LG": "aa", "WAG": "aa", "MG94": "codon", "GeneralJC69": "general",
            "GeneralSymHKY": "general", "GeneralSymId": "general", "GeneralNonSym": "general"}
GENERAL_CODES = ["A", "C", "G", "T"]


def codon_table():
    from torchtree.evolution.datatype import CodonDataType

    return CodonDataType.GENETIC_CODE_TABLES[0]


def sense_codons():
    table = codon_table()
    return [orm.TRIPLETS[i] for i in range(64) if table[i] != "*"]


def codon_pi():
    n = len(sense_codons())
    w = np.array([1.0 + ((7 * i) % 11) for i in range(n)], dtype=float)
    return (w / w.sum()).tolist()


def subst_spec(name, pt, id_="subst"):
    """returns (json spec, function(model) -> (Q unnormalised, pi))"""
    if name == "JC69":
        return {"id": id_, "type": "JC69"}, lambda m: (orm.jc69(4), [0.25] * 4)
    if name == "GeneralJC69":
        return ({"id": id_, "type": "GeneralJC69", "state_count": 4},
                lambda m: (orm.jc69(4), [0.25] * 4))
    if name == "HKY":
        return ({"id": id_, "type": "HKY", "kappa": P(id_ + ".kappa", [pt["kappa"]]),
                 "frequencies": P(id_ + ".freqs", pt["pi"])},
                lambda m: (orm.hky(pt["kappa"], pt["pi"]), pt["pi"]))
    if name == "GTR":
        return ({"id": id_, "type": "GTR", "rates": P(id_ + ".rates", pt["rates"]),
                 "frequencies": P(id_ + ".freqs", pt["pi"])},
                lambda m: (orm.gtr(pt["rates"], pt["pi"]), pt["pi"]))
    if name in ("GeneralSymHKY", "GeneralSymId", "GeneralNonSym"):
        dt = {"id": "gdt", "type": "GeneralDataType", "codes": GENERAL_CODES}
        if name == "GeneralNonSym":
            mapping = list(range(12))
            spec = {"id": id_, "type": "GeneralNonSymmetricSubstitutionModel", "data_type": "gdt",
                    "mapping": mapping, "rates": P(id_ + ".rates", pt["rates"]),
                    "frequencies": P(id_ + ".freqs", pt["pi"])}
            return spec, lambda m: (orm.general_nonsymmetric(mapping, pt["rates"], pt["pi"]), pt["pi"])
        mapping = [0, 1, 0, 0, 1, 0] if name == "GeneralSymHKY" else list(range(6))
        spec = {"id": id_, "type": "GeneralSymmetricSubstitutionModel", "data_type": "gdt",
                "mapping": mapping, "rates": P(id_ + ".rates", pt["rates"]),
                "frequencies": P(id_ + ".freqs", pt["pi"])}
        return spec, lambda m: (orm.general_symmetric(mapping, pt["rates"], pt["pi"]), pt["pi"])
    if name in ("LG", "WAG"):
        def ref(m):
            pi = m.frequencies.tolist()
            return orm.empirical(m._rates.tolist(), pi), pi
        return {"id": id_, "type": AA_LG if name == "LG" else AA_WAG}, ref
    if name == "MG94":
        pi = codon_pi()
        spec = {"id": id_, "type": "MG94", "data_type": "cdt",
                "alpha": P(id_ + ".alpha", [pt["alpha"]]), "beta": P(id_ + ".beta", [pt["beta"]]),
                "kappa": P(id_ + ".kappa", [pt["kappa"]]), "frequencies": P(id_ + ".freqs", pi)}
        return spec, lambda m: (orm.mg94(codon_table(), pt["alpha"], pt["beta"], pt["kappa"], pi)[0], pi)
    raise ValueError(name)


def datatype_spec(kind):
    if kind == "nuc":
        return "nucleotide"
    if kind == "aa":
        return {"id": "adt", "type": "AminoAcidDataType"}
    if kind == "codon":
        return {"id": "cdt", "type": "CodonDataType", "genetic_code": "Universal"}
    if kind == "general":
        return {"id": "gdt", "type": "GeneralDataType", "codes": GENERAL_CODES}
    raise ValueError(kind)


# -- site models ----------------------------------------------------------------------------

SITE = {
    "constant": {},
    "constant_mu": {"mu": 1.7},
    "invariant": {"pinv": 0.3},
    "weibull2": {"shape": 0.5, "K": 2},
    "weibull4": {"shape": 1.3, "K": 4},
    "weibull4_inv": {"shape": 0.7, "K": 4, "pinv": 0.2},
    "weibull3_inv_mu": {"shape": 2.5, "K": 3, "pinv": 0.4, "mu": 0.6},
}


def site_spec(name, id_="site"):
    c = SITE[name]
    if "K" in c:
        s = {"id": id_, "type": "WeibullSiteModel", "categories": c["K"],
             "shape": P(id_ + ".shape", [c["shape"]])}
    elif "pinv" in c:
        s = {"id": id_, "type": "InvariantSiteModel"}
    else:
        s = {"id": id_, "type": "ConstantSiteModel"}
    if "pinv" in c:
        s["invariant"] = P(id_ + ".pinv", [c["pinv"]])
    if "mu" in c:
        s["mu"] = P(id_ + ".mu", [c["mu"]])
    return s


def site_ref(name):
    c = SITE[name]
    mu = c.get("mu", 1.0)
    if "K" in c:
        K = c["K"]
        q = (2.0 * np.arange(K) + 1.0) / (2.0 * K)
        r = np.power(-np.log1p(-q), 1.0 / c["shape"])
        if "pinv" in c:
            p = np.concatenate(([c["pinv"]], np.full(K, (1.0 - c["pinv"]) / K)))
            r = np.concatenate(([0.0], r))
        else:
            p = np.full(K, 1.0 / K)
        r = r / np.sum(p * r) * mu
        return r, p
    if "pinv" in c:
        return np.array([0.0, mu / (1.0 - c["pinv"])]), np.array([c["pinv"], 1.0 - c["pinv"]])
    return np.array([mu]), np.array([1.0])


# -- alignment / likelihood ---------------------------------------------------------------------

def alignment_spec(labels_in_order, seqs, datatype, taxa="taxa", id_="aln"):
    return {"id": id_, "type": "Alignment", "datatype": datatype, "taxa": taxa,
            "sequences": [{"taxon": lab, "sequence": s} for lab, s in zip(labels_in_order, seqs)]}


def likelihood_spec(tree_spec, subst, site, aln, tips, clock=None, id_="like"):
    """tips: 'union' (partials, use_ambiguities), 'missing' (partials), 'states'."""
    spec = {"id": id_, "type": "TreeLikelihoodModel", "tree_model": tree_spec,
            "site_model": site, "substitution_model": subst,
            "site_pattern": {"id": id_ + ".sp", "type": "SitePattern", "alignment": aln}}
    if tips == "union":
        spec["use_ambiguities"] = True
    elif tips == "states":
        spec["use_tip_states"] = True
    if clock is not None:
        spec["branch_model"] = clock
    return spec
