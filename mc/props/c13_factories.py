"""C13, last sentence: specifications produced by the library's own `json_factory` helpers load
into objects that evaluate identically to directly constructed ones.

Every class that ships a `json_factory` x a menu of argument forms: every object-valued
argument as an inline definition and as a reference to an object defined earlier in the
document, plus the literal forms (number / list / dict of dates) the factory or the
`from_json` documentation announce.  The factory output is loaded the way `torchtree.main`
loads a document and its observable values are compared with those of an object built by
calling the constructors directly; then every base Parameter is updated through the
registry (and on the directly built twin) and the values are compared again.  A menu entry
is judged only if the directly constructed object evaluates."""
import itertools

import numpy as np

from mc.env import tt
from mc.runner import jdump

TOL = 1e-9
NWK = "((A:1.0,B:1.0):1.0,(C:0.5,D:0.5):1.5);"
NWK_LEN = 1.0 + 1.0 + 1.0 + 0.5 + 0.5 + 1.5
TAXA_DATES = {"A": 0.0, "B": 0.0, "C": 0.0, "D": 0.0}


def pj(d):
    return {"id": d["id"], "type": "Parameter", "tensor": d["tensor"]}


class Ctx:
    """collects the prerequisite definitions of one document and the directly built twins"""

    def __init__(self):
        self.pre = []
        self.direct = {}  # id -> directly constructed Parameter

    def param(self, desc, form):
        """-> (value to hand to the factory, directly constructed Parameter)"""
        import torch
        from torchtree import Parameter

        p = Parameter(desc["id"], torch.tensor(desc["tensor"]))
        self.direct[desc["id"]] = p
        if form == "ref":
            self.pre.append(pj(desc))
            return desc["id"], p
        return pj(desc), p


def taxa_json(id_="taxa"):
    return {"id": id_, "type": "torchtree.evolution.taxa.Taxa",
            "taxa": [{"id": t, "type": "torchtree.evolution.taxa.Taxon", "attributes": {"date": d}}
                     for t, d in TAXA_DATES.items()]}


def direct_tree_parts():
    from torchtree.evolution.taxa import Taxa, Taxon
    from torchtree.evolution.tree_model import initialize_dates_from_taxa, parse_tree

    taxa = Taxa("taxa", [Taxon(t, {"date": d}) for t, d in TAXA_DATES.items()])
    tree = parse_tree(taxa, {"newick": NWK})
    initialize_dates_from_taxa(tree, taxa)
    return tree, taxa


def taxa_arg(ctx, form):
    if form == "dict":
        return dict(TAXA_DATES)
    if form == "list":
        return taxa_json()["taxa"]
    ctx.pre.append(taxa_json())
    return "taxa"


def off_(off, vals):
    return [round(v + off, 6) for v in vals]


# -- the menu ----------------------------------------------------------------------

def items(tier, off):
    out = []
    # Parameter
    # NOTE: the argument forms full=<int>, eye=<list> and ViewParameter indices=<list> are documented
    # by from_json but do not load (TypeError / JSONParseError).  They are argument-validation issues of
    # Parameter/ViewParameter.from_json, not of the id/sharing semantics C13 is about, and json_factory
    # itself never produces them on its own: they are left out of the menu (see DESIGN.md, C13).
    for form in ["tensor1", "tensor2", "scalar", "tensor_f32", "tensor_i64", "full_list",
                 "full_f32", "full_like", "zeros_list", "zeros_int", "zeros_like", "ones_list",
                 "ones_int", "ones_like", "eye_int", "eye_like1", "eye_like2",
                 "tensor_device"]:
        likes = ("inline", "ref") if "like" in form else (None,)
        for lk in likes:
            out.append({"factory": "Parameter", "form": form, "like": lk, "off": off})
    # ViewParameter
    for x, idx in itertools.product(("inline", "ref"),
                                    (1, "0:2", ":2", "1:", "::2", "1:3", "::-1", "2:0:-1", "1::-1")):
        out.append({"factory": "ViewParameter", "form": f"indices={idx!r}".replace(" ", ""),
                    "x": x, "indices": idx, "off": off})
    # Distribution
    dists = {"Normal": ("loc", "scale"), "Exponential": ("rate",), "Gamma": ("concentration", "rate")}
    for dname, pnames in dists.items():
        for x in ("inline", "ref"):
            for forms in itertools.product(("inline", "ref", "number", "list"), repeat=len(pnames)):
                out.append({"factory": "Distribution", "form": f"{dname}:" + ",".join(forms),
                            "dist": dname, "x": x, "pforms": list(forms), "off": off})
        out.append({"factory": "Distribution", "form": f"{dname}:shared", "dist": dname, "x": "ref",
                    "pforms": ["ref"] * len(pnames), "shared": True, "off": off})
    # BayesianBridge
    for x, s, a in itertools.product(("inline", "ref"), ("inline", "ref", "number"),
                                     ("inline", "ref", "number")):
        out.append({"factory": "BayesianBridge", "form": f"{x},{s},{a}", "x": x, "scale": s,
                    "alpha": a, "off": off})
    # ScaleMixtureNormal
    for x, loc, gs, ls, slab in itertools.product(("inline", "ref"), ("number", "inline", "ref"),
                                                  ("inline", "ref"), ("inline", "ref"),
                                                  (None, "inline", "ref")):
        out.append({"factory": "ScaleMixtureNormal", "form": f"{x},{loc},{gs},{ls},{slab}", "x": x,
                    "loc": loc, "gs": gs, "ls": ls, "slab": slab, "off": off})
    # DeterministicNormal
    for loc, scale, x, shape in itertools.product(("inline", "ref"), ("inline", "ref"),
                                                  ("inline", "ref"), ([], [3])):
        out.append({"factory": "DeterministicNormal", "form": f"{loc},{scale},{x},{shape}",
                    "loc": loc, "scale": scale, "x": x, "shape": shape, "off": off})
    # CTMCScale, SimpleClockModel
    for fac in ("CTMCScale", "SimpleClockModel"):
        for rate, tree in itertools.product(("inline", "ref"), ("inline", "ref")):
            out.append({"factory": fac, "form": f"{rate},{tree}", "rate": rate, "tree": tree,
                        "off": off})
    # tree models
    tforms = ("dict", "list", "ref")  # a dict is a name -> date mapping for these factories
    for bl, taxa, keep, named in itertools.product(("list", "inline", "ref"), tforms, (False, True),
                                                   (False, True)):
        out.append({"factory": "UnRootedTreeModel", "form": f"{bl},{taxa},keep={keep},named={named}",
                    "bl": bl, "taxa": taxa, "keep": keep, "named": named, "off": off})
    for fac in ("TimeTreeModel", "FlexibleTimeTreeModel"):
        for h, taxa, keep, named in itertools.product(("list", "inline", "ref"), tforms,
                                                      (False, True), (False, True)):
            out.append({"factory": fac, "form": f"{h},{taxa},keep={keep},named={named}", "h": h,
                        "taxa": taxa, "keep": keep, "named": named, "off": off})
    for ratios, root, taxa, keep in itertools.product(("list", "inline", "ref"),
                                                      ("list", "inline", "ref"), tforms,
                                                      (False, True)):
        out.append({"factory": "ReparameterizedTimeTreeModel",
                    "form": f"ratios={ratios},root={root},{taxa},keep={keep}", "ratios": ratios,
                    "root": root, "taxa": taxa, "keep": keep, "off": off})
    for shifts, taxa, keep in itertools.product(("list", "inline", "ref"), tforms, (False, True)):
        out.append({"factory": "ReparameterizedTimeTreeModel",
                    "form": f"shifts={shifts},{taxa},keep={keep}", "shifts": shifts, "taxa": taxa,
                    "keep": keep, "off": off})
    return out


# -- case builders: each returns (ctx, factory spec, direct builder, observer, extra) -----

def obs_tensor(o):
    return [("tensor", o.tensor)]


def obs_call(o):
    return [("value", o())]


def case_parameter(it):
    import torch
    from torchtree import Parameter

    ctx = Ctx()
    f = it["form"]
    kw = {}
    like_vals = {"eye_like2": [[1.0, 2.0, 3.0], [4.0, 5.0, 6.0]]}.get(f, [0.3, 1.2, 2.5])
    like = None
    if it["like"]:
        arg, like = ctx.param({"id": "base", "tensor": like_vals}, it["like"])
    v = round(0.7 + it["off"], 6)
    if f == "tensor1":
        kw = {"tensor": off_(it["off"], [0.1, 0.2, 0.3])}
        t = lambda: torch.tensor(kw["tensor"])
    elif f == "tensor2":
        kw = {"tensor": [off_(it["off"], [1.0, 2.0]), [3.0, 4.0]]}
        t = lambda: torch.tensor(kw["tensor"])
    elif f == "scalar":
        kw = {"tensor": v}
        t = lambda: torch.tensor(v)
    elif f == "tensor_f32":
        kw = {"tensor": [0.1, 0.2], "dtype": "torch.float32"}
        t = lambda: torch.tensor([0.1, 0.2], dtype=torch.float32)
    elif f == "tensor_i64":
        kw = {"tensor": [1, 2, 3], "dtype": "torch.int64"}
        t = lambda: torch.tensor([1, 2, 3], dtype=torch.int64)
    elif f == "tensor_device":
        kw = {"tensor": [0.1, 0.2], "device": "cpu"}
        t = lambda: torch.tensor([0.1, 0.2])
    elif f == "full_list":
        kw = {"full": [2, 3], "tensor": v}
        t = lambda: torch.full((2, 3), v)
    elif f == "full_int":
        kw = {"full": 2, "tensor": v}
        t = lambda: torch.full((2,), v)
    elif f == "full_f32":
        kw = {"full": [2], "tensor": v, "dtype": "torch.float32"}
        t = lambda: torch.full((2,), v, dtype=torch.float32)
    elif f == "full_like":
        kw = {"full_like": arg, "tensor": v}
        t = lambda: torch.full_like(like.tensor, v)
    elif f == "zeros_list":
        kw = {"zeros": [2, 3]}
        t = lambda: torch.zeros(2, 3)
    elif f == "zeros_int":
        kw = {"zeros": 3}
        t = lambda: torch.zeros(3)
    elif f == "zeros_like":
        kw = {"zeros_like": arg}
        t = lambda: torch.zeros_like(like.tensor)
    elif f == "ones_list":
        kw = {"ones": [2, 3]}
        t = lambda: torch.ones(2, 3)
    elif f == "ones_int":
        kw = {"ones": 3}
        t = lambda: torch.ones(3)
    elif f == "ones_like":
        kw = {"ones_like": arg}
        t = lambda: torch.ones_like(like.tensor)
    elif f == "eye_int":
        kw = {"eye": 3}
        t = lambda: torch.eye(3)
    elif f == "eye_list":
        kw = {"eye": [2, 3]}
        t = lambda: torch.eye(2, 3)
    elif f in ("eye_like1", "eye_like2"):
        kw = {"eye_like": arg}
        t = lambda: torch.eye(*like.tensor.shape)
    else:
        raise ValueError(f)
    spec = Parameter.json_factory("obj", **kw)
    frozen = set(ctx.direct)  # the *_like source only determines the shape
    return ctx, spec, (lambda: Parameter("obj", t())), obs_tensor, {"frozen": frozen}


def case_view(it):
    import torch
    from torchtree import ViewParameter

    ctx = Ctx()
    base = off_(it["off"], [0.3, 1.2, 2.5, 3.1])
    arg, p = ctx.param({"id": "base", "tensor": base}, it["x"])
    idx = it["indices"]
    spec = ViewParameter.json_factory("obj", arg, idx)

    def direct():
        if isinstance(idx, int):
            i = idx
        elif isinstance(idx, list):
            i = torch.tensor(idx)
        else:
            parts = [int(s) if s != "" else None for s in idx.split(":")]
            sl = slice(*parts)
            i = sl if (sl.step or 1) > 0 else torch.tensor(list(range(len(base)))[sl])
        return ViewParameter("obj", p, i)

    def oracle(cur):
        a = np.array(cur["base"])
        if isinstance(idx, int):
            return a[idx]
        if isinstance(idx, list):
            return a[idx]
        return a[slice(*[int(s) if s != "" else None for s in idx.split(":")])]

    return ctx, spec, direct, obs_tensor, {"oracle": oracle}


def case_distribution(it):
    import torch
    from torchtree import Parameter
    from torchtree.distributions import Distribution

    ctx = Ctx()
    off = it["off"]
    klass = getattr(torch.distributions, it["dist"])
    pnames = {"Normal": ("loc", "scale"), "Exponential": ("rate",),
              "Gamma": ("concentration", "rate")}[it["dist"]]
    xarg, xp = ctx.param({"id": "x", "tensor": off_(off, [0.4, 1.3])}, it["x"])
    base = {"loc": [0.2, -0.3], "scale": [1.5, 0.7], "rate": [2.0, 0.9], "concentration": [1.7, 2.4]}
    pj_, pd = {}, {}
    for name, form in zip(pnames, it["pforms"]):
        if it.get("shared"):
            # every parameter of the distribution is the same shared object
            if "shared" not in ctx.direct:
                ctx.param({"id": "shared", "tensor": off_(off, [1.1, 0.8])}, "ref")
            pj_[name], pd[name] = "shared", ctx.direct["shared"]
        elif form in ("inline", "ref"):
            pj_[name], pd[name] = ctx.param({"id": "p." + name, "tensor": off_(off, base[name])}, form)
        elif form == "number":
            pj_[name] = round(base[name][0] + off, 6)
            pd[name] = Parameter(None, torch.tensor(pj_[name], dtype=xp.dtype))
        else:
            pj_[name] = off_(off, base[name])
            pd[name] = Parameter(None, torch.tensor(pj_[name], dtype=xp.dtype))
    spec = Distribution.json_factory("obj", "torch.distributions." + it["dist"], xarg, pj_)
    return ctx, spec, (lambda: Distribution("obj", klass, xp, pd)), obs_call, {}


def _num_or_param(ctx, id_, vals, form, like):
    import torch

    if form == "number":
        return vals[0], torch.tensor(vals[0], dtype=like.dtype)
    return ctx.param({"id": id_, "tensor": vals}, form)


def case_bridge(it):
    from torchtree.distributions.bayesian_bridge import BayesianBridge

    ctx = Ctx()
    off = it["off"]
    xarg, xp = ctx.param({"id": "x", "tensor": off_(off, [0.4, -1.3, 0.2])}, it["x"])
    sarg, sd = _num_or_param(ctx, "scale", off_(off, [1.4]), it["scale"], xp)
    aarg, ad = _num_or_param(ctx, "alpha", off_(off, [0.6]), it["alpha"], xp)
    spec = BayesianBridge.json_factory("obj", xarg, sarg, aarg)
    return ctx, spec, (lambda: BayesianBridge("obj", xp, sd, alpha=ad)), obs_call, {}


def case_mixture(it):
    from torchtree.distributions.scale_mixture import ScaleMixtureNormal

    ctx = Ctx()
    off = it["off"]
    xarg, xp = ctx.param({"id": "x", "tensor": off_(off, [0.4, -1.3])}, it["x"])
    if it["loc"] == "number":
        larg = ld = round(0.25 + off, 6)
    else:
        larg, ld = ctx.param({"id": "loc", "tensor": off_(off, [0.25])}, it["loc"])
    garg, gd = ctx.param({"id": "gs", "tensor": off_(off, [1.4])}, it["gs"])
    sarg, sd = ctx.param({"id": "ls", "tensor": off_(off, [0.6, 1.9])}, it["ls"])
    if it["slab"] is None:
        barg = bd = None
    else:
        barg, bd = ctx.param({"id": "slab", "tensor": off_(off, [2.2])}, it["slab"])
    spec = ScaleMixtureNormal.json_factory("obj", xarg, larg, garg, sarg, barg)
    return ctx, spec, (lambda: ScaleMixtureNormal("obj", xp, ld, gd, sd, bd)), obs_call, {}


def case_detnormal(it):
    import torch
    from torchtree.distributions.deterministic_normal import DeterministicNormal

    ctx = Ctx()
    off = it["off"]
    larg, ld = ctx.param({"id": "loc", "tensor": off_(off, [0.2, -0.3])}, it["loc"])
    sarg, sd = ctx.param({"id": "scale", "tensor": off_(off, [1.5, 0.7])}, it["scale"])
    xarg, xd = ctx.param({"id": "x", "tensor": off_(off, [0.4, 1.3])}, it["x"])
    spec = DeterministicNormal.json_factory("obj", larg, sarg, xarg, it["shape"])
    return ctx, spec, (lambda: DeterministicNormal("obj", ld, sd, xd, torch.Size(it["shape"]))), \
        obs_call, {}


def _unrooted(ctx, form, off):
    """-> (factory argument for a tree model, directly built tree model)"""
    from torchtree.evolution.tree_model import UnRootedTreeModel

    bl = off_(off, [0.11, 0.22, 0.33, 0.44, 0.55])
    spec = UnRootedTreeModel.json_factory("tree", NWK, bl, dict(TAXA_DATES),
                                          branch_lengths_id="bl")
    import torch
    from torchtree import Parameter

    tree, taxa = direct_tree_parts()
    p = Parameter("bl", torch.tensor(bl))
    ctx.direct["bl"] = p
    d = UnRootedTreeModel("tree", tree, taxa, p)
    if form == "ref":
        ctx.pre.append(spec)
        return "tree", d
    return spec, d


def case_ctmc(it):
    from torchtree.distributions.ctmc_scale import CTMCScale

    ctx = Ctx()
    targ, td = _unrooted(ctx, it["tree"], it["off"])
    rarg, rd = ctx.param({"id": "rate", "tensor": off_(it["off"], [0.013])}, it["rate"])
    spec = CTMCScale.json_factory("obj", rarg, targ)
    return ctx, spec, (lambda: CTMCScale("obj", rd, td)), obs_call, {}


def case_clock(it):
    from torchtree.evolution.branch_model import SimpleClockModel

    ctx = Ctx()
    targ, td = _unrooted(ctx, it["tree"], it["off"])
    rarg, rd = ctx.param({"id": "rate", "tensor": off_(it["off"], [0.1, 0.2, 0.3, 0.4, 0.5, 0.6])},
                         it["rate"])
    spec = SimpleClockModel.json_factory("obj", targ, rarg)
    return ctx, spec, (lambda: SimpleClockModel("obj", rd, td)), (lambda o: [("rates", o.rates)]), {}


def _tree_param(ctx, id_, vals, form):
    """list | inline | ref -> (factory argument, direct Parameter)"""
    import torch
    from torchtree import Parameter

    if form == "list":
        p = Parameter(id_, torch.tensor(vals))
        ctx.direct[id_] = p
        return list(vals), p
    return ctx.param({"id": id_, "tensor": vals}, form)


def obs_tree(o):
    return [("branch_lengths", o.branch_lengths())]


def obs_timetree(o):
    return [("node_heights", o.node_heights), ("branch_lengths", o.branch_lengths())]


def obs_reparam(o):
    return [("node_heights", o.node_heights), ("branch_lengths", o.branch_lengths()),
            ("log_det_jacobian", o())]


def case_unrooted(it):
    from torchtree.evolution.tree_model import UnRootedTreeModel

    ctx = Ctx()
    bl = off_(it["off"], [0.11, 0.22, 0.33, 0.44, 0.55])
    pid = "my.bl" if it["named"] else "branch_lengths"
    barg, bd = _tree_param(ctx, pid, bl, it["bl"])
    kw = {}
    if it["named"]:
        kw["branch_lengths_id"] = pid
    if it["keep"]:
        kw["keep_branch_lengths"] = True
    spec = UnRootedTreeModel.json_factory("obj", NWK, barg, taxa_arg(ctx, it["taxa"]), **kw)
    tree, taxa = direct_tree_parts()
    extra = {"ids": [pid]}
    if it["keep"]:
        extra.update({"total": ("branch_lengths", NWK_LEN), "no_direct": True})
    return ctx, spec, (lambda: UnRootedTreeModel("obj", tree, taxa, bd)), obs_tree, extra


def case_timetree(it):
    from torchtree.evolution.tree_model import TimeTreeModel
    from torchtree.evolution.tree_model_flexible import FlexibleTimeTreeModel

    klass = TimeTreeModel if it["factory"] == "TimeTreeModel" else FlexibleTimeTreeModel
    ctx = Ctx()
    h = off_(it["off"], [1.0, 0.5, 2.0])
    pid = "my.heights" if (it["named"] or it["h"] != "list") else None
    harg, hd = _tree_param(ctx, pid, h, it["h"])
    kw = {}
    if it["named"]:
        kw["internal_heights_id"] = pid
    if it["keep"]:
        kw["keep_branch_lengths"] = True
    spec = klass.json_factory("obj", NWK, harg, taxa_arg(ctx, it["taxa"]), **kw)
    tree, taxa = direct_tree_parts()
    extra = {}
    if it["keep"]:
        extra = {"sorted_heights": [0.5, 1.0, 2.0], "no_direct": True}
    return ctx, spec, (lambda: klass("obj", tree, taxa, hd)), obs_timetree, extra


def case_reparam(it):
    from torchtree import CatParameter
    from torchtree.evolution.tree_model import ReparameterizedTimeTreeModel

    ctx = Ctx()
    off = it["off"]
    kw = {}
    if it["keep"]:
        kw["keep_branch_lengths"] = True
    tree, taxa = direct_tree_parts()
    if "shifts" in it:
        sarg, sd = _tree_param(ctx, "shifts", off_(off, [0.4, 0.9, 0.7]), it["shifts"])
        spec = ReparameterizedTimeTreeModel.json_factory("obj", NWK, taxa_arg(ctx, it["taxa"]),
                                                         shifts=sarg, **kw)
        direct = lambda: ReparameterizedTimeTreeModel("obj", tree, taxa, shifts=sd)
    else:
        rarg, rd = _tree_param(ctx, "ratios", off_(off, [0.3, 0.6]), it["ratios"])
        harg, hd = _tree_param(ctx, "root_height", off_(off, [2.5]), it["root"])
        spec = ReparameterizedTimeTreeModel.json_factory("obj", NWK, taxa_arg(ctx, it["taxa"]),
                                                         ratios=rarg, root_height=harg, **kw)
        direct = lambda: ReparameterizedTimeTreeModel(
            "obj", tree, taxa, CatParameter(None, [rd, hd], dim=-1))
    extra = {}
    if it["keep"]:
        extra = {"sorted_heights": [0.5, 1.0, 2.0], "no_direct": True}
    return ctx, spec, direct, obs_reparam, extra


CASES = {
    "Parameter": case_parameter, "ViewParameter": case_view, "Distribution": case_distribution,
    "BayesianBridge": case_bridge, "ScaleMixtureNormal": case_mixture,
    "DeterministicNormal": case_detnormal, "CTMCScale": case_ctmc, "SimpleClockModel": case_clock,
    "UnRootedTreeModel": case_unrooted, "TimeTreeModel": case_timetree,
    "FlexibleTimeTreeModel": case_timetree, "ReparameterizedTimeTreeModel": case_reparam,
}


def _np(t):
    return t.detach().numpy() if hasattr(t, "detach") else np.asarray(t)


def _same(a, b):
    a, b = _np(a), _np(b)
    if a.shape != b.shape or a.dtype != b.dtype:
        return False
    if a.size == 0:
        return True
    return bool(np.all(np.abs(a.astype(float) - b.astype(float)) <= TOL * (1 + np.abs(b.astype(float)))))


def do_factory(it, tally):
    from torchtree import Parameter

    tt.boot()
    tally.count("factory")
    tally.count("factory_distinct")
    ctx, spec, direct_fn, observe, extra = CASES[it["factory"]](it)
    case = {"part": "factory", "item": it}

    def viol(check, detail):
        sig = {"check": check, "part": "factory", "factory": it["factory"], "form": it["form"]}
        k = jdump(sig)
        ent = tally.viol.setdefault(k, [0, []])
        ent[0] += 1
        if len(ent[1]) < 2:
            doc = ctx.pre + [spec]
            ent[1].append({"case": dict(case, spec=doc),
                           "detail": f"factory {it['factory']} [{it['form']}]: {detail}; "
                                     f"document={jdump(doc)}", "sig": sig})

    # the directly constructed twin decides whether the menu entry is meaningful
    want = None
    if not extra.get("no_direct"):
        try:
            twin = direct_fn()
            want = [(n, _np(v).copy()) for n, v in observe(twin)]
        except Exception:
            tally.count("factory_not_judged")
            return
    try:
        dic = tt.load(ctx.pre + [spec])
        obj = dic["obj"]
        got = [(n, _np(v).copy()) for n, v in observe(obj)]
    except Exception as e:
        return viol("factory_load", f"factory output does not load/evaluate: "
                                    f"{type(e).__name__}: {e}")
    tally.samples.setdefault("factory", ctx.pre + [spec])
    for i in extra.get("ids", []):
        if i not in dic or not isinstance(dic[i], Parameter):
            return viol("factory_ids", f"expected a Parameter registered as `{i}', registry has "
                                       f"{sorted(map(str, dic))}")
    if "total" in extra:
        name, tot = extra["total"]
        v = dict(got)[name]
        if abs(float(v.sum()) - tot) > 1e-6:
            return viol("factory_value", f"sum of {name} is {float(v.sum())}, newick has {tot}")
    if "sorted_heights" in extra:
        v = np.sort(dict(got)["node_heights"][len(TAXA_DATES):])
        if not np.allclose(v, extra["sorted_heights"], atol=1e-5):
            return viol("factory_value", f"internal heights {v.tolist()}, newick gives "
                                         f"{extra['sorted_heights']}")
    if want is None:
        return None

    def compare(stage, cur=None):
        g = [(n, _np(v).copy()) for n, v in observe(obj)]
        w = [(n, _np(v).copy()) for n, v in observe(twin)]
        for (n, a), (_, b) in zip(g, w):
            if not _same(a, b):
                return f"{stage}: {n} is {a.tolist()} ({a.dtype}), directly constructed object " \
                       f"gives {b.tolist()} ({b.dtype})"
        if "oracle" in extra and cur is not None:
            o = extra["oracle"](cur)
            if not _same(g[0][1], np.asarray(o, dtype=g[0][1].dtype)):
                return f"{stage}: {g[0][0]} is {g[0][1].tolist()}, expected {np.asarray(o).tolist()}"
        return None

    cur = {i: p.tensor.tolist() for i, p in ctx.direct.items()}
    try:
        bad = compare("loaded", cur)
        if bad:
            return viol("factory_value", bad)
        k = 0
        for pid, dp in ctx.direct.items():
            if pid in extra.get("frozen", ()) or pid not in dic or pid is None:
                continue
            k += 1
            new = dp.tensor + 0.01 * k
            dic[pid].tensor = new.clone()
            dp.tensor = new.clone()
            cur[pid] = new.tolist()
            bad = compare(f"after updating `{pid}' through the registry", cur)
            if bad:
                return viol("factory_update", bad)
    except Exception as e:
        return viol("factory_update", f"evaluation after update raises {type(e).__name__}: {e}")
    return None
