"""C19 - every configuration torchtree-cli emits is runnable and targets the right density.

Space.  `torchtree.cli.cli.main` is run in-process (argv set, stdout captured, default
dtype float32 as in the real `torchtree-cli` process) on a 4-taxon fixture written to a
scratch directory; the emitted JSON is then loaded exactly as `torchtree --dry` does
(float64, every class registered, every top-level object constructed).

 * core: the FULL product  sub-command {advi,map,mcmc,hmc} x model {JC69,K80,HKY,SYM,GTR,
   SRD06,MG94,LG,WAG} x categories {1,4} x invariant x ( no clock | clock {strict,ucln,
   horseshoe} x heights {ratio,shift} x tree prior {none, constant, exponential, skyride,
   skygrid, piecewise-constant, piecewise-linear, skyglide, piecewise-exponential,
   bd-constant, bdsk} )  = 4*9*2*2*67 = 9648 command lines (thorough tier: every clock
   configuration a second time with contemporaneous tips, --dates 0: 19152);
 * core x switch: on HKY (thorough: also GTR+G4+I) every (sub-command, clock, heights, tree
   prior) combination x every level of every model/initialisation switch alone;
 * switches: on representative cores, for every sub-command: (1) every level of every other
   documented switch alone, (2) a pairwise covering array over the levels the CLI accepted
   alone (asserted complete), (3) for every pair not covered by an *emitted* row the
   minimal two-switch row.

Oracle, per emitted configuration (nothing more than the statement asks):
 load        every reference resolves / every object constructs (loggers, samplers too);
 target      the density handed to the sampler/optimiser (its id is read from the emitted
             MCMC/Optimizer object) evaluates to a finite number at the initial point and
             so does its gradient w.r.t. every leaf the algorithm moves (hmc, map: at the
             initial point; advi: at the generic point below, since it only ever evaluates
             draws around its mean; mcmc: not asked, its operators use no gradient);
 init        constrained initial values equal the ones requested on the command line;
 accounting  (advi, hmc, mcmc) the target is split into density entries and Jacobian
             entries; independently, the map  u -> c  from the moved unconstrained leaves
             to the random variables on which the emitted priors are placed is evaluated
             by calling only the *forward* of every transform met while walking the loaded
             graph, and differentiated by autograd.  On every connected block of that map
             that is square and non-singular (every leaf has a prior on its constrained
             image), the Jacobian entries of the block must sum to log|det dc/du|.  Blocks
             where some leaf has no prior, and the `map` sub-command (mode of the
             constrained density, no Jacobian by definition), are not judged.  This is done
             on a second, fresh load of the emitted JSON in which every moved leaf is
             displaced by 0.02..0.14 from its initial value (at the initial point itself
             many log-Jacobians are exactly 0 and a missing term would be invisible);
             VERIF_SEED rotates the offsets.
A command line rejected by argparse / check_arguments / sys.exit / NotImplementedError,
or on which the CLI itself dies before printing anything, emits no configuration and is
counted, not judged."""
import contextlib
import io
import itertools
import json
import math
import os
import re
import shutil
import sys
import tempfile

from mc.env import tt
from mc.runner import chunked, jdump, pmap

LEVEL = "exploration"

TOL_ACCOUNT = 1e-9      # |sum of Jacobian entries - log|det||  (relative to max(1,|.|)); DESIGN figure
TOL_SPLIT = 1e-9        # target == sum of its entries
TOL_INIT = 1e-5         # relative; the CLI process computes inverses in float32 (eps 6e-8)
SINGULAR = -60.0        # log|det| below this: block treated as not a bijection (not judged)

SUBS = ["advi", "map", "mcmc", "hmc"]
MODELS = ["JC69", "K80", "HKY", "SYM", "GTR", "SRD06", "MG94", "LG", "WAG"]
CLOCKS = ["strict", "ucln", "horseshoe"]
HEIGHTS = ["ratio", "shift"]
PRIORS = [None, "constant", "exponential", "skyride", "skygrid", "piecewise-constant",
          "piecewise-linear", "skyglide", "piecewise-exponential", "bd-constant", "bdsk"]
GRIDDED = ("skygrid", "piecewise-constant", "piecewise-linear", "skyglide", "piecewise-exponential")
PIECEWISE = GRIDDED + ("skyride",)
CORE_DIMS = ["sub", "model", "C", "I", "clock", "heights", "prior"]

# ----------------------------------------------------------------------------- fixture

TAXA = [("A_x_2010.0", 2010.0), ("B_y_2012.5", 2012.5), ("C_x_2011.0", 2011.0), ("D_y_2013.0", 2013.0)]
SEQS = ["ATGGCTAAACGTCTGGAAACCGGTCATTAC", "ATGGCAAAACGCCTGGAGACCGGTCACTAC",
        "ATGGCTAAGCGTTTGGAAACTGGCCATTAT", "ATGGCTCAACGTCTGGATACCGGACATTTC"]
# a time tree consistent with the dates (heights A 3, B 0.5, C 2, D 0; AB 4, CD 3.5, root 6)
NWK_TIME = "((A_x_2010.0:1.0,B_y_2012.5:3.5):2.0,(C_x_2011.0:1.5,D_y_2013.0:3.5):2.5);"
TIME_INTERNAL = [3.5, 4.0, 6.0]
TIME_UNROOTED = [1.0, 1.5, 3.5, 3.5, 4.5]
# an ultrametric one for contemporaneous tips (--dates 0)
NWK_ULTRA = "((A_x_2010.0:1.0,B_y_2012.5:1.0):2.0,(C_x_2011.0:1.5,D_y_2013.0:1.5):1.5);"
ULTRA_INTERNAL = [1.0, 1.5, 3.0]
ULTRA_UNROOTED = [1.0, 1.0, 1.5, 1.5, 3.5]
OFFSET = 3.0  # span of the sampling dates

_FX = None


def fixture():
    """Scratch directory (outside /repo and /verif) with the input files."""
    global _FX
    if _FX is None:
        d = tempfile.mkdtemp(prefix="c19-")
        with open(os.path.join(d, "a.fa"), "w") as fp:
            for (name, _), s in zip(TAXA, SEQS):
                fp.write(f">{name}\n{s}\n")
        with open(os.path.join(d, "time.nwk"), "w") as fp:
            fp.write(NWK_TIME + "\n")
        with open(os.path.join(d, "ultra.nwk"), "w") as fp:
            fp.write(NWK_ULTRA + "\n")
        with open(os.path.join(d, "dates.csv"), "w") as fp:
            fp.write("strain,date\n")
            for name, date in TAXA:
                fp.write(f"{name},{date}\n")
        _FX = d
    return _FX


def drop_fixture():
    global _FX
    if _FX is not None:
        shutil.rmtree(_FX, ignore_errors=True)
        _FX = None


# ----------------------------------------------------------------------------- the switches
# name -> (levels, applicability(core) , argv fragment(level, core)).  Level None = switch absent.

def _nuc_freq(c):
    return c["model"] in ("K80", "HKY", "SYM", "GTR", "SRD06")


def _flag(name):
    return lambda lv, c: [name]


def _val(name):
    return lambda lv, c: [name, lv]


FACTORS = {
    # ---- evolution (all sub-commands)
    "freq": (["equal", "empirical", "0.1,0.2,0.3,0.4"], _nuc_freq, _val("--frequencies")),
    "freq_codon": (["equal", "F3x4"], lambda c: c["model"] == "MG94", _val("--frequencies")),
    "brlenspr": (["gammadir"], lambda c: c["clock"] is None, _val("--brlenspr")),
    "brlens_init": (["0.05", "tree"], lambda c: c["clock"] is None, _val("--brlens_init")),
    "keep": (["on"], lambda c: True, _flag("--keep")),
    "clockpr": (["exponential", "exponential(100)"], lambda c: c["clock"] == "strict", _val("--clockpr")),
    "heights_init": (["tree", "regression"], lambda c: c["clock"] is not None, _val("--heights_init")),
    "root_height_init": (["8.0"], lambda c: c["clock"] is not None, _val("--root_height_init")),
    "rate": (["0.002"], lambda c: c["clock"] is not None, _val("--rate")),
    "rate_init": (["0.003", "regression"], lambda c: c["clock"] is not None, _val("--rate_init")),
    "dates": (["0", "csv"], lambda c: c["clock"] is not None,
              lambda lv, c: ["--dates", "0" if lv == "0" else "{FX}/dates.csv"]),
    "use_path": (["on"], lambda c: True, _flag("--use_path")),
    "use_ambiguities": (["on"], lambda c: True, _flag("--use_ambiguities")),
    "use_tip_states": (["on"], lambda c: True, _flag("--use_tip_states")),
    "include_jacobian": (["on"], lambda c: True, _flag("--include_jacobian")),
    "location": (["on"], lambda c: True, lambda lv, c: ["--location_regex", "_([xy])_"]),
    "grid": (["2"], lambda c: c["prior"] in GRIDDED or c["prior"] == "bdsk", None),   # replaces --grid
    "cutoff": (["2.5"], lambda c: c["prior"] in GRIDDED, None),                          # replaces --cutoff
    "gmrf_integrated": (["on"], lambda c: c["prior"] in PIECEWISE, _flag("--gmrf_integrated")),
    "non_centered": (["on"], lambda c: c["prior"] in PIECEWISE, _flag("--coalescent_non_centered")),
    "coalescent_init": (["50.0", "tree", "constant"],
                        lambda c: c["prior"] in ("constant", "exponential") + PIECEWISE,
                        _val("--coalescent_init")),
    "coalescent_integrated": (["3,0.003"], lambda c: c["prior"] == "constant", _val("--coalescent_integrated")),
    "coalescent_temperature": (["0.5"], lambda c: c["prior"] in ("skygrid", "piecewise-constant"),
                               _val("--coalescent_temperature")),
    "disable_time_aware": (["on"], lambda c: c["prior"] == "skyride", _flag("--disable_time_aware")),
    "disable_gmrf_rescaling": (["on"], lambda c: c["prior"] == "skyride", _flag("--disable_gmrf_rescaling")),
    # ---- advi
    "variational": (["meanfield", "fullrank"], lambda c: c["sub"] == "advi", _val("-q")),
    "distribution": (["LogNormal", "Gamma"], lambda c: c["sub"] == "advi", _val("--distribution")),
    "divergence": (["KLpq"], lambda c: c["sub"] == "advi", _val("--divergence")),
    "entropy": (["on"], lambda c: c["sub"] == "advi", _flag("--entropy")),
    "K_grad_samples": (["3"], lambda c: c["sub"] == "advi", _val("--K_grad_samples")),
    "K_elbo_samples": (["3"], lambda c: c["sub"] == "advi", _val("--K_elbo_samples")),
    "elbo_samples": (["0", "10"], lambda c: c["sub"] == "advi", _val("--elbo_samples")),
    "grad_samples": (["4"], lambda c: c["sub"] == "advi", _val("--grad_samples")),
    "samples": (["0"], lambda c: c["sub"] == "advi", _val("--samples")),
    "iter0": (["0"], lambda c: c["sub"] == "advi", _val("--iter")),
    "advi_stem": (["on"], lambda c: c["sub"] == "advi", lambda lv, c: ["--stem", "{FX}/out"]),
    "checkpoint_all": (["on"], lambda c: c["sub"] == "advi", _flag("--checkpoint_all")),
    "convergence_every": (["10"], lambda c: c["sub"] == "advi", _val("--convergence_every")),
    "advi_lr": (["0.01"], lambda c: c["sub"] == "advi", _val("--lr")),
    "tol_rel_obj": (["0.001"], lambda c: c["sub"] == "advi", _val("--tol_rel_obj")),
    "poisson": (["on"], lambda c: c["sub"] == "advi", None),                          # replaces -i
    # ---- hmc
    "mass_matrix": (["dense"], lambda c: c["sub"] == "hmc", _val("--mass_matrix")),
    "adapt_mass_matrix": (["on"], lambda c: c["sub"] == "hmc", _flag("--adapt_mass_matrix")),
    "adapt_step_size": (["dualaveraging", "adaptive"], lambda c: c["sub"] == "hmc", _val("--adapt_step_size")),
    "split": (["on"], lambda c: c["sub"] == "hmc", _flag("--split")),
    "warmup": (["100"], lambda c: c["sub"] == "hmc", _val("--warmup")),
    "steps": (["5"], lambda c: c["sub"] == "hmc", _val("--steps")),
    "step_size": (["0.001"], lambda c: c["sub"] == "hmc", _val("--step_size")),
    "hmc_stem": (["on"], lambda c: c["sub"] == "hmc", lambda lv, c: ["--stem", "{FX}/out"]),
    "target_acc_prob": (["0.6"], lambda c: c["sub"] in ("hmc", "mcmc"), _val("--target_acc_prob")),
    # ---- hmc / mcmc
    "log_every": (["10"], lambda c: c["sub"] in ("hmc", "mcmc"), _val("--log_every")),
    "iter": (["50"], lambda c: c["sub"] in ("hmc", "mcmc"), _val("--iter")),
    # ---- map
    "map_lr": (["0.5"], lambda c: c["sub"] == "map", _val("--lr")),
    "max_iter": (["5"], lambda c: c["sub"] == "map", _val("--max_iter")),
    "max_eval": (["7"], lambda c: c["sub"] == "map", _val("--max_eval")),
    "tolerance_grad": (["1e-3"], lambda c: c["sub"] == "map", _val("--tolerance_grad")),
    "tolerance_change": (["1e-6"], lambda c: c["sub"] == "map", _val("--tolerance_change")),
    "history_size": (["10"], lambda c: c["sub"] == "map", _val("--history_size")),
    "line_search_fn": (["strong_wolfe"], lambda c: c["sub"] == "map", _val("--line_search_fn")),
}
FACTOR_ORDER = list(FACTORS)

# representative cores for the switch part (sub-command is crossed in)
REP_CORES = [
    {"model": "HKY", "C": 4, "I": False, "clock": None, "heights": None, "prior": None},
    {"model": "GTR", "C": 4, "I": True, "clock": "strict", "heights": "ratio", "prior": "constant"},
    {"model": "HKY", "C": 1, "I": False, "clock": "strict", "heights": "shift", "prior": "skygrid"},
    {"model": "SRD06", "C": 4, "I": False, "clock": "ucln", "heights": "ratio", "prior": "skyride"},
    {"model": "MG94", "C": 1, "I": False, "clock": "strict", "heights": "ratio", "prior": "exponential"},
    {"model": "LG", "C": 4, "I": True, "clock": "strict", "heights": "ratio", "prior": "skyglide"},
]
QUICK_REP = [0, 1, 2]


# switches that change the model / its initial values (crossed with the whole clock x heights x
# tree-prior core in part B); the remaining evolution switches only pass flags through
MODEL_SWITCHES = ["freq", "brlenspr", "brlens_init", "keep", "clockpr", "heights_init", "root_height_init",
                  "rate", "rate_init", "dates", "grid", "cutoff", "gmrf_integrated", "non_centered",
                  "coalescent_init", "coalescent_integrated", "coalescent_temperature", "disable_time_aware",
                  "disable_gmrf_rescaling"]


INIT_SWITCHES = ["brlens_init", "keep", "heights_init", "root_height_init", "rate", "rate_init", "coalescent_init"]
_REGRESSION_REF = {}


def regression_reference(case):
    """initial clock rate and root height of the same command line with -m JC69: the root-to-tip
    regression uses the tree and the dates only, so its result cannot depend on the substitution model"""
    ref = dict(case, model="JC69", C=1, I=False, part="ref")
    key = json.dumps(ref, sort_keys=True, default=str)
    if key not in _REGRESSION_REF:
        out = None
        try:
            status, spec = run_cli(argv_of(ref))
            if status == "emitted":
                cwd = os.getcwd()
                os.chdir(fixture())
                try:
                    with contextlib.redirect_stdout(io.StringIO()), contextlib.redirect_stderr(io.StringIO()):
                        d = tt.load(spec)
                finally:
                    os.chdir(cwd)
                out = {}
                if "branchmodel.rate" in d:
                    out["rate"] = [float(v) for v in d["branchmodel.rate"].tensor.detach().reshape(-1)]
                if "tree" in d:
                    out["root"] = [float(d["tree"].node_heights.detach().reshape(-1)[-1])]
        except Exception:
            out = None
        _REGRESSION_REF[key] = out
    return _REGRESSION_REF[key]


def tree_core_switch_cases(tier):
    """Part B: every (sub-command, clock, heights, tree prior) combination x every level of every
    model/initialisation switch alone, on HKY (thorough: also GTR+G4+I)."""
    shapes = [("HKY", 1, False)] + ([("GTR", 4, True)] if tier == "thorough" else [])
    out = []
    for sub in SUBS:
        for m, C, inv in shapes:
            combos = [(None, None, None)] + [(c, h, p) for c in CLOCKS for h in HEIGHTS for p in PRIORS]
            for c, h, p in combos:
                b = {"sub": sub, "model": m, "C": C, "I": inv, "clock": c, "heights": h, "prior": p}
                for f in MODEL_SWITCHES:
                    if FACTORS[f][1](b):
                        for lv in FACTORS[f][0]:
                            out.append(dict(b, part="coreswitch", extra={f: lv}))
            # SRD06 builds its two-partition likelihood on a separate path of the CLI: the switches that
            # set initial values are crossed with it as well
            for c, h, p in combos:
                b = {"sub": sub, "model": "SRD06", "C": 1, "I": False, "clock": c, "heights": h, "prior": p}
                for f in INIT_SWITCHES:
                    if FACTORS[f][1](b):
                        for lv in FACTORS[f][0]:
                            out.append(dict(b, part="coreswitch", extra={f: lv}))
    return out


def applicable(core):
    return [f for f in FACTOR_ORDER if FACTORS[f][1](core)]


def effective_extra(case):
    """The switches of a case; --coalescent_init tree|constant is documented to need
    --heights_init tree, which is therefore supplied with it."""
    ex = {k: v for k, v in (case.get("extra") or {}).items() if v is not None}
    if ex.get("coalescent_init") in ("tree", "constant") and "heights_init" not in ex:
        ex["heights_init"] = "tree"
    return ex


def argv_of(case):
    """Command line (with the placeholder {FX} for the scratch directory)."""
    c = case
    ex = effective_extra(case)
    tree = "{FX}/ultra.nwk" if ex.get("dates") == "0" else "{FX}/time.nwk"
    a = [c["sub"]]
    if ex.get("poisson"):
        a += ["--poisson"]
    else:
        a += ["-i", "{FX}/a.fa"]
    a += ["-t", tree, "-m", c["model"], "-C", str(c["C"])]
    if c["I"]:
        a.append("-I")
    if c["model"] == "MG94":
        a += ["--genetic_code", "0"]
    if c["sub"] in ("mcmc", "map"):
        a += ["--stem", "{FX}/out"]
    if c["clock"]:
        a += ["--clock", c["clock"], "--heights", c["heights"]]
    p = c["prior"]
    if p:
        if p == "bd-constant":
            a += ["--birth-death", "constant"]
        elif p == "bdsk":
            a += ["--birth-death", "bdsk", "--grid", ex.get("grid") or "3"]
        else:
            a += ["--coalescent", p]
            if p in GRIDDED:
                a += ["--grid", ex.get("grid") or "5", "--cutoff", ex.get("cutoff") or "10"]
    for f in FACTOR_ORDER:
        if f in ex and ex[f] is not None and FACTORS[f][2] is not None:
            a += FACTORS[f][2](ex[f], c)
    return a


def core_cases(tier):
    """Full product of the model-defining core.  thorough: every clock configuration additionally
    with contemporaneous tips (--dates 0, ultrametric input tree)."""
    out = []
    datings = [None, "0"] if tier == "thorough" else [None]
    for sub, m, C, inv in itertools.product(SUBS, MODELS, (1, 4), (False, True)):
        combos = [(None, None, None, None)]
        combos += [(c, h, p, d) for c in CLOCKS for h in HEIGHTS for p in PRIORS for d in datings]
        for c, h, p, d in combos:
            out.append({"part": "core", "sub": sub, "model": m, "C": C, "I": inv, "clock": c,
                        "heights": h, "prior": p, "extra": {"dates": d} if d else {}})
    assert len(out) == core_size(tier)
    return out


def core_size(tier):
    return 4 * len(MODELS) * 2 * 2 * (1 + 3 * 2 * 11 * (2 if tier == "thorough" else 1))


# ----------------------------------------------------------------------------- pairwise arrays

def pairwise_rows(levels):
    """Greedy deterministic covering array.  `levels`: ordered dict factor -> list of levels
    (None, the default, included).  Returns rows (dict factor -> level) covering every pair
    of levels of two different factors."""
    fs = list(levels)
    if len(fs) < 2:
        return [dict(zip(fs, combo)) for combo in itertools.product(*[levels[f] for f in fs])]
    unc = set()
    for i, j in itertools.combinations(range(len(fs)), 2):
        for a in levels[fs[i]]:
            for b in levels[fs[j]]:
                unc.add((i, a, j, b))
    order = sorted(unc, key=lambda t: (t[0], t[2], levels[fs[t[0]]].index(t[1]), levels[fs[t[2]]].index(t[3])))
    rows = []
    pos = 0
    while unc:
        while order[pos] not in unc:
            pos += 1
        i0, a0, j0, b0 = order[pos]
        row = {i0: a0, j0: b0}
        for k in range(len(fs)):
            if k in row:
                continue
            best, bestn = None, -1
            for lv in levels[fs[k]]:
                n = 0
                for kk, v in row.items():
                    key = (kk, v, k, lv) if kk < k else (k, lv, kk, v)
                    if key in unc:
                        n += 1
                if n > bestn:
                    best, bestn = lv, n
            row[k] = best
        for i, j in itertools.combinations(range(len(fs)), 2):
            unc.discard((i, row[i], j, row[j]))
        rows.append({fs[k]: row[k] for k in range(len(fs))})
    return rows


def pairs_of(row, fs):
    return {(f, row.get(f), g, row.get(g)) for f, g in itertools.combinations(fs, 2)}


# ----------------------------------------------------------------------------- running one case

def root_cause(e):
    seen = 0
    while seen < 20:
        n = e.__cause__ or e.__context__
        if n is None:
            break
        e = n
        seen += 1
    return e


def norm_err(e):
    e = root_cause(e)
    msg = str(e).replace(_FX or "\0", "{FX}")
    msg = " ".join(msg.split())
    if "tensor" in msg or "shape" in msg or "size" in msg or "dimension" in msg:
        msg = re.sub(r"\d+", "#", msg)
    return f"{type(e).__name__}: {msg}"[:200]


def run_cli(argv):
    """-> ('emitted', list) | ('rejected', why) | ('crashed', why)"""
    import torch

    from torchtree.cli import cli as cli_mod

    fx = fixture()
    argv = [a.replace("{FX}", fx) for a in argv]
    old_argv = sys.argv
    out, err = io.StringIO(), io.StringIO()
    sys.argv = ["torchtree-cli"] + argv
    torch.set_default_dtype(torch.float32)  # torchtree-cli never changes the default dtype
    try:
        with contextlib.redirect_stdout(out), contextlib.redirect_stderr(err):
            cli_mod.main()
    except SystemExit as e:
        lines = [ln for ln in err.getvalue().strip().splitlines() if ln.strip()]
        why = lines[-1] if lines else ""
        return "rejected", f"exit {e.code}: {' '.join(why.replace(fx, '{FX}').split())[:160]}"
    except NotImplementedError as e:
        return "rejected", norm_err(e)
    except Exception as e:
        return "crashed", norm_err(e)
    finally:
        sys.argv = old_argv
        torch.set_default_dtype(torch.float64)
    try:
        spec = json.loads(out.getvalue())
    except ValueError as e:
        return "crashed", "stdout is not JSON: " + str(e)[:100]
    return "emitted", spec


def find_obj(spec, pred):
    """first dict in the emitted specification satisfying pred (depth first)"""
    stack = [spec]
    while stack:
        x = stack.pop(0)
        if isinstance(x, dict):
            if pred(x):
                return x
            stack = list(x.values()) + stack
        elif isinstance(x, list):
            stack = list(x) + stack
    return None


def by_id(spec, id_):
    return find_obj(spec, lambda d: d.get("id") == id_ and "type" in d)


def ref_id(x):
    return x if isinstance(x, str) else x.get("id")


def as_list(x):
    return x if isinstance(x, list) else [x]


def sampler_view(spec, sub):
    """What the emitted algorithm says it works on: (target id, ids of the moved leaves).
    Derived from the emitted JSON only."""
    moved = []
    if sub in ("hmc", "mcmc"):
        mc = find_obj(spec, lambda d: d.get("type") == "MCMC")
        if mc is None:
            return None, None
        target = ref_id(mc["joint"])
        for op in mc.get("operators", []):
            if "parameters" in op:
                moved += [ref_id(p) for p in as_list(op["parameters"])]
            elif op.get("type") == "GMRFPiecewiseCoalescentBlockUpdatingOperator":
                g = by_id(spec, ref_id(op["gmrf"])) if isinstance(op["gmrf"], str) else op["gmrf"]
                moved += [("field", ref_id(g["x"])), ("field", ref_id(g["precision"]))]
        return target, moved
    if sub == "map":
        opt = find_obj(spec, lambda d: d.get("type") == "Optimizer")
        if opt is None:
            return None, None
        return ref_id(opt["loss"]), [ref_id(p) for p in as_list(opt["parameters"])]
    # advi: the leaves are the random variables of the variational distribution
    opt = find_obj(spec, lambda d: d.get("type") == "Optimizer")
    if opt is not None:
        loss = opt["loss"] if isinstance(opt["loss"], dict) else by_id(spec, opt["loss"])
        target = ref_id(loss["joint"])
        var_id = ref_id(loss["variational"])
    else:  # --iter 0: only a sampler / logger
        target, var_id = "joint.jacobian", "variational"
    var = by_id(spec, var_id)
    if var is None:
        return target, None

    def xs(d):
        if d.get("type") == "JointDistributionModel":
            for dd in d["distributions"]:
                xs(dd if isinstance(dd, dict) else by_id(spec, dd))
        else:
            for x in as_list(d["x"]):
                moved.append(ref_id(x))

    xs(var)
    return target, moved


RV_X = ("Distribution", "CTMCScale", "GMRF", "GMRFGammaIntegrated", "ScaleMixtureNormal")
RV_HEIGHTS = ("ConstantCoalescentModel", "ConstantCoalescentIntegratedModel", "ExponentialCoalescentModel",
              "PiecewiseConstantCoalescentGridModel", "PiecewiseConstantCoalescentModel",
              "PiecewiseExponentialCoalescentGridModel", "PiecewiseLinearCoalescentGridModel",
              "BirthDeathModel", "BDSKModel")
RV_BLENS = ("CompoundGammaDirichletPrior",)
RV_NONE = ("TreeLikelihoodModel", "PoissonTreeLikelihood")


class NotJudged(Exception):
    pass


def leaves_of(obj, acc):
    n = type(obj).__name__
    if n == "Parameter":
        acc.append(obj)
    elif n == "TransformedParameter":
        leaves_of(obj.x, acc)
    elif n == "CatParameter":
        for p in obj._parameter_container.params():
            leaves_of(p, acc)
    elif n == "ViewParameter":
        leaves_of(obj.parameter, acc)
    else:
        raise NotJudged(f"parameter class {n}")
    return acc


def value(obj, env):
    """Forward value of a parameter-like object as a function of the leaf variables in env;
    only the forward of each transform is called (no cache, no listener, no log-Jacobian)."""
    import torch

    n = type(obj).__name__
    if n == "Parameter":
        v = env.get(id(obj))
        return v if v is not None else obj.tensor.detach()
    if n == "TransformedParameter":
        return obj.transform(value(obj.x, env))
    if n == "CatParameter":
        return torch.cat([value(p, env) for p in obj._parameter_container.params()], dim=obj._dim)
    if n == "ViewParameter":
        return value(obj.parameter, env)[..., obj.indices]
    raise NotJudged(f"parameter class {n}")


def accounting(spec, dic, target_id, moved_objs):
    """-> (failures, info).  failures: list of (check, error, detail)."""
    import torch

    tspec = by_id(spec, target_id)
    if tspec is None or tspec.get("type") != "JointDistributionModel":
        raise NotJudged("target is not a joint of entries")
    env = {}
    ulist = []
    for p in moved_objs:
        if id(p) not in env:
            env[id(p)] = p.tensor.detach().clone().requires_grad_(True)
            ulist.append(p)
    uvars = [env[id(p)] for p in ulist]
    index = {id(p): i for i, p in enumerate(ulist)}

    # -- split the target into Jacobian entries and density entries
    terms = []      # (id, value, leaf indices)
    densities = []  # emitted JSON of density entries
    dens_sum = 0.0
    for entry in tspec["distributions"]:
        eid = ref_id(entry)
        obj = dic[eid]
        cname = type(obj).__name__
        if cname == "TransformedParameter":
            lv = [index[id(p)] for p in leaves_of(obj.x, []) if id(p) in index]
            terms.append((eid, float(obj().sum()), lv))
        elif hasattr(obj, "_internal_heights") and hasattr(obj, "transform"):
            lv = [index[id(p)] for p in leaves_of(obj._internal_heights, []) if id(p) in index]
            terms.append((eid, float(obj().sum()), lv))
        else:
            densities.append(entry if isinstance(entry, dict) else by_id(spec, eid))
            dens_sum += float(obj().sum())
    fails = []
    tval = float(dic[target_id]().sum())
    tot = dens_sum + sum(t[1] for t in terms)
    split_err = abs(tval - tot) / max(1.0, abs(tval))
    if not abs(tval - tot) <= TOL_SPLIT * max(1.0, abs(tval)):
        fails.append(("target_split", "target differs from the sum of its entries",
                      f"{target_id}() = {tval!r} but its entries sum to {tot!r}"))

    # -- random variables of the emitted prior densities
    cs = []  # (label, flat tensor)

    def walk(d):
        if d is None:
            raise NotJudged("unresolved density entry")
        t = d.get("type", "").split(".")[-1]
        if t == "JointDistributionModel":
            for dd in d["distributions"]:
                walk(dd if isinstance(dd, dict) else by_id(spec, dd))
        elif t in RV_NONE:
            return
        elif t in RV_X:
            xs = [dic[ref_id(x)] for x in as_list(d["x"])]
            v = torch.cat([value(x, env).reshape(-1) for x in xs]) if len(xs) > 1 else value(xs[0], env)
            if t == "Distribution" and str(d.get("distribution", "")).endswith("Dirichlet"):
                v = v[..., :-1]  # density w.r.t. the first K-1 coordinates of the simplex
            cs.append((d["id"], v.reshape(-1)))
        elif t in RV_HEIGHTS:
            tree = dic[ref_id(d["tree_model"])]
            if not hasattr(tree, "_internal_heights"):
                raise NotJudged("tree prior on a tree without heights")
            cs.append((d["id"], tree.transform(value(tree._internal_heights, env)).reshape(-1)))
        elif t in RV_BLENS:
            tree = dic[ref_id(d["tree_model"])]
            cs.append((d["id"], value(tree._branch_lengths, env).reshape(-1)))
        else:
            raise NotJudged(f"density type {t}")

    for d in densities:
        walk(d)

    # -- Jacobian of c w.r.t. u, structural dependencies
    sizes = [int(v.numel()) for v in uvars]
    offs = [0]
    for s in sizes:
        offs.append(offs[-1] + s)
    nu = offs[-1]
    rows, row_owner, cdeps = [], [], []
    seen_rv = {}
    for ci, (label, c) in enumerate(cs):
        if not c.requires_grad:
            cdeps.append(set())
            continue
        deps = set()
        for k in range(c.numel()):
            g = torch.autograd.grad(c[k], uvars, retain_graph=True, allow_unused=True)
            r = torch.zeros(nu)
            for i, gi in enumerate(g):
                if gi is not None:
                    deps.add(i)
                    r[offs[i]:offs[i + 1]] = gi.reshape(-1)
            rows.append(r)
            row_owner.append(ci)
        cdeps.append(deps)

    parent = list(range(len(ulist)))

    def find(a):
        while parent[a] != a:
            parent[a] = parent[parent[a]]
            a = parent[a]
        return a

    def union(group):
        group = list(group)
        for b in group[1:]:
            ra, rb = find(group[0]), find(b)
            if ra != rb:
                parent[rb] = ra

    for deps in cdeps:
        union(deps)
    for _, _, lv in terms:
        union(lv)
    comps = {}
    for i in range(len(ulist)):
        comps.setdefault(find(i), []).append(i)
    info = {"split_err": split_err, "blocks": 0, "judged": 0, "incomplete": 0, "singular": 0, "moved": len(ulist),
            "terms": [t[0] for t in terms]}
    for rootc, members in sorted(comps.items()):
        mset = set(members)
        cols = [j for i in members for j in range(offs[i], offs[i + 1])]
        rws = [ri for ri, ci in enumerate(row_owner) if cdeps[ci] and cdeps[ci] <= mset]
        tms = [t for t in terms if t[2] and set(t[2]) <= mset]
        if not rws and not tms:
            continue
        info["blocks"] += 1
        names = [ulist[i].id for i in members]
        if len(rws) != len(cols):
            info["incomplete"] += 1
            info.setdefault("incomplete_names", []).append("+".join(sorted(names)) + f" ({len(cols)} leaves, {len(rws)} prior dims)")
            continue
        J = torch.stack([rows[r] for r in rws])[:, cols]
        sign, logdet = torch.linalg.slogdet(J)
        logdet = float(logdet)
        if not math.isfinite(logdet) or logdet < SINGULAR or float(sign) == 0.0:
            info["singular"] += 1
            continue
        info["judged"] += 1
        info.setdefault("judged_names", []).append("+".join(sorted(names)))
        got = sum(t[1] for t in tms)
        if abs(got - logdet) <= TOL_ACCOUNT * max(1.0, abs(logdet)):
            info["max_err"] = max(info.get("max_err", 0.0), abs(got - logdet) / max(1.0, abs(logdet)))
        if not abs(got - logdet) <= TOL_ACCOUNT * max(1.0, abs(logdet)):
            listed = [t[0] for t in tms]
            block = "+".join(sorted(names))
            fails.append(("jacobian_accounting", f"block {block}: listed {sorted(listed)}",
                          f"moved leaves {names}: priors are placed on {[cs[c][0] for c in sorted({row_owner[r] for r in rws})]}; "
                          f"log|det d(prior variables)/d(leaves)| = {logdet!r} but the Jacobian entries "
                          f"{listed} of {target_id} sum to {got!r}"))
    # Jacobian entries that touch no moved leaf at all (stray entries) are not in any block
    return fails, info


def sorted_close(got, want, tol):
    got, want = sorted(got), sorted(want)
    return len(got) == len(want) and all(abs(a - b) <= tol * max(1.0, abs(b)) for a, b in zip(got, want))


MAXREL = [0.0]  # largest accepted relative deviation of an initial value (calibration record)


def check_init(case, dic):
    """Requested initial values (only explicit requests on the command line)."""
    ex = effective_extra(case)
    fails = []
    n = 0

    def num(id_):
        return [float(v) for v in dic[id_].tensor.detach().reshape(-1)]

    def expect(what, got, want, multiset=False):
        nonlocal n
        n += 1
        if len(got) == len(want):
            pairs = zip(sorted(got), sorted(want)) if multiset else zip(got, want)
            MAXREL[0] = max([MAXREL[0]] + [abs(a - b) / max(1.0, abs(b)) for a, b in pairs if abs(a - b) <= TOL_INIT * max(1.0, abs(b))])
        ok = sorted_close(got, want, TOL_INIT) if multiset else (
            len(got) == len(want) and all(abs(a - b) <= TOL_INIT * max(1.0, abs(b)) for a, b in zip(got, want)))
        if not ok:
            fails.append(("init_value", what, f"{what}: requested {want}, initial value is {got}"))

    homo = ex.get("dates") == "0"
    clock = case["clock"]
    try:
        if clock and ex.get("rate") and "branchmodel.rate" in dic:
            expect("--rate -> branchmodel.rate", num("branchmodel.rate"), [float(ex["rate"])])
        elif clock and ex.get("rate_init") not in (None, "regression") and "branchmodel.rate" in dic:
            expect("--rate_init -> branchmodel.rate", num("branchmodel.rate"), [float(ex["rate_init"])])
        if clock and case["model"] != "JC69" and "regression" in (ex.get("heights_init"), ex.get("rate_init")):
            ref = regression_reference(case)
            if ref:
                if "rate" in ref and "branchmodel.rate" in dic and not ex.get("rate"):
                    expect("regression -> branchmodel.rate (same as with -m JC69)", num("branchmodel.rate"),
                           ref["rate"])
                if "root" in ref and dic.get("tree") is not None and not ex.get("root_height_init"):
                    expect("regression -> root height (same as with -m JC69)",
                           [float(dic["tree"].node_heights.detach().reshape(-1)[-1])], ref["root"])
        tree = dic.get("tree")
        if clock and tree is not None:
            ntax = len(TAXA)
            if ex.get("heights_init") == "tree" or ex.get("keep"):
                # --heights_init tree / --keep: node heights of the input tree; an explicit
                # --root_height_init is a competing request, then only shapes are comparable
                if not ex.get("root_height_init"):
                    h = [float(v) for v in tree.node_heights.detach().reshape(-1)[ntax:]]
                    expect("--heights_init tree/--keep -> internal node heights", h,
                           ULTRA_INTERNAL if homo else TIME_INTERNAL, multiset=True)
            elif ex.get("root_height_init"):
                h = [float(tree.node_heights.detach().reshape(-1)[-1])]
                expect("--root_height_init -> root height", h, [float(ex["root_height_init"])])
        if clock is None and tree is not None and "tree.blens" in dic:
            if ex.get("keep") or ex.get("brlens_init") == "tree":
                expect("--keep/--brlens_init tree -> tree.blens", num("tree.blens"), TIME_UNROOTED, multiset=True)
            elif ex.get("brlens_init"):
                expect("--brlens_init -> tree.blens", num("tree.blens"), [float(ex["brlens_init"])] * 5)
        fr = ex.get("freq")
        if fr:
            ids = ["substmodel.12.frequencies", "substmodel.3.frequencies"] if case["model"] == "SRD06" \
                else ["substmodel.frequencies"]
            if fr == "equal":
                want = [0.25] * 4
            elif fr == "empirical":
                tot = sum(len(s) for s in SEQS)
                want = [sum(s.count(ch) for s in SEQS) / tot for ch in "ACGT"]
            else:
                want = [float(v) for v in fr.split(",")]
            for i in ids:
                if i in dic and len(num(i)) == 4:
                    expect(f"--frequencies {fr} -> {i}", num(i), want)
        ci = ex.get("coalescent_init")
        if ci and ci not in ("tree", "constant") and "coalescent.theta" in dic and not ex.get("non_centered"):
            th = num("coalescent.theta")
            expect("--coalescent_init -> coalescent.theta", th, [float(ci)] * len(th))
    except KeyError:
        pass  # the id this harness expected does not exist: nothing to compare, not judged
    return fails, n


def moved_leaves(dic, moved):
    """Leaf Parameter objects behind the ids the algorithm says it moves (None: an id is missing)."""
    objs = []
    for m in moved:
        mid = m[1] if isinstance(m, tuple) else m
        obj = dic.get(mid)
        if obj is None:
            return None, mid
        try:
            for p in leaves_of(obj, []):
                if all(p is not q for q in objs):
                    objs.append(p)
        except NotJudged:
            pass
    return objs, None


def displaced_spec(spec, leaves, seed):
    """Copy of the emitted JSON in which every moved leaf starts at a generic point close to
    its initial value (the initial point itself is often symmetric: zeros, equal entries)."""
    import copy

    spec2 = copy.deepcopy(spec)
    k = 0
    for p in leaves:
        d = find_obj(spec2, lambda x: x.get("id") == p.id and x.get("type") in ("Parameter", "torchtree.Parameter"))
        if d is None:
            raise NotJudged(f"leaf {p.id} not found in the emitted JSON")
        t = p.tensor.detach().clone()
        flat = t.reshape(-1)
        for j in range(flat.numel()):
            flat[j] += 0.02 * (1 + (k + seed) % 7) * (-1.0) ** k
            k += 1
        d["tensor"] = t.tolist()
        for key in ("full", "full_like", "zeros", "zeros_like", "ones", "ones_like", "dimension", "rand"):
            d.pop(key, None)
    return spec2


def check_case(case, seed=0):
    """-> dict(status=..., fails=[(check, error, detail)], info=...)"""
    import torch

    argv = argv_of(case)
    status, out = run_cli(argv)
    res = {"status": status, "fails": [], "info": {}}
    if status != "emitted":
        res["why"] = out
        return res
    spec = out
    sink = io.StringIO()
    cwd = os.getcwd()
    os.chdir(fixture())
    try:
        with contextlib.redirect_stdout(sink), contextlib.redirect_stderr(sink):
            _judge(case, spec, res, seed)
    finally:
        os.chdir(cwd)
    return res


def _judge(case, spec, res, seed):
    import torch

    fails = res["fails"]
    try:
        dic = tt.load(spec)
    except Exception as e:
        fails.append(("load", norm_err(e), f"emitted JSON is not accepted: {norm_err(e)}"))
        return
    sub = case["sub"]
    target_id, moved = sampler_view(spec, sub)
    if target_id is None or target_id not in dic:
        fails.append(("load", f"no sampler/optimiser target ({target_id})",
                      "the emitted JSON contains no algorithm object with a target"))
        return
    if moved is None:
        fails.append(("load", "variational model missing", "no variational distribution in the emitted JSON"))
        return
    target = dic[target_id]
    moved_objs, missing = moved_leaves(dic, moved)
    if moved_objs is None:
        fails.append(("load", f"moved parameter {missing} missing", f"{missing} is not in the registry"))
        return
    # -- value at the initial point
    try:
        v = target()
        finite = bool(torch.isfinite(v).all())
    except Exception as e:
        fails.append(("target_evaluates", norm_err(e), f"{target_id}() raises at the initial point: {norm_err(e)}"))
        return
    if not finite:
        bad = []
        tspec = by_id(spec, target_id) or {}
        stack = [ref_id(d) for d in tspec.get("distributions", [])]
        while stack and len(bad) < 4:
            i = stack.pop(0)
            o = dic.get(i)
            try:
                if not bool(torch.isfinite(o()).all()):
                    sp = by_id(spec, i) or {}
                    if sp.get("type") == "JointDistributionModel":
                        stack = [ref_id(d) for d in sp["distributions"]] + stack
                    else:
                        bad.append(i)
            except Exception:
                bad.append(i)
        fails.append(("target_finite", f"non-finite entries {bad}",
                      f"{target_id}() = {v.tolist()} at the initial point; non-finite entries: {bad}"))
        return
    res["info"]["target"] = float(v.sum())
    # -- requested initial values
    f, n = check_init(case, dic)
    fails += f
    res["info"]["init_checked"] = n
    res["info"]["init_maxrel"] = MAXREL[0]

    # -- a second, fresh load at a generic point next to the initial one
    dic2 = moved2 = None
    try:
        spec2 = displaced_spec(spec, moved_objs, seed)
        dic2 = tt.load(spec2)
        moved2, missing = moved_leaves(dic2, moved)
        v2 = dic2[target_id]()
        if moved2 is None or not bool(torch.isfinite(v2).all()):
            dic2 = None
    except Exception:
        dic2 = None
    res["info"]["displaced"] = dic2 is not None

    # -- what the requested model fixes must not move with the sampled / optimised leaves
    if dic2 is not None:
        ex = effective_extra(case)
        fixed = []
        if case["model"] in ("K80", "SYM"):
            fixed.append(("substmodel.frequencies", f"-m {case['model']} has fixed (equal) frequencies"))
        if ex.get("rate"):
            fixed.append(("branchmodel.rate", "--rate fixes the substitution rate"))
        for pid, why in fixed:
            if pid in dic and pid in dic2:
                a, b = dic[pid].tensor.detach(), dic2[pid].tensor.detach()
                if a.shape != b.shape or not bool(torch.allclose(a, b, rtol=0.0, atol=1e-12)):
                    fails.append(("model_fixed", f"{pid} is moved by the algorithm",
                                  f"{why}, but {pid} changes from {a.tolist()} to {b.tolist()} when the "
                                  f"parameters the algorithm moves are displaced"))

    # -- Jacobian accounting
    if sub != "map":
        try:
            if dic2 is not None:
                f, info = accounting(spec2, dic2, target_id, moved2)
            else:
                f, info = accounting(spec, dic, target_id, moved_objs)
            fails += f
            res["info"].update(info)
        except NotJudged as e:
            res["info"]["not_judged"] = str(e)

    # -- gradient, obtained the way the algorithms obtain it.  hmc / map start exactly at the
    #    initial point; advi only ever evaluates draws around it, so it is judged at the generic
    #    point; mcmc (sliding window / block update) never asks for a gradient.
    if sub == "mcmc":
        pass
    else:
        if sub == "advi" and dic2 is not None:
            gdic, gleaves, where = dic2, moved2, "next to the initial point"
        else:
            gdic, gleaves, where = dic, moved_objs, "at the initial point"
        try:
            for p in gleaves:
                p.requires_grad = True
            gv = gdic[target_id]().sum()
            gv.backward()
            badg = [p.id for p in gleaves if p.grad is not None and not bool(torch.isfinite(p.grad).all())]
        except Exception as e:
            fails.append(("gradient_evaluates", norm_err(e), f"gradient of {target_id} raises {where}: {norm_err(e)}"))
            return
        if badg:
            fails.append(("gradient_finite", f"non-finite gradient for {sorted(badg)}",
                          f"d {target_id} / d {sorted(badg)} is not finite {where}"))
    # -- advi: log q at the initial point is part of the objective
    if sub == "advi" and "variational" in dic:
        try:
            q = dic["variational"]()
            if not bool(torch.isfinite(q).all()):
                fails.append(("variational_finite", "log q not finite",
                              f"variational() = {q.tolist()} at the initial point"))
        except Exception as e:
            fails.append(("variational_evaluates", norm_err(e),
                          f"variational() raises at the initial point: {norm_err(e)}"))


def minimise(case, key, seed):
    """Drop switches one at a time while the same failure persists (1-minimal switch set)."""
    extra = {k: v for k, v in (case.get("extra") or {}).items() if v is not None}

    def fails_with(ex):
        r = check_case(dict(case, extra=ex), seed)
        if r["status"] != "emitted":
            return None
        for c, e, d in r["fails"]:
            if (c, e) == key:
                return d
        return None

    d = fails_with({})
    if d is not None:
        return dict(case, extra={}, part="minimised"), d
    detail = None
    for f in list(extra):
        trial = {k: v for k, v in extra.items() if k != f}
        d = fails_with(trial)
        if d is not None:
            extra, detail = trial, d
    return dict(case, extra=extra, part="minimised"), detail


def _work(arg):
    seed, chunk = arg
    tt.boot()
    out = []
    for case in chunk:
        res = check_case(case, seed)
        if case["part"] in ("pair", "pairfill") and res["status"] == "emitted" and res["fails"]:
            small = []
            for check, error, detail in res["fails"]:
                c2, d2 = minimise(case, (check, error), seed)
                small.append((check, error, d2 or detail, c2))
            res["minimised"] = small
        out.append((case, res))
    return out


# ----------------------------------------------------------------------------- driver

def sig_of(check, error, case):
    sig = {"check": check, "error": error}
    for d in CORE_DIMS:
        sig[d] = case[d]
    for k, v in sorted((case.get("extra") or {}).items()):
        if v is not None:
            sig["opt_" + k] = v
    return sig


def _count(lists):
    out = {}
    for lst in lists:
        for x in lst:
            out[x] = out.get(x, 0) + 1
    return dict(sorted(out.items()))


def cmdline(case):
    return "torchtree-cli " + " ".join(argv_of(case))


def run(run):
    tt.boot()
    fixture()
    try:
        return _run(run)
    finally:
        drop_fixture()


def _run(run):
    tier = run.tier
    results = []  # (case, res)

    phases = []

    def execute(cases):
        import time

        t0 = time.time()
        got = []
        for chunk in pmap(_work, [(run.seed, c) for c in chunked(cases, 256)]):
            got.extend(chunk)
        results.extend(got)
        phases.append([len(cases), round(time.time() - t0, 1)])
        return got

    core = core_cases(tier)
    execute(core)
    coreswitch = tree_core_switch_cases(tier)
    execute(coreswitch)

    # ---- switches on representative cores
    reps = [REP_CORES[i] for i in (QUICK_REP if tier == "quick" else range(len(REP_CORES)))]
    bases = [dict(r, sub=s) for r in reps for s in SUBS]
    singles = []
    for b in bases:
        for f in applicable(b):
            for lv in FACTORS[f][0]:
                singles.append(dict(b, part="single", extra={f: lv}))
    got = execute(singles)
    emitted_alone = {}
    rejected_levels = []
    for case, res in got:
        key = jdump({d: case[d] for d in CORE_DIMS})
        (f, lv), = case["extra"].items()
        if res["status"] == "emitted":
            emitted_alone.setdefault(key, {}).setdefault(f, []).append(lv)
        else:
            rejected_levels.append((case["sub"], f, lv, res["status"], res.get("why", "")))
    pair_rows = []
    pair_plan = {}
    for b in bases:
        key = jdump({d: b[d] for d in CORE_DIMS})
        levels = {}
        for f in applicable(b):
            ok = emitted_alone.get(key, {}).get(f, [])
            if ok:
                levels[f] = [None] + ok
        rows = pairwise_rows(levels)
        fs = list(levels)
        want = set()
        for f, g in itertools.combinations(fs, 2):
            for a in levels[f]:
                for c in levels[g]:
                    want.add((f, a, g, c))
        have = set()
        for r in rows:
            have |= pairs_of(r, fs)
        if want - have:
            raise RuntimeError("pairwise array incomplete")
        pair_plan[key] = (b, fs, want)
        for r in rows:
            pair_rows.append(dict(b, part="pair", extra={k: v for k, v in r.items() if v is not None}))
    got = execute(pair_rows)
    covered = {}
    for case, res in got:
        key = jdump({d: case[d] for d in CORE_DIMS})
        if res["status"] == "emitted":
            b, fs, want = pair_plan[key]
            covered.setdefault(key, set()).update(pairs_of(case["extra"], fs))
    fill = []
    n_pairs = 0
    for key, (b, fs, want) in pair_plan.items():
        n_pairs += len(want)
        for (f, a, g, c) in sorted(want - covered.get(key, set()), key=jdump):
            if a is None or c is None:
                continue  # a pair with a default level is the single-switch row, already run
            fill.append(dict(b, part="pairfill", extra={f: a, g: c}))
    got = execute(fill)
    rejected_pairs = [(c["sub"], sorted(c["extra"].items()), r["status"], r.get("why", ""))
                      for c, r in got if r["status"] != "emitted"]

    # ---- aggregate
    if len(core) != core_size(tier):
        raise RuntimeError("core enumeration truncated")
    emitted = [(c, r) for c, r in results if r["status"] == "emitted"]
    n_rej = sum(1 for _, r in results if r["status"] == "rejected")
    n_crash = sum(1 for _, r in results if r["status"] == "crashed")
    if not emitted:
        raise RuntimeError("the CLI emitted no configuration at all - nothing was checked")
    classes = {}
    for case, res in emitted:
        items = res.get("minimised") or [(c, e, d, case) for c, e, d in res["fails"]]
        seen = set()
        for check, error, detail, vcase in items:
            k = (check, error, jdump(vcase))
            if k in seen:
                continue
            seen.add(k)
            classes.setdefault((check, error), {})[jdump(dict(vcase, part=""))] = (vcase, detail)
    ordered = []
    for key in sorted(classes):
        items = sorted(classes[key].values(),
                       key=lambda it: (len(it[0].get("extra") or {}), it[0]["part"] != "core", jdump(it[0])))
        classes[key] = items
    depth = 0
    while True:  # one representative of every class first, then the second of every class, ...
        layer = [(key, items[depth]) for key, items in sorted(classes.items()) if depth < len(items)]
        if not layer:
            break
        ordered.extend(layer)
        depth += 1
    for (check, error), (vcase, detail) in ordered:
        n = len(classes[(check, error)])
        run.violation(vcase, f"{cmdline(vcase)}\n    -> {check}: {detail}  [{n} configurations fail this way]",
                      sig_of(check, error, vcase))

    not_emitted = {}
    for c, r in results:
        if r["status"] != "emitted":
            k = f"{r['status']}: {re.sub('torchtree-cli [a-z]+: ', '', r.get('why', ''))}"
            not_emitted.setdefault(k, [0, cmdline(c)])
            not_emitted[k][0] += 1
    distinct = {jdump(argv_of(c)) for c, _ in emitted}
    outcomes = {round(r["info"]["target"], 6) for _, r in emitted if "target" in r["info"]}
    samples = [cmdline(c) for c, _ in (emitted[0], emitted[len(emitted) // 2], emitted[-1])]
    samples += [cmdline(c) for c, r in emitted if c["part"] == "pair"][:2]
    cov = {
        "evaluations": len(results),
        "distinct_nontrivial": len(distinct),
        "rule": "one evaluation = one torchtree-cli command line run in-process and, if JSON is emitted, loaded as "
                "`torchtree --dry` does and judged (load, finite target and gradient, requested initial values, "
                "Jacobian accounting per block); full product of the model-defining core (sub-command x model x "
                "categories x invariant x clock x heights x tree prior); every (sub-command, clock, heights, tree "
                "prior) x every level of every model/initialisation switch alone; on representative cores every level "
                "of every other documented switch alone, a pairwise covering array of the accepted levels and the "
                "minimal row for every pair not covered by an emitted row; distinct_nontrivial = distinct "
                "canonical command lines for which the CLI emitted a configuration (rejected/died ones excluded)",
        "samples": samples,
        "exhaustive": True,
        "core_command_lines": len(core),
        "core_closed_form": ("4*9*2*2*(1+3*2*11*2)" if tier == "thorough" else "4*9*2*2*(1+3*2*11)") + f" = {core_size(tier)}",
        "tree_core_x_switch_rows": len(coreswitch),
        "single_switch_rows": len(singles),
        "pairwise_rows": len(pair_rows),
        "pair_fill_rows": len(fill),
        "level_pairs_required": n_pairs,
        "switches": len(FACTORS),
        "representative_cores": len(reps),
        "emitted_configurations": len(emitted),
        "rejected_by_cli": n_rej,
        "cli_died_without_output": n_crash,
        "not_emitted_classes": {k: v for k, v in sorted(not_emitted.items())},
        "rejected_levels_alone": sorted({f"{s} {f}={lv}: {st} {why}" for s, f, lv, st, why in rejected_levels}),
        "rejected_pairs": sorted({f"{s} {p}: {st} {why}" for s, p, st, why in rejected_pairs})[:60],
        "configurations_with_failures": sum(1 for _, r in emitted if r["fails"]),
        "failure_classes": {f"{c}: {e}": len(v) for (c, e), v in sorted(classes.items())},
        "accounting_blocks_judged": sum(r["info"].get("judged", 0) for _, r in emitted),
        "accounting_blocks_incomplete_prior": sum(r["info"].get("incomplete", 0) for _, r in emitted),
        "blocks_judged_by_name": _count(r["info"].get("judged_names", []) for _, r in emitted),
        "blocks_incomplete_by_name": _count(r["info"].get("incomplete_names", []) for _, r in emitted),
        "accounting_blocks_singular": sum(r["info"].get("singular", 0) for _, r in emitted),
        "accounting_not_judged": sum(1 for _, r in emitted if "not_judged" in r["info"]),
        "judged_at_generic_point": sum(1 for _, r in emitted if r["info"].get("displaced")),
        "init_value_comparisons": sum(r["info"].get("init_checked", 0) for _, r in emitted),
        "distinct_target_values": len(outcomes),
        "phase_cases_wall_s": phases,
        "tolerances": {"accounting": TOL_ACCOUNT, "target_split": TOL_SPLIT, "init_relative": TOL_INIT},
        "largest_accepted_deviation": {
            "accounting": max([r["info"].get("max_err", 0.0) for _, r in emitted] + [0.0]),
            "target_split": max([r["info"].get("split_err", 0.0) for _, r in emitted
                                 if r["info"].get("split_err", 0.0) <= TOL_SPLIT] + [0.0]),
            "init_relative": max([r["info"].get("init_maxrel", 0.0) for _, r in emitted] + [0.0])},
    }
    return run.finish(cov, assumptions=[
        "one 4-taxon fixture (heterochronous dates in the names, a time tree; an ultrametric tree for --dates 0)",
        "time-tree priors only together with a clock (without one the combination is meaningless)",
        "a command line on which the CLI exits, raises NotImplementedError or dies before printing is not an "
        "emitted configuration: counted, not judged",
        "objects are constructed (as `torchtree --dry`), the algorithms are not run",
        "Jacobian accounting: forward maps of the transforms are trusted (C06/C07 judge them), their "
        "log-Jacobians and the CLI's id bookkeeping are not; evaluated on a fresh load of the emitted JSON with "
        "the moved leaves displaced by 0.02..0.14 (VERIF_SEED rotates the offsets); blocks whose leaves have no "
        "(complete) prior and the map sub-command are not judged",
        "gradient: hmc/map at the initial point, advi at the displaced point (it never evaluates the mean "
        "itself), mcmc not at all (its operators use no gradient)",
        "not explored: --engine / plugins, --date_format, --date_regex, --metadata/--trait, --init_fullrank, "
        "--join, the undocumented -q realnvp / -q 'family(ids)' forms",
        f"tolerances: accounting {TOL_ACCOUNT}, split {TOL_SPLIT} (relative to max(1,|x|)), initial values "
        f"{TOL_INIT} relative (the CLI computes inverse transforms in float32)",
    ])


def replay(case):
    tt.boot()
    fixture()
    try:
        seed = int(os.environ.get("VERIF_SEED", "0") or 0)
        res = check_case(case, seed)
    finally:
        drop_fixture()
    out = []
    if res["status"] != "emitted":
        return out
    for check, error, detail in res["fails"]:
        out.append({"case": case, "detail": f"{cmdline(case)}\n    -> {check}: {detail}",
                    "sig": sig_of(check, error, case)})
    return out
