"""C16 - the leapfrog integrator is reversible, volume preserving and second order; the
Hastings term of the HMC operator is the change in kinetic energy.

Three enumerations, all complete over their declared finite space:

traj   targets x mass matrices x step sizes x numbers of steps x (q, p) corner points.  The
       real `LeapfrogIntegrator` (built from JSON) is called directly.  Per element:
       (1) integrate, negate the momentum, integrate: back at (q, -p) up to round-off;
       (2) determinant of the 2d x 2d Jacobian of (q, p) -> (q', p') by central differences
           of the implementation = 1;
       (3) energy error (oracle potential + oracle kinetic energy) at (eps, L) against
           (eps/2, 2L): shrinks by 2^2 (for eps <= 0.05).
op     `HMCOperator.step()` (built from JSON as the CLI emits it) under a scripted
       environment: every standard-normal answer from a menu, every position of a NaN
       answer of the target (injected on the joint, or natural through an overflowing
       momentum), mass matrix given at construction or replaced afterwards.  Demanded: the
       returned Hastings term equals K(p0) - K(p1) computed by the oracle from the momentum
       that entered and left the integrator; the positions in the parameters are those the
       integrator produced; a trajectory that follows failed trials starts from the original
       positions; when every trial fails the operator either signals it (infinite return
       value) or leaves the positions untouched.
mcmc   one MCMC iteration with one HMC operator, scripted momentum and scripted uniform just
       below / just above the oracle acceptance probability exp(min(0, H0 - H1)): the move
       is accepted / rejected accordingly (acceptance decided on the full Hamiltonian).

The oracle (mc/oracle/hmc.py) is plain numpy: closed-form log densities of the targets and
K = p' M^-1 p / 2.  A numpy reference leapfrog is used only to classify trajectories
(finite? how much does the map amplify perturbations?) so that "up to round-off" can be
given a number; implementation and reference trajectories are never compared."""
import contextlib
import io
import itertools
import json
import math
import os

import numpy as np

from mc.env import tt
from mc.oracle import hmc as ref
from mc.runner import chunked, jdump, pmap

LEVEL = "exploration"

SEQS = ["ACGTACGTAA", "ACGTACCTAG", "ATGTTCGTAC"]
PRIOR_RATE = 10.0

EPS = [1e-3, 0.01, 0.05, 0.1, 0.5]
STEPS = [1, 2, 3, 5, 10, 30]
MASSES = ["ones", "eye", "diag1", "diag2", "diag3", "dense1", "dense2", "dense3"]
MASSES_QUICK = ["ones", "eye", "diag1", "diag2", "dense1", "dense2"]


def masses(tier):
    return MASSES if tier == "thorough" else MASSES_QUICK


# -- tolerances (see assumptions in the evidence) ---------------------------------------
BIG = 1e2            # reference trajectory leaves [-BIG, BIG] -> unstable regime, excluded
AMP_MAX = 1e2        # reference Jacobian entry above this -> finite differences meaningless
DET_SURE = 1e-8      # level-1 finite-difference determinant this close to one: accepted at once
DET_RESOLVED = 1e-7  # otherwise judged only if the instrument error (same scheme on the reference) is below this
REV_TOL = 1e-9       # property's "round-off": 1e-9 (1 + L) max(1, amplification)
DET_TOL = 1e-5       # 100 x the admitted instrument error
FD_H = 1e-3
ORDER_GROUP = (1.7, 2.3)
ORDER_POINT = (1.5, 2.5)
NONDEGENERATE = 0.2  # per-point order evaluated only if |dH| >= 0.2 max over the group
K_TOL = 1e-12


# -- targets ------------------------------------------------------------------------------

def target_table(tier):
    """name -> (oracle kind, d, split sizes)"""
    t = {}
    dmax = 8 if tier == "thorough" else 4
    for d in range(1, dmax + 1):
        t[f"normal{d}"] = ("normal", d, [d])
    for d in range(2, dmax + 1):
        t[f"mvn{d}"] = ("mvn", d, [d])
    t["normal3/2+1"] = ("normal", 3, [2, 1])
    t["mvn3/1+2"] = ("mvn", 3, [1, 2])
    for d in range(1, (4 if tier == "thorough" else 2) + 1):
        t[f"gamma{d}"] = ("gamma", d, [d])
    t["gamma2/1+1"] = ("gamma", 2, [1, 1])
    t["jc69"] = ("jc69", 3, [3])
    t["jc69+normal/3+1"] = ("jc69+normal", 4, [3, 1])
    if tier == "thorough":
        t["normal6/2+1+3"] = ("normal", 6, [2, 1, 3])
        t["mvn5/2+3"] = ("mvn", 5, [2, 3])
        t["gamma3/1+2"] = ("gamma", 3, [1, 2])
    return t


def oracle_target(kind, d):
    if kind == "normal":
        return ref.Normal(d)
    if kind == "mvn":
        return ref.MVN(d)
    if kind == "gamma":
        return ref.GammaExp(d)
    if kind == "jc69":
        return ref.JC69Star(SEQS, PRIOR_RATE)
    if kind == "jc69+normal":
        return ref.Product([ref.JC69Star(SEQS, PRIOR_RATE), ref.Normal(1, 1)])
    raise ValueError(kind)


def P(id_, v):
    return {"id": id_, "type": "Parameter", "tensor": [float(x) for x in v]}


def _blocks(split):
    out = []
    s = 0
    for n in split:
        out.append((s, s + n))
        s += n
    return out


def jc69_spec(qid, q):
    return [
        {"id": "taxa", "type": "Taxa", "taxa": [{"id": n, "type": "Taxon"} for n in "ABC"]},
        {"id": "alignment", "type": "Alignment",
         "datatype": {"id": "data_type", "type": "NucleotideDataType"}, "taxa": "taxa",
         "sequences": [{"taxon": n, "sequence": s} for n, s in zip("ABC", SEQS)]},
    ], [
        {"id": "like", "type": "TreeLikelihoodModel",
         "tree_model": {"id": "tree", "type": "UnRootedTreeModel", "newick": "(A:0.1,B:0.2,C:0.3);",
                        "branch_lengths": {"id": "tree.blens", "type": "TransformedParameter",
                                           "transform": "torch.distributions.ExpTransform",
                                           "x": P(qid, q)},
                        "taxa": "taxa"},
         "site_model": {"id": "sitemodel", "type": "ConstantSiteModel"},
         "substitution_model": {"id": "substmodel", "type": "JC69"},
         "site_pattern": {"id": "patterns", "type": "SitePattern", "alignment": "alignment"}},
        {"id": "tree.blens.prior", "type": "Distribution",
         "distribution": "torch.distributions.Exponential", "x": "tree.blens",
         "parameters": {"rate": PRIOR_RATE}},
        "tree.blens",
    ]


def target_spec(kind, d, split, q):
    """JSON (list) defining the joint `joint` over the position parameters q0, q1, ...
    exactly the way the CLI lays such models out (unconstrained parameter -> transformed
    parameter -> distribution, Jacobian term = the transformed parameter itself)."""
    q = [float(x) for x in q]
    blocks = _blocks(split)
    ids = [f"q{i}" for i in range(len(split))]
    pre = []
    dists = []
    if kind == "normal":
        o = ref.Normal(d)
        for i, (a, b) in enumerate(blocks):
            dists.append({"id": f"n{i}", "type": "Distribution", "distribution": "torch.distributions.Normal",
                          "x": P(ids[i], q[a:b]),
                          "parameters": {"loc": o.loc[a:b].tolist(), "scale": o.scale[a:b].tolist()}})
    elif kind == "mvn":
        o = ref.MVN(d)
        x = [P(ids[i], q[a:b]) for i, (a, b) in enumerate(blocks)]
        dists.append({"id": "mvn", "type": "Distribution",
                      "distribution": "torch.distributions.MultivariateNormal",
                      "x": x if len(x) > 1 else x[0],
                      "parameters": {"loc": {"id": "mvn.loc", "type": "Parameter", "tensor": o.loc.tolist()},
                                     "covariance_matrix": {"id": "mvn.cov", "type": "Parameter",
                                                           "tensor": o.cov.tolist()}}})
    elif kind == "gamma":
        o = ref.GammaExp(d)
        for i, (a, b) in enumerate(blocks):
            dists.append({"id": f"g{i}", "type": "Distribution", "distribution": "torch.distributions.Gamma",
                          "x": {"id": f"x{i}", "type": "TransformedParameter",
                                "transform": "torch.distributions.ExpTransform", "x": P(ids[i], q[a:b])},
                          "parameters": {"concentration": o.a[a:b].tolist(), "rate": o.b[a:b].tolist()}})
            dists.append(f"x{i}")
    elif kind in ("jc69", "jc69+normal"):
        pre, dists = jc69_spec(ids[0], q[0:3])
        if kind == "jc69+normal":
            o = ref.Normal(1, 1)
            dists.append({"id": "n1", "type": "Distribution", "distribution": "torch.distributions.Normal",
                          "x": P(ids[1], q[3:4]),
                          "parameters": {"loc": o.loc.tolist(), "scale": o.scale.tolist()}})
    else:
        raise ValueError(kind)
    return pre + [{"id": "joint", "type": "JointDistributionModel", "distributions": dists}], ids


# -- lattice --------------------------------------------------------------------------------

def _jit(seed, idx):
    f = (seed * 0.7548776662466927 + idx * 0.5698402909980532 + 0.123) % 1.0
    return 0.08 * (f - 0.5)


def corner(d, k, seed):
    """corner point k (4 bits: q sign, q alternation, p sign, p alternation) of the lattice
    {+-0.5, +-1.5}^(2d); VERIF_SEED moves every coordinate by at most 0.04"""
    b0, b1, b2, b3 = k & 1, (k >> 1) & 1, (k >> 2) & 1, (k >> 3) & 1
    q = np.zeros(d)
    p = np.zeros(d)
    for i in range(d):
        mq = 0.5 if i % 2 == 0 else 1.5
        mp = 1.5 if i % 2 == 0 else 0.5
        sq = (-1.0) ** (b0 + b1 * i)
        sp = (-1.0) ** (b2 + b3 * i)
        q[i] = sq * mq + _jit(seed, 2 * i)
        p[i] = sp * mp + _jit(seed, 2 * i + 1)
    return q, p


def corner_ids(d, tier):
    ks = (0, 3, 5, 6, 9, 10, 12, 15) if tier == "thorough" else (0, 6, 9, 15)
    seen = {}
    for k in ks:
        q, p = corner(d, k, 0)
        key = (tuple(np.sign(q)), tuple(np.sign(p)))
        seen.setdefault(key, k)
    return sorted(seen.values())


# -- environment: scripted random answers ---------------------------------------------------

class ScriptExhausted(Exception):
    pass


class Script:
    """answers to every random draw torchtree makes during an operator / MCMC step"""

    def __init__(self, normals, uniforms=()):
        self.normals = [np.asarray(z, dtype=float) for z in normals]
        self.uniforms = list(uniforms)
        self.n_normal = 0
        self.n_uniform = 0

    def z(self, shape):
        import torch

        if self.n_normal >= len(self.normals):
            raise ScriptExhausted("normal")
        z = self.normals[self.n_normal]
        self.n_normal += 1
        if tuple(shape) != z.shape:
            raise RuntimeError(f"scripted normal answer of shape {z.shape} requested as {tuple(shape)}")
        return torch.tensor(z)

    def u(self, shape):
        import torch

        if self.n_uniform >= len(self.uniforms):
            raise ScriptExhausted("uniform")
        u = self.uniforms[self.n_uniform]
        self.n_uniform += 1
        return torch.full(tuple(shape), float(u))


@contextlib.contextmanager
def scripted(script):
    """Replace every random source the HMC/MCMC code can reach; any draw that still reaches
    the torch generator is detected by comparing the generator state (harness error)."""
    import torch
    from torch.distributions import Categorical, MultivariateNormal, Normal

    def n_sample(self, sample_shape=torch.Size()):
        shape = tuple(sample_shape) + tuple(self.loc.shape)
        return (self.loc + self.scale * script.z(shape)).detach()

    def mvn_sample(self, sample_shape=torch.Size()):
        shape = tuple(sample_shape) + tuple(self.loc.shape)
        z = script.z(shape)
        return (self.loc + (self._unbroadcasted_scale_tril @ z.unsqueeze(-1)).squeeze(-1)).detach()

    def cat_sample(self, sample_shape=torch.Size()):
        if self.probs.shape[-1] != 1:
            raise RuntimeError("categorical draw with more than one category is not scripted here")
        return torch.zeros(tuple(sample_shape), dtype=torch.long)

    def randn(*size, **kw):
        if len(size) == 1 and isinstance(size[0], (tuple, list, torch.Size)):
            size = tuple(size[0])
        return script.z(size)

    def randn_like(t, **kw):
        return script.z(tuple(t.shape))

    def rand(*size, **kw):
        if len(size) == 1 and isinstance(size[0], (tuple, list, torch.Size)):
            size = tuple(size[0])
        return script.u(size)

    def normal(mean, std, *a, **kw):
        mean_t = torch.as_tensor(mean, dtype=torch.get_default_dtype())
        std_t = torch.as_tensor(std, dtype=torch.get_default_dtype())
        shape = torch.broadcast_shapes(mean_t.shape, std_t.shape)
        return mean_t + std_t * script.z(tuple(shape))

    saved = [(Normal, "sample", Normal.sample), (Normal, "rsample", Normal.rsample),
             (MultivariateNormal, "sample", MultivariateNormal.__dict__.get("sample")),
             (MultivariateNormal, "rsample", MultivariateNormal.rsample),
             (Categorical, "sample", Categorical.sample),
             (torch, "randn", torch.randn), (torch, "randn_like", torch.randn_like),
             (torch, "rand", torch.rand), (torch, "normal", torch.normal)]
    state = torch.get_rng_state()
    try:
        Normal.sample = n_sample
        Normal.rsample = n_sample
        MultivariateNormal.sample = mvn_sample
        MultivariateNormal.rsample = mvn_sample
        Categorical.sample = cat_sample
        torch.randn = randn
        torch.randn_like = randn_like
        torch.rand = rand
        torch.normal = normal
        yield script
    finally:
        for obj, name, fn in saved:
            if fn is None:
                delattr(obj, name)
            else:
                setattr(obj, name, fn)
    if not torch.equal(state, torch.get_rng_state()):
        raise RuntimeError("a random draw was not intercepted by the script (generator state moved)")


class IntegratorRecorder:
    """stands where the integrator stands; forwards to the real one and records what went in
    and what came out (positions are read from the parameters)"""

    def __init__(self, real, params):
        self.id = real.id + ".rec"
        self.real = real
        self.params = params
        self.calls = []

    @property
    def step_size(self):
        return self.real.step_size

    @step_size.setter
    def step_size(self, v):
        self.real.step_size = v

    @property
    def steps(self):
        return self.real.steps

    def state_dict(self):
        return self.real.state_dict()

    def load_state_dict(self, s):
        self.real.load_state_dict(s)

    def _q(self):
        return np.concatenate([p.tensor.detach().numpy().reshape(-1) for p in self.params]).copy()

    def __call__(self, model, parameters, momentum, inverse_mass_matrix):
        rec = {"q_in": self._q(), "p_in": momentum.detach().numpy().copy(), "ok": False}
        self.calls.append(rec)
        out = self.real(model, parameters, momentum, inverse_mass_matrix)
        rec["q_out"] = self._q()
        rec["p_out"] = out.detach().numpy().copy()
        rec["ok"] = True
        return out


class JointInjector:
    """stands where the joint stands; answers NaN at call number `pos` counted from the
    start of a trial (= from the start of the step, or from the previous NaN answer, which
    ends a trial), for the first `trials` trials"""

    def __init__(self, real, pos, trials):
        self.id = "joint.inj"
        self.real = real
        self.pos = pos
        self.trials = trials
        self.since = 0
        self.given = 0

    @property
    def sample_shape(self):
        return self.real.sample_shape

    def __call__(self, *a, **kw):
        v = self.real(*a, **kw)
        i = self.since
        self.since += 1
        if i == self.pos and self.given < self.trials:
            self.given += 1
            self.since = 0
            return v * float("nan")
        return v


# -- implementation drivers -----------------------------------------------------------------

HOWS = ("ctor", "assigned", "state_dict", "tuned")


def other_eps(eps):
    return EPS[(EPS.index(eps) + 2) % len(EPS)] if eps in EPS else 0.03


def other_steps(L):
    return 4 if L != 4 else 7


class Env:
    """the target and a LeapfrogIntegrator, both built from JSON.  `how` says how the
    integrator came to have its step size and number of steps:
      ctor        constructed with them
      assigned    constructed with another step size, then `integrator.step_size = eps`
                  (what AdaptiveStepSize, DualAveragingStepSize and the warm-up do)
      state_dict  constructed with other values, then load_state_dict() of the (JSON
                  round-tripped) state_dict() of an integrator that has them (checkpoint restart)
      tuned       constructed with another step size inside an HMCOperator, then
                  operator.set_adaptable_parameter(log eps) (what MCMCOperator.tune does)
    `eps` is afterwards read back from the integrator."""

    def __init__(self, kind, d, split, q, eps, L, how="ctor"):
        import torch

        spec, ids = target_spec(kind, d, split, q)
        e0 = float(eps) if how == "ctor" else other_eps(eps)
        L0 = int(L) if how != "state_dict" else other_steps(L)
        spec = spec + [{"id": "lf", "type": "LeapfrogIntegrator", "steps": L0, "step_size": e0}]
        self.dic = tt.load(spec)
        self.joint = self.dic["joint"]
        self.lf = self.dic["lf"]
        self.params = [self.dic[i] for i in ids]
        self.blocks = _blocks(split)
        self.torch = torch
        if how == "assigned":
            self.lf.step_size = float(eps)
        elif how == "state_dict":
            donor = tt.load({"id": "lf", "type": "LeapfrogIntegrator", "steps": int(L),
                             "step_size": float(eps)})["lf"]
            self.lf.load_state_dict(json.loads(json.dumps(donor.state_dict())))
        elif how == "tuned":
            tt.load(operator_spec(ids, e0, L0, np.ones(d), integrator="lf"), self.dic)
            self.dic["hmc.operator"].set_adaptable_parameter(math.log(float(eps)))
        elif how != "ctor":
            raise ValueError(how)
        self.eps = float(self.lf.step_size)
        if self.lf.steps != int(L) or not abs(self.eps - eps) <= 1e-14 * eps:
            raise RuntimeError(f"integrator reports step_size={self.lf.step_size}, steps={self.lf.steps} "
                               f"after '{how}' to ({eps}, {L})")

    def set_q(self, q):
        for p, (a, b) in zip(self.params, self.blocks):
            p.tensor = self.torch.tensor(np.asarray(q[a:b], dtype=float))

    def get_q(self):
        return np.concatenate([p.tensor.detach().numpy().reshape(-1) for p in self.params]).copy()

    def logp(self, q):
        self.set_q(q)
        with self.torch.no_grad():
            return float(self.joint())

    def integrate(self, q, p, Minv):
        """('ok', q', p') | ('loud', message) | ('error', message)"""
        self.set_q(q)
        try:
            p1 = self.lf(self.joint, self.params, self.torch.tensor(np.asarray(p, dtype=float)), Minv)
            return "ok", self.get_q(), p1.detach().numpy().copy()
        except ValueError as e:
            return "loud", f"ValueError: {e}", None
        except Exception as e:  # anything else is never acceptable
            return "error", f"{type(e).__name__}: {e}", None


def check_target_matches_oracle(env, target, q, what):
    """harness assertion: the JSON target is the density the oracle describes"""
    a = env.logp(q)
    b = target.logp(q)
    if not (abs(a - b) <= 1e-9 * (1.0 + abs(b))):
        raise RuntimeError(f"{what}: target built from JSON has log density {a!r}, oracle {b!r} at {q}")


def classify(target, M, q, p, eps, L):
    """('stable', amp) | ('unstable', reason)"""
    q1, p1, big = ref.leapfrog(target, M, q, p, eps, L)
    if not math.isfinite(big) or big > BIG:
        return "unstable", big
    q2, p2, big2 = ref.leapfrog(target, M, q1, -p1, eps, L)
    if not math.isfinite(big2) or big2 > BIG:
        return "unstable", big2
    amp = ref.amplification(target, M, q, p, eps, L)
    if not math.isfinite(amp):
        return "unstable", amp
    return "stable", amp


def hamiltonian(target, M, q, p):
    return -target.logp(q) + ref.kinetic(p, M)


def fd_determinant(env, d, q0, p0, Minv, ref_map):
    """determinant of the Jacobian of the implementation's map by central differences.
    Level 1: second-order differences with step h; level 2: steps h and 2h Richardson-
    extrapolated to fourth order.  Either is accepted at once when the determinant is within
    DET_SURE of one.  Otherwise the error of the measuring instrument is measured: the very
    same difference scheme is applied to `ref_map`, a plain numpy leapfrog whose Jacobian
    determinant is exactly one by construction (a composition of shears), so whatever its
    finite-difference determinant differs from one by is truncation + round-off of the scheme
    at this point.  The implementation's determinant is judged against DET_TOL only where
    that instrument error is below DET_RESOLVED; elsewhere the element is counted as
    unresolved.  (h = 1e-3: round-off of a trajectory, ~1e-13 amplified, divided by 2h.)
    returns ('ok', det, instrument error, level) | ('unresolved', det, error) | ('raises', h, msg)"""
    x0 = np.concatenate([q0, p0])
    n = 2 * d

    def impl_map(x):
        s, a, b = env.integrate(x[:d], x[d:], Minv)
        if s != "ok":
            raise _Raised(a)
        return np.concatenate([a, b])

    def D2(f, h):
        J = np.zeros((n, n))
        for i in range(n):
            xp = x0.copy()
            xm = x0.copy()
            xp[i] += h
            xm[i] -= h
            try:
                J[:, i] = (f(xp) - f(xm)) / (2 * h)
            except _Raised as e:
                raise _Raised(h, e.args[0])
        return J

    try:
        J1 = D2(impl_map, FD_H)
        det1 = float(np.linalg.det(J1))
        if abs(det1 - 1.0) <= DET_SURE:
            return "ok", det1, abs(det1 - 1.0), 1
        J2 = D2(impl_map, 2 * FD_H)
        detR = float(np.linalg.det((4.0 * J1 - J2) / 3.0))
        if abs(detR - 1.0) <= DET_SURE:
            return "ok", detR, abs(detR - 1.0), 2
        with np.errstate(all="ignore"):
            K1 = D2(ref_map, FD_H)
            K2 = D2(ref_map, 2 * FD_H)
            instrument = abs(float(np.linalg.det((4.0 * K1 - K2) / 3.0)) - 1.0)
        if instrument <= DET_RESOLVED:
            return "ok", detR, instrument, 3
        return "unresolved", detR, instrument
    except _Raised as e:
        return "raises", e.args[0], e.args[1]


class _Raised(Exception):
    pass


# -- traj cases -------------------------------------------------------------------------------

def traj_cases(tier):
    tab = target_table(tier)
    out = []
    for name, (kind, d, split) in tab.items():
        cids = corner_ids(d, tier)
        for mi, mass in enumerate(masses(tier)):
            for ei, eps in enumerate(EPS):
                for li, L in enumerate(STEPS):
                    for ci, k in enumerate(cids):
                        # the determinant needs 4d further trajectories: evaluated on one corner
                        # in four, the corner rotating with the other coordinates of the case
                        jac = (ci % 4 == (mi + ei + li) % min(4, len(cids)))
                        out.append({"kind": "traj", "target": name, "mass": mass, "eps": eps, "L": L,
                                    "corner": k, "jac": jac, "how": "ctor"})
        # the same integrator reached through the other ways a step size / step count is set
        for mi, mass in enumerate(MASSES if tier == "thorough" else ("ones", "dense1")):
            for ei, eps in enumerate(EPS):
                for li, L in enumerate(STEPS):
                    for hi, how in enumerate(HOWS[1:]):
                        k = cids[(mi + ei + li + hi) % len(cids)]
                        out.append({"kind": "traj", "target": name, "mass": mass, "eps": eps, "L": L,
                                    "corner": k, "jac": False, "how": how})
    return out


def run_traj(case, tab, seed):
    import torch

    kind, d, split = tab[case["target"]]
    target = oracle_target(kind, d)
    M = ref.mass_menu(d)[case["mass"]]
    Minv = torch.tensor(ref.inverse_mass(M))
    eps, L = case["eps"], case["L"]
    q0, p0 = corner(d, case["corner"], seed)
    res = {"bad": [], "status": None, "metrics": {}}
    status, amp = classify(target, M, q0, p0, eps, L)
    how = case.get("how", "ctor")
    env = Env(kind, d, split, q0, eps, L, how)
    check_target_matches_oracle(env, target, q0, case["target"])
    st, q1, p1 = env.integrate(q0, p0, Minv)
    if st == "error":
        res["status"] = "error"
        res["bad"].append(("integrator_raises", q1))
        return res
    if status == "unstable":
        res["status"] = "unstable_loud" if st == "loud" else "unstable_silent"
        return res
    res["status"] = "stable"
    res["metrics"]["amp"] = amp
    if st == "loud":
        res["bad"].append(("raises_on_regular_trajectory",
                           f"{q1} although a leapfrog trajectory from q={q0.tolist()} p={p0.tolist()} stays "
                           f"within +-{BIG}"))
        return res
    if not (np.all(np.isfinite(q1)) and np.all(np.isfinite(p1))):
        res["bad"].append(("non_finite_result", f"q'={q1} p'={p1}"))
        return res
    # (1) reversibility
    st2, q2, p2 = env.integrate(q1, -p1, Minv)
    if st2 != "ok":
        res["bad"].append(("reverse_raises", f"integrating back from (q', -p') raised {q2}"))
    else:
        err = max(float(np.max(np.abs(q2 - q0))), float(np.max(np.abs(p2 + p0))))
        tol = REV_TOL * (1 + L) * max(1.0, amp)
        res["metrics"]["rev"] = err / tol
        if not err <= tol:
            res["bad"].append(("reversibility",
                               f"integrate, negate, integrate from q={q0.tolist()} p={p0.tolist()} ends at "
                               f"q={q2.tolist()} p={p2.tolist()} (expected q, -p): max deviation {err:.3e} > "
                               f"{tol:.3e} (reference amplification {amp:.3g})"))
    # (3) energy error at (eps, L) and (eps/2, 2L)
    H0 = hamiltonian(target, M, q0, p0)
    dH = hamiltonian(target, M, q1, p1) - H0
    res["metrics"]["dH"] = dH
    res["metrics"]["H0"] = H0
    if eps <= 0.05:
        env2 = Env(kind, d, split, q0, eps / 2.0, 2 * L, how)
        st3, q3, p3 = env2.integrate(q0, p0, Minv)
        if st3 != "ok":
            res["bad"].append(("half_step_run_raises", f"eps/2, 2L run raised {q3}"))
        else:
            res["metrics"]["dH2"] = hamiltonian(target, M, q3, p3) - H0
    # (2) Jacobian determinant by central differences of the implementation
    if case["jac"]:
        if amp > AMP_MAX:
            res["metrics"]["jac_skipped"] = True
        else:
            def ref_map(x):
                a, b, _ = ref.leapfrog(target, M, x[:d], x[d:], env.eps, L)
                return np.concatenate([a, b])

            out = fd_determinant(env, d, q0, p0, Minv, ref_map)
            if out[0] == "raises":
                res["bad"].append(("neighbour_raises", f"start moved by {out[1]} raised {out[2]}"))
            elif out[0] == "unresolved":
                res["metrics"]["jac_unresolved"] = out[2]
            else:
                det = out[1]
                res["metrics"]["det"] = det - 1.0
                res["metrics"]["det_level"] = out[3]
                if not abs(det - 1.0) <= DET_TOL:
                    res["bad"].append(("jacobian_determinant",
                                       f"det d(q',p')/d(q,p) = {det!r} (finite-difference instrument error "
                                       f"{out[2]:.1e}) at q={q0.tolist()} p={p0.tolist()}"))
    return res


# -- block cases: one integrator and one joint, a block of the parameters integrated twice with the rest of
#    the target changed in between --------------------------------------------------------------------------

BLOCK_EL = [(0.01, 1), (0.05, 3), (0.1, 10), (0.5, 2)]


def block_cases(tier):
    out = []
    for name, (kind, d, split) in target_table(tier).items():
        if len(split) < 2:
            continue
        for b in range(len(split)):
            for eps, L in BLOCK_EL:
                for k in corner_ids(d, tier)[:3]:
                    out.append({"kind": "block", "target": name, "block": b, "eps": eps, "L": L, "corner": k})
    return out


def run_block(case, tab, seed):
    """(1) integrate block b from the corner point; (2) keep the end point, move every other block through
    the public parameter interface; (3) integrate block b again from where it is.  The second trajectory
    must be the one a freshly built integrator + target produce from the same state (bit for bit up to
    1e-12), and the map must still be reversible."""
    import torch

    kind, d, split = tab[case["target"]]
    blocks = _blocks(split)
    a, b = blocks[case["block"]]
    eps, L = case["eps"], case["L"]
    q0, p0 = corner(d, case["corner"], seed)
    res = {"bad": [], "status": "stable", "metrics": {}}
    Minv = torch.ones(b - a, dtype=torch.float64)
    target = oracle_target(kind, d)
    if classify(target, np.ones(d), q0, p0, eps, L)[0] == "unstable":
        res["status"] = "unstable"
        return res

    def integ(env, p):
        try:
            out = env.lf(env.joint, [env.params[case["block"]]], torch.tensor(np.asarray(p, dtype=float)), Minv)
            return env.get_q(), out.detach().numpy().copy()
        except ValueError as e:
            return None, f"ValueError: {e}"

    env = Env(kind, d, split, q0, eps, L)
    env.set_q(q0)
    q1, p1 = integ(env, p0[a:b])
    if q1 is None:
        res["status"] = "loud"
        return res
    # the rest of the target moves (other operators do this between two HMC moves)
    q_mid = q1.copy()
    for j, (a2, b2) in enumerate(blocks):
        if j != case["block"]:
            q_mid[a2:b2] = q_mid[a2:b2] * 1.37 + 0.21
            env.params[j].tensor = torch.tensor(q_mid[a2:b2])
    if not np.isfinite(target.logp(q_mid)):
        res["status"] = "left_support"
        return res
    q2, p2 = integ(env, p0[a:b])
    fresh = Env(kind, d, split, q_mid, eps, L)
    fresh.set_q(q_mid)
    q2f, p2f = integ(fresh, p0[a:b])
    if q2 is None or q2f is None:
        if (q2 is None) != (q2f is None):
            res["bad"].append(("block_history", f"second trajectory of block {case['block']}: live {p2!r}, a freshly "
                                                f"built integrator {p2f!r}"))
        return res
    err = max(float(np.max(np.abs(q2 - q2f))), float(np.max(np.abs(p2 - p2f))))
    res["metrics"]["block_err"] = err
    if not err <= 1e-12 * max(1.0, float(np.max(np.abs(q2f))), float(np.max(np.abs(p2f)))):
        res["bad"].append(("block_history",
                           f"block {case['block']} integrated, the other blocks moved to {q_mid.tolist()}, block "
                           f"integrated again with momentum {p0[a:b].tolist()}: ends at q={q2.tolist()} "
                           f"p={p2.tolist()}; a freshly built integrator and target from the same state end at "
                           f"q={q2f.tolist()} p={p2f.tolist()} (max deviation {err:.3e})"))
    return res


# -- op cases ---------------------------------------------------------------------------------

OP_EL = [(0.01, 1), (0.1, 3), (0.5, 2), (0.05, 10)]
MCMC_EL = [(0.5, 2), (0.1, 3), (0.5, 5)]
BIG_Z = 1e9


def z_menu(d, j, seed):
    """standard-normal answers: two generic vectors"""
    q, p = corner(d, (6, 9)[j], seed)
    return p


def mass_alt(d, name):
    """a different matrix of the same form (for 'replaced after construction')"""
    menu = ref.mass_menu(d)
    M = menu[name]
    alt = menu["diag2" if name != "diag2" else "diag3"] if M.ndim == 1 else \
        menu["dense2" if name != "dense2" else "dense3"]
    return alt


def momentum_of(M, z):
    M = np.asarray(M)
    if M.ndim == 1:
        return np.sqrt(M) * z
    return np.linalg.cholesky(M) @ z


def big_answer(M):
    """standard-normal answer whose momentum (under N(0, M) by scaling / Cholesky factor) has
    every component = +1e9: the exp-transformed positions overflow on the first drift"""
    M = np.asarray(M)
    if M.ndim == 1:
        return BIG_Z / np.sqrt(M)
    return np.linalg.solve(np.linalg.cholesky(M), np.full(M.shape[0], BIG_Z))


def op_cases(tier):
    tab = target_table(tier)
    out = []
    for name, (kind, d, split) in tab.items():
        for mass in masses(tier):
            for eps, L in OP_EL:
                for zi in (0, 1):
                    for mode in ("init", "replaced", "tuned", "loaded"):
                        out.append({"kind": "op", "target": name, "mass": mass, "eps": eps, "L": L,
                                    "z": zi, "mode": mode, "fail": None})
                    # the second of two steps of the same operator (first one accepted / rejected)
                    for prelude in ("accept", "reject"):
                        out.append({"kind": "op", "target": name, "mass": mass, "eps": eps, "L": L,
                                    "z": zi, "mode": "init", "fail": None, "prelude": prelude})
        # NaN answers of the target: every call position of one trial, for one and two
        # consecutive failing trials; and all ten trials failing
        eps, L = 0.1, 3
        for mass in ("ones", "dense1"):
            for pos in range(L + 3):          # calls 0 .. L+2 of a trial
                for ntr in (1, 2):
                    out.append({"kind": "op", "target": name, "mass": mass, "eps": eps, "L": L,
                                "z": 0, "mode": "init", "fail": {"how": "inject", "pos": pos, "trials": ntr}})
            for pos in (1, L + 2):
                out.append({"kind": "op", "target": name, "mass": mass, "eps": eps, "L": L,
                            "z": 0, "mode": "init", "fail": {"how": "inject", "pos": pos, "trials": 10}})
            if kind == "gamma":
                for ntr in (1, 2, 3, 9, 10):
                    out.append({"kind": "op", "target": name, "mass": mass, "eps": eps, "L": L,
                                "z": 0, "mode": "init", "fail": {"how": "overflow", "trials": ntr}})
    return out


def operator_spec(ids, eps, L, M, joint="joint", integrator=None):
    M = np.asarray(M)
    return {"id": "hmc.operator", "type": "HMCOperator", "joint": joint,
            "parameters": ids if len(ids) > 1 else ids[0], "weight": 1.0,
            "integrator": integrator or {"id": "lf", "type": "LeapfrogIntegrator", "steps": int(L),
                                         "step_size": float(eps)},
            "mass_matrix": {"id": "hmc.mass.matrix", "type": "Parameter", "tensor": M.tolist()},
            "adaptors": [], "disable_adaptation": True}


def _arr(params):
    return np.concatenate([p.tensor.detach().numpy().reshape(-1) for p in params]).copy()


N_ANSWERS = 24


def answers(d, first, seed):
    """pairwise different standard-normal answers for the successive momentum draws of one
    step (generic, magnitudes 0.5 .. 2.2)"""
    ks = (6, 9, 3, 12, 5, 10, 1, 14) if first == 0 else (9, 6, 12, 3, 10, 5, 14, 1)
    out = []
    for j in range(N_ANSWERS):
        _, p = corner(d, ks[j % len(ks)], seed)
        out.append(p * (1.0 + 0.045 * (j // len(ks)) + 0.02 * j))
    return out


def run_op(case, tab, seed):
    import torch

    kind, d, split = tab[case["target"]]
    target = oracle_target(kind, d)
    M = ref.mass_menu(d)[case["mass"]]
    eps, L = case["eps"], case["L"]
    q0, _ = corner(d, 0 if case["z"] == 0 else 15, seed)
    zs = answers(d, case["z"], seed)
    res = {"bad": [], "status": None, "metrics": {}}
    fail = case["fail"]
    n_fail = fail["trials"] if fail else 0
    # every answer that can become the momentum of a trajectory must give a regular one
    relevant = zs[:1] if fail is None else zs
    for z in relevant:
        status, amp = classify(target, M, q0, momentum_of(M, z), eps, L)
        if status != "stable":
            res["status"] = "unstable_excluded"
            return res
    res["status"] = "stable"
    spec, ids = target_spec(kind, d, split, q0)
    e_ctor = other_eps(eps) if case["mode"] == "tuned" else float(eps)
    dic = tt.load(spec + [{"id": "lf", "type": "LeapfrogIntegrator", "steps": int(L), "step_size": e_ctor}])
    params = [dic[i] for i in ids]
    a = float(dic["joint"]())
    b = target.logp(q0)
    if not abs(a - b) <= 1e-9 * (1 + abs(b)):
        raise RuntimeError(f"{case['target']}: JSON target {a!r} vs oracle {b!r}")
    rec = IntegratorRecorder(dic["lf"], params)
    dic["lf.rec"] = rec
    joint_ref = "joint"
    normals = list(zs)
    if fail is not None:
        if fail["how"] == "inject":
            dic["joint.inj"] = JointInjector(dic["joint"], fail["pos"], n_fail)
            joint_ref = "joint.inj"
        else:
            normals = [big_answer(M)] * n_fail + normals
    M_init = mass_alt(d, case["mass"]) if case["mode"] in ("replaced", "loaded") else M
    tt.load(operator_spec(ids, eps, L, M_init, joint=joint_ref, integrator="lf.rec"), dic)
    op = dic["hmc.operator"]
    if case["mode"] == "replaced":
        dic["hmc.mass.matrix"].tensor = torch.tensor(np.asarray(M))
    elif case["mode"] == "tuned":
        op.set_adaptable_parameter(math.log(eps))
    elif case["mode"] == "loaded":
        # the state of an operator that has mass matrix M, written and read as a checkpoint, loaded into
        # an operator built with another mass matrix (a resumed run after the mass matrix was adapted)
        from torchtree.core.parameter_encoder import ParameterEncoder
        from torchtree.core.utils import TensorDecoder

        spec_d, ids_d = target_spec(kind, d, split, q0)
        donor = tt.load(spec_d + [{"id": "lf", "type": "LeapfrogIntegrator", "steps": int(L), "step_size": float(eps)}])
        tt.load(operator_spec(ids_d, eps, L, M, joint="joint", integrator="lf"), donor)
        state = json.loads(json.dumps(donor["hmc.operator"].state_dict(), cls=ParameterEncoder), cls=TensorDecoder)
        op.load_state_dict(state)
    script = Script(normals)
    prelude = case.get("prelude")
    try:
        with scripted(script):
            if prelude:
                # an earlier step of the same operator, accepted or rejected by the chain
                h_first = op.step()
                if prelude == "accept" and math.isfinite(float(h_first)):
                    op.accept()
                else:
                    op.reject()
                q0 = _arr(params)
                rec.calls.clear()
                status, amp = classify(target, M, q0, momentum_of(M, normals[script.n_normal]), eps, L)
                if status != "stable":
                    res["status"] = "unstable_excluded"
                    return res
            h = op.step()
    except ScriptExhausted:
        raise RuntimeError(f"{case}: more than {len(normals)} momentum draws in one step")
    except Exception as e:
        if fail is not None:
            # an exception escaping step() after a numerical failure is a loud failure
            res["metrics"]["failed_loudly"] = f"{type(e).__name__}: {e}"
        else:
            res["bad"].append(("operator_raises", f"{type(e).__name__}: {e}"))
        return res
    hval = float(h)
    q_after = _arr(params)
    res["metrics"]["draws"] = script.n_normal
    if fail is not None and fail["how"] == "inject":
        res["metrics"]["nan_given"] = dic["joint.inj"].given
    if math.isinf(hval):
        # the operator signals "no proposal": the chain rejects and restores (nothing to demand)
        res["metrics"]["gave_up"] = True
        return res
    if math.isnan(hval):
        res["bad"].append(("hastings_nan", f"step() returned NaN; positions {q_after.tolist()}"))
        return res
    last_ok = bool(rec.calls) and rec.calls[-1]["ok"]
    if np.array_equal(q_after, q0) and not last_ok:
        # finite value, nothing moved, no trajectory completed last: a null move
        res["metrics"]["null_move"] = True
        return res
    if not last_ok:
        res["bad"].append(("positions_left",
                           f"step() returned {hval!r} and moved the positions to {q_after.tolist()} although "
                           f"the last integrator call did not complete"))
        return res
    c = rec.calls[-1]
    if not np.array_equal(c["q_in"], q0):
        res["bad"].append(("trajectory_start",
                           f"after {len(rec.calls) - 1} earlier integrator call(s) / {script.n_normal} momentum "
                           f"draws the trajectory started at {c['q_in'].tolist()}, the current state is "
                           f"{q0.tolist()}"))
    if not np.array_equal(q_after, c["q_out"]):
        res["bad"].append(("positions_left",
                           f"integrator ended at {c['q_out'].tolist()}, parameters hold {q_after.tolist()}"))
    K0 = ref.kinetic(c["p_in"], M)
    K1 = ref.kinetic(c["p_out"], M)
    want = K0 - K1
    tol = K_TOL * (1.0 + abs(K0) + abs(K1))
    res["metrics"]["hastings"] = abs(hval - want) / tol if math.isfinite(hval) else math.inf
    res["metrics"]["hval"] = hval
    if not abs(hval - want) <= tol:
        U0 = -target.logp(q0)
        U1 = -target.logp(c["q_out"])
        res["bad"].append(("hastings_is_kinetic_change",
                           f"step() returned {hval!r}; K(p0) - K(p1) = {K0!r} - {K1!r} = {want!r} for "
                           f"p0={c['p_in'].tolist()} p1={c['p_out'].tolist()} mass={np.asarray(M).tolist()} "
                           f"(U0 - U1 = {U0 - U1!r})"))
    return res


# -- mcmc cases -------------------------------------------------------------------------------

def mcmc_cases(tier):
    tab = target_table(tier)
    out = []
    for name in tab:
        for mass in ("ones", "diag1", "dense1"):
            for eps, L in MCMC_EL:
                for zi in (0, 1):
                    out.append({"kind": "mcmc", "target": name, "mass": mass, "eps": eps, "L": L, "z": zi})
    return out


def _mcmc_once(kind, d, split, q0, eps, L, M, z, u):
    spec, ids = target_spec(kind, d, split, q0)
    dic = tt.load(spec + [{"id": "lf", "type": "LeapfrogIntegrator", "steps": int(L), "step_size": float(eps)}])
    params = [dic[i] for i in ids]
    rec = IntegratorRecorder(dic["lf"], params)
    dic["lf.rec"] = rec
    mc = {"id": "mcmc", "type": "MCMC", "joint": "joint", "iterations": 1, "every": 0,
          "checkpoint_frequency": 10 ** 9,
          "operators": [operator_spec(ids, eps, L, M, integrator="lf.rec")]}
    tt.load(mc, dic)
    script = Script([z], [u])
    with scripted(script):
        with contextlib.redirect_stdout(io.StringIO()):
            dic["mcmc"].run()
    return rec, _arr(params), script


def run_mcmc(case, tab, seed):
    kind, d, split = tab[case["target"]]
    target = oracle_target(kind, d)
    M = ref.mass_menu(d)[case["mass"]]
    eps, L = case["eps"], case["L"]
    q0, _ = corner(d, 0 if case["z"] == 0 else 15, seed)
    z = z_menu(d, case["z"], seed)
    res = {"bad": [], "status": None, "metrics": {}}
    status, amp = classify(target, M, q0, momentum_of(M, z), eps, L)
    if status != "stable":
        res["status"] = "unstable_excluded"
        return res
    res["status"] = "stable"
    try:
        rec, _, _ = _mcmc_once(kind, d, split, q0, eps, L, M, z, 0.5)
    except ScriptExhausted:
        res["bad"].append(("unexpected_retry", "more random draws than one momentum and one uniform"))
        return res
    except Exception as e:
        res["bad"].append(("mcmc_raises", f"{type(e).__name__}: {e}"))
        return res
    good = [c for c in rec.calls if c["ok"]]
    if len(good) != 1 or len(rec.calls) != 1:
        res["bad"].append(("integrator_calls", f"{len(good)}/{len(rec.calls)} completed integrator calls"))
        return res
    c = good[0]
    q1 = c["q_out"]
    dH = hamiltonian(target, M, q1, c["p_out"]) - hamiltonian(target, M, c["q_in"], c["p_in"])
    if not math.isfinite(dH):
        res["status"] = "non_finite_excluded"
        return res
    acc = math.exp(min(0.0, -dH))
    res["metrics"]["acc"] = acc
    res["metrics"]["dH"] = dH
    trials = []
    if acc >= 1.0:
        trials.append((1.0 - 1e-12, True))
    elif acc > 1e-300:
        trials.append((acc * (1.0 - 1e-6), True))
        trials.append((min(acc * (1.0 + 1e-6), 1.0 - 1e-16), False))
    for u, expect in trials:
        try:
            rec2, q_after, _ = _mcmc_once(kind, d, split, q0, eps, L, M, z, u)
        except Exception as e:
            res["bad"].append(("mcmc_raises", f"{type(e).__name__}: {e}"))
            return res
        moved = bool(np.array_equal(q_after, q1))
        stayed = bool(np.array_equal(q_after, q0))
        if expect and not moved or (not expect and not stayed):
            res["bad"].append(("acceptance_on_full_hamiltonian",
                               f"H1 - H0 = {dH!r} (oracle) so the acceptance probability is {acc!r}; with "
                               f"uniform draw {u!r} the move must be {'accepted' if expect else 'rejected'}, "
                               f"but the chain is at {q_after.tolist()} (start {q0.tolist()}, proposal "
                               f"{q1.tolist()})"))
            break
    return res


# -- driver -------------------------------------------------------------------------------

RUNNERS = {"traj": run_traj, "op": run_op, "mcmc": run_mcmc, "block": run_block}
_TAB = {}


def _tab(tier):
    if tier not in _TAB:
        _TAB[tier] = target_table(tier)
    return _TAB[tier]


def _work(chunk):
    out = []
    for tier, seed, case in chunk:
        r = RUNNERS[case["kind"]](case, _tab(tier), seed)
        out.append((case, r))
    return out


def sig_of(case, name):
    kind = _tab("thorough")[case["target"]][0]
    sig = {"part": case["kind"], "check": name, "model": kind}
    if case["kind"] == "traj":
        sig["how"] = case.get("how", "ctor")
    elif case["kind"] == "op":
        sig["mode"] = case.get("mode")
        sig["failure"] = case["fail"]["how"] if case.get("fail") else None
    return sig


def _order_checks(results, run_violation):
    """energy error order: per (target, mass, eps, L) the largest |dH| over all its points is
    the yardstick for 'non-degenerate'; per way of setting the step size the maxima over the
    corner points at eps and eps/2 are compared, and every non-degenerate point on its own"""
    groups = {}
    for case, r in results:
        if case["kind"] != "traj" or "dH2" not in r["metrics"]:
            continue
        key = (case["target"], case["mass"], case["eps"], case["L"])
        groups.setdefault(key, []).append((case, r["metrics"]))
    st = {"groups": 0, "points": 0, "skipped": 0, "gmin": 2.0, "gmax": 2.0, "pmin": 2.0, "pmax": 2.0}
    for key, allitems in groups.items():
        S = max(abs(m["dH"]) for _, m in allitems)
        Hs = max(abs(m["H0"]) for _, m in allitems)
        if S < 1e-12 * (1 + Hs):
            st["skipped"] += 1
            continue
        for how in HOWS:
            items = [(c, m) for c, m in allitems if c.get("how", "ctor") == how]
            if not items:
                continue
            S1 = max(abs(m["dH"]) for _, m in items)
            S2 = max(abs(m["dH2"]) for _, m in items)
            if S1 < NONDEGENERATE * S:
                continue
            window = ORDER_GROUP if len(items) >= 3 else ORDER_POINT
            st["groups"] += 1
            order = math.log2(S1 / S2) if S2 > 0 else math.inf
            st["gmin"] = min(st["gmin"], order)
            st["gmax"] = max(st["gmax"], order)
            if not window[0] <= order <= window[1]:
                case = items[0][0]
                run_violation(dict(case, group=True),
                              f"energy error over the {len(items)} corner point(s) of {key} (step size set by "
                              f"'{how}'): max|dH| at eps = {S1:.3e}, at eps/2 with 2L steps = {S2:.3e}: order "
                              f"{order:.3f}, expected 2 (window {window})", sig_of(case, "energy_error_order"))
                continue
            for case, m in items:
                if abs(m["dH"]) >= NONDEGENERATE * S and abs(m["dH2"]) > 0:
                    st["points"] += 1
                    o = math.log2(abs(m["dH"]) / abs(m["dH2"]))
                    st["pmin"] = min(st["pmin"], o)
                    st["pmax"] = max(st["pmax"], o)
                    if not ORDER_POINT[0] <= o <= ORDER_POINT[1]:
                        run_violation(case, f"energy error {m['dH']:.6e} at eps={case['eps']}, L={case['L']} and "
                                      f"{m['dH2']:.6e} at eps/2, 2L: order {o:.3f}, expected 2 (window "
                                      f"{ORDER_POINT})", sig_of(case, "energy_error_order"))
    return st


def run(run):
    ref.self_test()
    tier, seed = run.tier, run.seed
    tt.boot()
    cases = traj_cases(tier) + op_cases(tier) + mcmc_cases(tier) + block_cases(tier)
    closed_form = 0
    for name, (kind, d, split) in _tab(tier).items():
        if len(split) >= 2:
            closed_form += len(split) * len(BLOCK_EL) * len(corner_ids(d, tier)[:3])         # block histories
        nm = len(masses(tier))
        closed_form += nm * len(EPS) * len(STEPS) * len(corner_ids(d, tier))          # traj, constructed
        closed_form += (nm if tier == "thorough" else 2) * len(EPS) * len(STEPS) * 3   # traj, other ways
        closed_form += nm * len(OP_EL) * 2 * 6                                         # op, no failure
        closed_form += 2 * ((3 + 3) * 2 + 2) + (2 * 5 if kind == "gamma" else 0)       # op, failures
        closed_form += 3 * len(MCMC_EL) * 2                                            # mcmc
    if closed_form != len(cases) or len({jdump(c) for c in cases}) != len(cases):
        raise RuntimeError(f"enumeration produced {len(cases)} cases, closed form says {closed_form}")
    items = [(tier, seed, c) for c in cases]
    # interleave so that every chunk has the same mix of cheap and expensive cases
    n_chunks = 16 * 12
    chunks = [items[i::n_chunks] for i in range(n_chunks)]
    results = [x for chunk in pmap(_work, chunks) for x in chunk]
    results.sort(key=lambda cr: jdump(cr[0]))
    counts = {}
    status = {}
    distinct = set()
    worst = {"rev": 0.0, "det": 0.0, "hastings": 0.0}
    jac_done = jac_skipped = jac_unresolved = jac_refined = 0
    fail_planned = fail_effective = gave_up = loud = 0
    for case, r in results:
        counts[case["kind"]] = counts.get(case["kind"], 0) + 1
        k = case["kind"] + ":" + str(r["status"])
        status[k] = status.get(k, 0) + 1
        m = r["metrics"]
        if r["status"] == "stable":
            if case["kind"] == "traj":
                distinct.add(f"{m.get('dH', 0.0):.10e}")
            elif case["kind"] == "op" and "hval" in m:
                distinct.add(("op", f"{m['hval']:.10e}", case["mode"], jdump(case["fail"]), case.get("prelude")))
            elif case["kind"] == "mcmc" and "acc" in m:
                distinct.add(("mcmc", f"{m['dH']:.10e}"))
        if case["kind"] == "op" and case["fail"] and r["status"] == "stable":
            fail_planned += 1
            want = min(case["fail"]["trials"], 10)
            if m.get("nan_given", 0) == want or m.get("draws", 0) >= want + (1 if want < 10 else 0):
                fail_effective += 1
            gave_up += 1 if m.get("gave_up") else 0
            loud += 1 if m.get("failed_loudly") else 0
        if "rev" in m:
            worst["rev"] = max(worst["rev"], m["rev"])
        if "det" in m:
            jac_done += 1
            worst["det"] = max(worst["det"], abs(m["det"]))
        if m.get("jac_skipped"):
            jac_skipped += 1
        if "jac_unresolved" in m:
            jac_unresolved += 1
        if m.get("det_level", 1) > 1:
            jac_refined += 1
        if "hastings" in m and math.isfinite(m["hastings"]):
            worst["hastings"] = max(worst["hastings"], m["hastings"])
        seen = set()
        for name, detail in r["bad"]:
            if name in seen:
                continue
            seen.add(name)
            run.violation(dict(case, seed=seed), f"{case}: {name}: {detail}", sig_of(case, name))
    ost = _order_checks(results, lambda c, d_, s_: run.violation(dict(c, seed=seed), d_, s_))
    if os.environ.get("C16_DUMP"):
        with open(os.environ["C16_DUMP"], "w") as fp:
            json.dump([[c, {"status": r["status"], "metrics": r["metrics"], "bad": r["bad"]}]
                       for c, r in results], fp, default=float)
    stable_traj = status.get("traj:stable", 0)
    if stable_traj < 0.8 * counts.get("traj", 1):
        raise RuntimeError(f"only {stable_traj} of {counts.get('traj')} trajectories are in the regular regime")
    samples = [cases[0], cases[len(cases) // 3]]
    samples += [c for c in cases if c["kind"] == "op" and c["fail"]][:1]
    samples += [c for c in cases if c["kind"] == "mcmc"][:1]
    cov = {
        "evaluations": len(results),
        "distinct_nontrivial": len(distinct),
        "rule": "traj: every target x mass(8; quick 6) x eps(5) x L(6) x corner point with the integrator constructed "
                "with (eps, L), plus every target x mass x eps x L x {step size assigned, state_dict loaded, "
                "tuned through the operator} on one rotating corner; op: every target x mass(8; quick 6) x (eps,L)(4) x "
                "first answer(2) x {as constructed, mass matrix replaced, step size tuned, state loaded from a checkpoint of an operator with another mass matrix, second step after an accepted / rejected first step} + every NaN position "
                "of a trial x {1,2,10} failing trials (+ natural overflow failures on the gamma targets); mcmc: "
                "every target x mass(3) x (eps,L)(3) x answer(2) x uniform just below/above the oracle "
                "acceptance probability.  non-trivial = regular-regime elements with pairwise different energy "
                "errors (traj), Hastings values per operator scenario (op), Hamiltonian differences (mcmc)",
        "samples": samples,
        "exhaustive": True,
        "space_size": len(cases),
        "space_size_closed_form": closed_form,
        "traj_cases": counts.get("traj", 0),
        "op_cases": counts.get("op", 0),
        "mcmc_cases": counts.get("mcmc", 0),
        "status_counts": status,
        "op_failure_scenarios": fail_planned,
        "op_failure_scenarios_in_which_the_planned_trials_failed": fail_effective,
        "op_failure_scenarios_ending_without_proposal": gave_up,
        "op_failure_scenarios_ending_in_an_exception": loud,
        "jacobians_evaluated": jac_done,
        "jacobians_skipped_amplification": jac_skipped,
        "jacobians_unresolved_by_finite_differences": jac_unresolved,
        "jacobians_needing_extrapolation": jac_refined,
        "order_groups_evaluated": ost["groups"],
        "order_points_evaluated": ost["points"],
        "order_groups_below_roundoff": ost["skipped"],
        "observed_group_order_min": round(ost["gmin"], 4),
        "observed_group_order_max": round(ost["gmax"], 4),
        "observed_point_order_min": round(ost["pmin"], 4),
        "observed_point_order_max": round(ost["pmax"], 4),
        "worst_reversibility_over_tolerance": worst["rev"],
        "worst_abs_det_minus_1": worst["det"],
        "worst_hastings_over_tolerance": worst["hastings"],
        "targets": sorted(_tab(tier)),
        "tolerances": {"reversibility": f"{REV_TOL} (1+L) max(1, A), A = largest entry of the Jacobian of a "
                                        f"numpy reference leapfrog map",
                       "determinant": DET_TOL, "fd_step": FD_H, "fd_accept_at_once": DET_SURE,
                       "fd_instrument_error_at_most": DET_RESOLVED, "order_group_window": ORDER_GROUP,
                       "order_point_window": ORDER_POINT, "hastings_rel": K_TOL,
                       "regular_regime": f"reference trajectory (forth and back) within +-{BIG}",
                       "jacobian_evaluated_if_A_at_most": AMP_MAX},
    }
    return run.finish(cov, assumptions=[
        "positions and momenta on corner points of {+-0.5, +-1.5}^(2d) moved by at most 0.04 by VERIF_SEED; "
        "step sizes, step counts, mass matrices and targets from fixed menus",
        "trajectories that a plain numpy leapfrog shows to leave +-1e2 (step size beyond the stability limit "
        "of the stiff exp-transformed targets) are excluded from the identities; there the integrator may "
        "raise ValueError (fails loudly) - counted in status_counts",
        "the momentum distribution itself is not examined (not part of the statement); the momentum that "
        "actually enters the integrator is observed and used for the oracle kinetic energy",
        "energy error order is asserted for eps <= 0.05 on the maximum over the corner points of each "
        "(target, mass, eps, L) and per point where the error is at least 20% of that maximum",
    ])


def replay(case):
    ref.self_test()
    tt.boot()
    seed = int(case.get("seed", os.environ.get("VERIF_SEED", "0") or 0))
    case = {k: v for k, v in case.items() if k != "seed"}
    tab = _tab("thorough")
    out = []
    if case.get("group"):
        base = {k: v for k, v in case.items() if k != "group"}
        kind, d, split = tab[base["target"]]
        results = []
        for k in corner_ids(d, "thorough"):
            c = dict(base, corner=k, jac=False)  # all corners of the cell
            results.append((c, run_traj(c, tab, seed)))
        for c, r in results:
            for name, detail in r["bad"]:
                out.append({"case": c, "detail": f"{name}: {detail}", "sig": sig_of(c, name)})
        _order_checks(results, lambda c, d_, s: out.append({"case": c, "detail": d_, "sig": s}))
        return out
    r = RUNNERS[case["kind"]](case, tab, seed)
    for name, detail in r["bad"]:
        out.append({"case": case, "detail": f"{name}: {detail}", "sig": sig_of(case, name)})
    if case["kind"] == "traj" and "dH2" in r["metrics"]:
        # the order check needs the other corner points of the cell as yardstick
        kind, d, split = tab[case["target"]]
        cell = []
        for k in corner_ids(d, "thorough"):
            c = dict(case, corner=k, jac=False)
            cell.append((c, r if k == case["corner"] else run_traj(c, tab, seed)))
        found = []
        _order_checks(cell, lambda c, d_, s: found.append({"case": c, "detail": d_, "sig": s}))
        out += [v for v in found if v["case"].get("group") or v["case"]["corner"] == case["corner"]]
    return out
