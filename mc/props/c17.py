"""C17 - a checkpoint restores the whole run state; resuming continues the same run.

Explicit exploration of restart histories on the real implementation.  For every
configuration (Optimizer x torch optimiser x scheduler x dtype x tensor kind x shape
x parameter groups x checkpoint mode / frequency; MCMC x operator set x adaptor
combination x dtype; four programs written by torchtree-cli) one uninterrupted run of N
iterations is executed through the real entry point `torchtree.torchtree.main`
(in-process, on an in-memory file system) with a checkpoint after every iteration.  The
harness wraps `run` / `save_full_state` of the two algorithm classes from outside and
records, at every checkpoint, the file written, `state_dict()`, every parameter (value,
dtype, nn-ness, shape) and the state of the pseudo-random generator.

Then EVERY interruption point k = 1..N, every pair k1 < k2 (and, for some configurations,
every triple) of successive interruptions is explored: `main` is run again with
`-c <file k>`, the generator is put back to its state at k at the moment the algorithm
starts (torchtree does not checkpoint the generator; that is what makes the run
"deterministic" in the sense of the property) and the run continues to N; the next
interruption restarts from the file the RESUMED run wrote.

Oracle (differential: the uninterrupted run is the reference; nothing is re-implemented)
  checkpoint_write_fails  the uninterrupted run dies while writing a checkpoint
  restart_raises      restarting raised, or main() swallowed an error and never started
                      the algorithm
  param_roundtrip     a parameter differs (value, dtype, nn, shape) right after loading
  state_roundtrip     state_dict() right after loading differs from the one at k (deep: key
                      types, tensor dtypes, exact values; tuple == list; conversions torch's
                      own Optimizer.load_state_dict performs are not counted)
  resumed_run_raises  the resumed run raises where the uninterrupted one did not
  iteration_counter   the resumed run does not execute exactly the iterations k+1..N
                      (their number, the iteration numbers / file names it writes)
  trajectory          a parameter state after k differs from the uninterrupted run
                      (bit-exact), or - the parameters still agreeing - the run state does:
                      had everything the run needs been restored, the resumed run would be
                      the same deterministic run (this is how state that state_dict() does
                      not even contain is observed)
A failure right after loading ends the judgement of that history (what follows is a
consequence); the iteration counter is judged independently.
"""
import contextlib
import io
import itertools
import json
import os
import re
import sys
import traceback

from mc.env import fsim, tt
from mc.runner import jdump, pmap

LEVEL = "model_checking"
SPEC = fsim.PREFIX + "spec.json"
CKPT = fsim.PREFIX + "ckpt.json"
GRAPHS = os.path.join(os.path.dirname(os.path.dirname(os.path.abspath(__file__))),
                      "builders", "graphs")


# ---------------------------------------------------------------------------------
# observation: canonical, comparable form of arbitrary run state
# ---------------------------------------------------------------------------------

def _vals(t):
    return tuple(repr(v) for v in t.detach().reshape(-1).tolist())


def flat(o, path, out):
    """Flatten a state object into {path: leaf}.  Dictionary keys carry their type
    (0 and "0" are different keys), tensors carry dtype / nn-ness / shape / exact
    values, tuples, lists and deques are all sequences."""
    import collections

    import torch
    from torchtree.core.abstractparameter import AbstractParameter

    if isinstance(o, torch.Tensor):
        out[path] = ("tensor", str(o.dtype), isinstance(o, torch.nn.Parameter),
                     tuple(o.shape), _vals(o))
    elif isinstance(o, AbstractParameter):
        out[path + ".id"] = ("str", o.id)
        flat(o.tensor, path + ".tensor", out)
    elif isinstance(o, dict):
        out[path + "{}"] = ("keys", len(o))
        for k, v in o.items():
            plain = isinstance(k, str) and not k.lstrip("-").isdigit()
            flat(v, f"{path}.{k}" if plain else f"{path}.<{type(k).__name__}>{k}", out)
    elif isinstance(o, (list, tuple, collections.deque)):
        out[path + "[]"] = ("len", len(o))
        for i, v in enumerate(o):
            flat(v, f"{path}[{i}]", out)
    elif isinstance(o, bool):
        out[path] = ("bool", o)
    elif isinstance(o, int):
        out[path] = ("int", o)
    elif isinstance(o, float):
        out[path] = ("float", repr(o))
    elif o is None:
        out[path] = ("none",)
    elif isinstance(o, str):
        out[path] = ("str", o)
    else:
        try:
            import numpy as np

            if isinstance(o, np.integer):
                out[path] = ("int", int(o))
                return
            if isinstance(o, np.floating):
                out[path] = ("float", repr(float(o)))
                return
        except ImportError:
            pass
        out[path] = ("object", type(o).__name__, repr(o)[:80])


def flat_state(sd):
    out = {}
    flat({k: v for k, v in sd.items() if k != "iteration"}, "", out)
    return out


def observe_params(algo):
    import torch

    out = []
    for p in algo.parameters:
        t = p.tensor
        out.append([p.id, str(t.dtype), isinstance(t, torch.nn.Parameter), list(t.shape),
                    list(_vals(t))])
    return out


def pclass(path):
    """class of a state path: first three components, numbers replaced by N"""
    parts = [p for p in re.sub(r"\[\d*\]|\{\}", "", path).split(".") if p]
    return re.sub(r"\d+", "N", ".".join(parts[:3]))


def diff_state(want, got):
    out = []
    for p in sorted(set(want) | set(got)):
        if p not in got:
            out.append((p, "missing", want[p], None))
        elif p not in want:
            out.append((p, "unexpected", None, got[p]))
        elif want[p] != got[p]:
            out.append((p, "changed", want[p], got[p]))
    return out


def diff_params(want, got):
    """-> list of (aspect, text)"""
    if [w[0] for w in want] != [g[0] for g in got]:
        return [("ids", f"parameters {[w[0] for w in want]} vs {[g[0] for g in got]}")]
    out = []
    for w, g in zip(want, got):
        for i, aspect in ((1, "dtype"), (2, "nn"), (3, "shape"), (4, "value")):
            if w[i] != g[i]:
                out.append((aspect, f"{w[0]}: {aspect} {_short(w[i])} expected, {_short(g[i])} found"))
                break
    return out


_STATE_TENSOR = re.compile(r"^\.optimizer\.state\.<int>(\d+)\.(\w+)$")


def split_torch_casts(d, params):
    """torch.optim.Optimizer.load_state_dict itself converts every floating-point state tensor
    except `step` to the dtype of its parameter (an in-memory torch round trip does the same,
    e.g. ASGD's eta/mu under a float64 default with float32 parameters).  Such entries are
    not a loss of the torchtree checkpoint: -> (other differences, converted entries)."""
    import torch

    rest, casts = [], []
    for entry in d:
        p, kind, w, g = entry
        m = _STATE_TENSOR.match(p)
        ok = False
        if m and kind == "changed" and w[0] == g[0] == "tensor" and m.group(2) != "step":
            i = int(m.group(1))
            if i < len(params) and g[1] == params[i][1] and w[1] != g[1] and w[2:4] == g[2:4]:
                dt = getattr(torch, g[1].split(".")[-1])
                conv = tuple(repr(v) for v in torch.tensor([float(v) for v in w[4]],
                                                           dtype=torch.float64).to(dt).tolist())
                ok = conv == g[4]
        (casts if ok else rest).append(entry)
    return rest, casts


def _short(v):
    s = str(v)
    return s if len(s) <= 120 else s[:117] + "..."


# ---------------------------------------------------------------------------------
# instrumentation (from outside: class attributes of the two algorithm classes)
# ---------------------------------------------------------------------------------

class Rec:
    def __init__(self):
        self.entry = None
        self.entry_error = None
        self.saves = []
        self.final = None
        self.started = False
        self.finished = False
        self.error = None
        self.where = None
        self.frames = []
        self.logged = []


class _LogShim:
    """stands in for the `logging` module inside torchtree.torchtree: main() swallows
    JSONParseError into logging.error, which must not go unnoticed"""

    def __init__(self, rec):
        self.rec = rec

    def basicConfig(self, *a, **k):
        pass

    def error(self, e, *a, **k):
        self.rec.logged.append(str(e))

    def __getattr__(self, name):
        import logging

        return getattr(logging, name)


@contextlib.contextmanager
def instrument(rec, fs, rng_state):
    import torch
    import torchtree.torchtree as ttmain
    from torchtree.inference.mcmc.mcmc import MCMC
    from torchtree.optim.optimizer import Optimizer

    def make_run(orig):
        def run(self):
            try:
                sd = self.state_dict()
                rec.entry = {"state": flat_state(sd), "params": observe_params(self)}
            except Exception as e:  # state unusable after loading
                rec.entry_error = f"{type(e).__name__}: {e}"
            if rng_state is not None:
                torch.set_rng_state(rng_state)
            rec.started = True
            try:
                orig(self)
                rec.finished = True
            finally:
                rec.final = observe_params(self)

        return run

    def make_save(orig):
        def save_full_state(self, *a, **k):
            orig(self, *a, **k)
            name = a[0] if a else k.get("checkpoint", self.checkpoint)
            content = fs.files[name]
            head = json.loads(content)[0]
            rec.saves.append({
                "file": name,
                "content": content,
                "iteration": head.get("iteration"),
                "state": flat_state(self.state_dict()),
                "params": observe_params(self),
                "rng": torch.get_rng_state().clone(),
            })

        return save_full_state

    saved = [(Optimizer, "run", Optimizer.__dict__["run"]),
             (MCMC, "run", MCMC.__dict__["run"]),
             (Optimizer, "save_full_state", Optimizer.__dict__["save_full_state"]),
             (MCMC, "save_full_state", MCMC.__dict__["save_full_state"]),
             (ttmain, "logging", ttmain.logging)]
    Optimizer.run = make_run(saved[0][2])
    MCMC.run = make_run(saved[1][2])
    Optimizer.save_full_state = make_save(saved[2][2])
    MCMC.save_full_state = make_save(saved[3][2])
    ttmain.logging = _LogShim(rec)
    try:
        yield
    finally:
        for obj, name, val in saved:
            setattr(obj, name, val)


def run_main(files, argv, rng_state=None, seed=None):
    """One execution of the real entry point on an in-memory file system."""
    import numpy as np
    import torch
    import torchtree.torchtree as ttmain

    rec = Rec()
    fs = fsim.CrashFS(files)
    old_argv = sys.argv
    sys.argv = ["torchtree"] + list(argv)
    sink = io.StringIO()
    if seed is not None:
        torch.manual_seed(seed)
        np.random.seed(seed)
    try:
        with fs.mounted(), instrument(rec, fs, rng_state), \
                contextlib.redirect_stdout(sink), contextlib.redirect_stderr(sink):
            try:
                ttmain.main()
            except fsim.Unsupported:
                raise
            except SystemExit as e:
                if e.code not in (0, None):
                    rec.error = f"SystemExit({e.code})"
            except Exception as e:
                rec.error = f"{type(e).__name__}: {e}"
                tb = traceback.extract_tb(e.__traceback__)
                rec.frames = [f.name for f in tb]
                inside = [f for f in tb if "/torchtree/" in f.filename]
                if inside:
                    f = inside[-1]
                    rec.where = f"{f.filename.split('/torchtree/', 1)[-1]}:{f.lineno} in {f.name}"
    finally:
        sys.argv = old_argv
        torch.set_default_dtype(torch.float64)
    if rec.error is None and rec.logged:
        rec.error = "JSONParseError (logged, run skipped): " + rec.logged[0]
    rec.files = fs.files
    return rec


# ---------------------------------------------------------------------------------
# configurations -> JSON programs
# ---------------------------------------------------------------------------------

def offs(seed, i):
    """generic continuous offset in [0, 0.25) derived from VERIF_SEED"""
    return ((seed * 0.6180339887 + i * 0.3819660113 + 0.137 * seed * i) % 1.0) * 0.25


OPT = "torch.optim."
ALGOS = {
    "SGD": (OPT + "SGD", {"lr": 0.05}),
    "SGD-momentum": (OPT + "SGD", {"lr": 0.05, "momentum": 0.9}),
    "SGD-nesterov": (OPT + "SGD", {"lr": 0.05, "momentum": 0.9, "nesterov": True,
                                   "weight_decay": 0.01}),
    "Adagrad": (OPT + "Adagrad", {"lr": 0.05}),
    "RMSprop": (OPT + "RMSprop", {"lr": 0.02}),
    "RMSprop-centered": (OPT + "RMSprop", {"lr": 0.02, "momentum": 0.5, "centered": True}),
    "Adam": (OPT + "Adam", {"lr": 0.05}),
    "Adam-amsgrad": (OPT + "Adam", {"lr": 0.05, "amsgrad": True, "betas": [0.8, 0.95]}),
    "AdamW": (OPT + "AdamW", {"lr": 0.05}),
    "Adamax": (OPT + "Adamax", {"lr": 0.05}),
    "Adadelta": (OPT + "Adadelta", {"lr": 1.0}),
    "NAdam": (OPT + "NAdam", {"lr": 0.05}),
    "RAdam": (OPT + "RAdam", {"lr": 0.05}),
    "Rprop": (OPT + "Rprop", {"lr": 0.02}),
    "ASGD": (OPT + "ASGD", {"lr": 0.05, "t0": 2}),
    "Adafactor": (OPT + "Adafactor", {"lr": 0.05}),
    "LBFGS": (OPT + "LBFGS", {"lr": 0.5, "max_iter": 3, "history_size": 4}),
    "LBFGS-wolfe": (OPT + "LBFGS", {"lr": 1.0, "max_iter": 3, "history_size": 4,
                                    "line_search_fn": "strong_wolfe"}),
}
LRS = "torch.optim.lr_scheduler."
SCHEDS = {
    "none": None,
    "StepLR": {"scheduler": LRS + "StepLR", "step_size": 2, "gamma": 0.5},
    "ExponentialLR": {"scheduler": LRS + "ExponentialLR", "gamma": 0.9},
    # exactly what `torchtree-cli advi` emits
    "LambdaLR": {"scheduler": LRS + "LambdaLR",
                 "lr_lambda": "lambda epoch: 1.0 / (epoch + 1)**0.5"},
    "MultiplicativeLR": {"scheduler": LRS + "MultiplicativeLR",
                         "lr_lambda": "lambda epoch: 0.9"},
    "MultiStepLR": {"scheduler": LRS + "MultiStepLR", "milestones": [2, 4], "gamma": 0.5},
    "ConstantLR": {"scheduler": LRS + "ConstantLR", "factor": 0.5, "total_iters": 3},
    "LinearLR": {"scheduler": LRS + "LinearLR", "start_factor": 0.5, "total_iters": 4},
    "PolynomialLR": {"scheduler": LRS + "PolynomialLR", "total_iters": 5, "power": 2.0},
    "CosineAnnealingLR": {"scheduler": LRS + "CosineAnnealingLR", "T_max": 4},
    "CosineAnnealingWarmRestarts": {"scheduler": LRS + "CosineAnnealingWarmRestarts",
                                    "T_0": 3},
    "CyclicLR": {"scheduler": LRS + "CyclicLR", "base_lr": 0.01, "max_lr": 0.08,
                 "step_size_up": 2, "cycle_momentum": False},
    "OneCycleLR": {"scheduler": LRS + "OneCycleLR", "max_lr": 0.08, "total_steps": 20,
                   "cycle_momentum": False},
}
DTYPES = ("f64", "f32spec", "f32cli", "f32like")


INITS = {  # every way the specification language has of giving a parameter its initial value
    "full": {"full": [2], "tensor": 0.7},
    "zeros": {"zeros": [2]},
    "ones": {"ones": [2]},
    "zeros_like": {"zeros_like": "x"},
    "ones_like": {"ones_like": "x"},
    "full_like": {"full_like": "x", "tensor": 0.7},
    "arange": {"arange": [1.0, 3.0]},
    "dimension": {"tensor": [0.7, -0.2], "dimension": 3},
}


def param(id_, values, cfg, like=None):
    p = {"id": id_, "type": "Parameter"}
    if cfg.get("init") and id_ == "y":
        p.update(INITS[cfg["init"]])
        return p
    if like is not None and cfg["dtype"] == "f32like":
        # dtype inherited from another parameter, as the specification language allows
        p["full_like"] = like
        p["tensor"] = values if not isinstance(values, list) else values[0]
    else:
        p["tensor"] = values
        if cfg["dtype"] in ("f32spec", "f32like"):
            p["dtype"] = "torch.float32"
    if cfg.get("nn"):
        p["nn"] = True
    return p


def dist(id_, name, x, **parameters):
    return {"id": id_, "type": "Distribution", "distribution": "torch.distributions." + name,
            "x": x, "parameters": parameters}


def opt_program(cfg, seed):
    a, b = 0.5 + offs(seed, 1), 1.5 - offs(seed, 2)
    if cfg["shape"] == "1d":
        xv, yv = [a, b], [0.7 + offs(seed, 3)]
    else:  # two-dimensional parameters (leading sample dimension)
        xv, yv = [[a, b, -0.4]], [[0.7 + offs(seed, 3)]]
    joint = {
        "id": "joint", "type": "JointDistributionModel",
        "distributions": [
            dist("like", "Normal", param("x", xv, cfg), loc=0.3, scale=1.2),
            dist("prior", "Cauchy", param("y", yv, cfg, like="x"), loc=0.2, scale=0.8),
        ],
    }
    algo, options = ALGOS[cfg["algo"]]
    if cfg.get("groups"):
        params = [{"params": ["x"], "lr": options["lr"] * 0.5}, {"params": ["y"]}]
    else:
        params = ["x", "y"]
    o = {
        "id": "opt", "type": "Optimizer", "algorithm": algo, "options": dict(options),
        "maximize": True, "loss": "joint", "parameters": params,
        "iterations": cfg["N"], "checkpoint": CKPT, "checkpoint_frequency": cfg["freq"],
    }
    if cfg.get("all"):
        o["checkpoint_all"] = True
    if SCHEDS[cfg["sched"]] is not None:
        o["scheduler"] = dict(SCHEDS[cfg["sched"]], type="torchtree.optim.Scheduler")
    return [joint, o]


# -- MCMC ------------------------------------------------------------------------------

def hmc_operator(kind, cfg):
    """kind: 'hmc' [+ '-as' | '-asr' | '-da'] [+ '-mmd' | '-mmf' | '-mmw' | '-mms' | '-mmr'] [+ '-w']"""
    flags = kind.split("-")[1:]
    dense = "mmf" in flags
    dim = 3
    mass = {"id": "hmc.mass", "type": "Parameter"}
    if dense:
        mass["eye"] = dim
    else:
        mass["ones"] = dim
    if cfg["dtype"] == "f32spec":
        mass["dtype"] = "torch.float32"
    op = {
        "id": "op.hmc", "type": "HMCOperator", "joint": "joint", "parameters": ["x", "w"],
        "weight": 1.0,
        "integrator": {"id": "leapfrog", "type": "LeapfrogIntegrator", "steps": 2,
                       "step_size": 0.2},
        "mass_matrix": mass, "adaptors": [],
    }
    # 'w': the adaptors work inside a window [start, end] that closes before the last checkpoints
    window = {"start": 2, "end": 3} if "w" in flags else {}
    for f in flags:
        if f == "w":
            continue
        if f in ("as", "asr"):
            a = {"id": "ad.step", "type": "AdaptiveStepSize", "integrator": "leapfrog",
                 "target_acceptance_probability": 0.7, **window}
            if f == "asr":
                a["use_acceptance_rate"] = True
            op["adaptors"].append(a)
        elif f == "da":
            op["adaptors"].append({"id": "ad.dual", "type": "DualAveragingStepSize",
                                   "integrator": "leapfrog", "mu": -1.0, **window})
        elif f in ("mmd", "mmf", "mmw", "mms", "mmr"):
            a = {"id": "ad.mass", "type": "MassMatrixAdaptor", "parameters": ["x", "w"],
                 "mass_matrix": "hmc.mass", "update_frequency": 2, **window}
            if f == "mmw":
                a["variance_window"] = 1
            elif f == "mms":
                a["swap_every"] = 3
            elif f == "mmr":
                a["restart_frequency"] = 7
            op["adaptors"].append(a)
        elif f == "noadapt":
            op["disable_adaptation"] = True
        elif f == "frss":
            op["find_reasonable_step_size"] = True
        else:
            raise ValueError(kind)
    return op


def mcmc_operator(kind, cfg):
    if kind.startswith("hmc"):
        return hmc_operator(kind, cfg)
    base, _, flag = kind.partition("-")
    if base == "slide":
        op = {"id": "op.slide", "type": "SlidingWindowOperator", "parameters": ["x", "w"],
              "width": 0.8, "weight": 2.0}
    elif base == "scaler":
        op = {"id": "op.scaler", "type": "ScalerOperator", "parameters": ["y"],
              "scaler": 0.6, "weight": 1.0}
    elif base == "dirichlet":
        op = {"id": "op.dirichlet", "type": "DirichletOperator", "parameters": ["z"],
              "scaler": 40.0, "weight": 1.5}
    else:
        raise ValueError(kind)
    if flag == "noadapt":
        op["disable_adaptation"] = True
    elif flag == "window":
        op["acceptance_window_length"] = 3
    elif flag:
        raise ValueError(kind)
    return op


def gmrf_program(cfg, seed):
    """skygrid prior of the CLI-generated program without the tree likelihood: the tree is
    fixed, the block-update operator moves the log population sizes and the precision"""
    with open(os.path.join(GRAPHS, CLI_GRAPHS["cli-mcmc-skygrid"])) as fp:
        spec = json.load(fp)["spec"]
    taxa = [el for el in spec if el.get("id") == "taxa"][0]
    joint = [el for el in spec if el.get("id") == "joint"][0]
    tree = joint["distributions"][0]["tree_model"]
    prior = {d["id"]: d for d in joint["distributions"][1]["distributions"]}
    theta = prior["coalescent"]["theta"]["x"]
    theta.pop("full", None)
    theta["tensor"] = [3.0 + offs(seed, 1), 2.5 - offs(seed, 2), 2.8 + offs(seed, 3)]
    prior["gmrf"]["precision"]["x"]["tensor"] = [1.5]
    ops = []
    for k in cfg["ops"]:
        base, _, flag = k.partition("-")
        if base == "gmrf":
            op = {"id": "op.gmrf", "type": "GMRFPiecewiseCoalescentBlockUpdatingOperator",
                  "coalescent": "coalescent", "gmrf": "gmrf", "weight": 2.0, "scaler": 1.3}
        elif base == "slideprec":
            op = {"id": "op.prec", "type": "SlidingWindowOperator",
                  "parameters": "gmrf.precision.unres", "weight": 1.0, "width": 0.5}
        else:
            raise ValueError(k)
        if flag == "noadapt":
            op["disable_adaptation"] = True
        ops.append(op)
    return [taxa, tree,
            {"id": "joint", "type": "JointDistributionModel",
             "distributions": [prior["coalescent"], prior["gmrf"], prior["gmrf.precision.prior"],
                               "gmrf.precision"]},
            {"id": "mcmc", "type": "MCMC", "joint": "joint", "iterations": cfg["N"], "every": 0,
             "checkpoint": CKPT, "checkpoint_frequency": cfg["freq"], "operators": ops}]


def mcmc_program(cfg, seed):
    if cfg["ops"][0].startswith("gmrf"):
        return gmrf_program(cfg, seed)
    a, b = 0.5 + offs(seed, 1), 1.5 - offs(seed, 2)
    c = {"dtype": cfg["dtype"]}
    z0 = 0.2 + offs(seed, 4) * 0.4
    kinds = {k.split("-")[0] for k in cfg["ops"]}
    ds = []
    if kinds & {"slide", "hmc"}:
        ds.append(dist("like", "Normal", param("x", [a, b], c), loc=0.3, scale=1.2))
        ds.append(dist("prior.w", "Cauchy", param("w", [0.4 - offs(seed, 5)], c),
                       loc=0.2, scale=0.8))
    if "scaler" in kinds:
        ds.append(dist("prior.y", "Gamma", param("y", [0.7 + offs(seed, 3)], c),
                       concentration=2.0, rate=3.0))
    if "dirichlet" in kinds:
        ds.append(dist("prior.z", "Dirichlet", param("z", [z0, 0.5, 0.5 - z0], c),
                       concentration=[2.0, 3.0, 1.5]))
    joint = {"id": "joint", "type": "JointDistributionModel", "distributions": ds}
    ops = [mcmc_operator(k, cfg) for k in cfg["ops"]]
    m = {"id": "mcmc", "type": "MCMC", "joint": "joint", "iterations": cfg["N"], "every": 0,
         "checkpoint": CKPT, "checkpoint_frequency": cfg["freq"], "operators": ops}
    return [joint, m]


# -- programs generated by torchtree-cli (stored by gen_graphs.py for the other checks) --

CLI_GRAPHS = {
    "cli-mcmc-skygrid": "strict_hky_w4_skygrid.json",   # 7 sliding windows + GMRF block update
    "cli-hmc": "hmc_strict_hky_constant.json",          # MCMC with an HMCOperator
    "cli-advi": "advi_strict_hky_constant.json",        # Adam + LambdaLR on a stochastic ELBO
    "cli-map": "map_horseshoe_jc_constant.json",        # LBFGS
}
RUNNABLE = ("MCMC", "Optimizer")


def cli_program(cfg, seed):
    with open(os.path.join(GRAPHS, CLI_GRAPHS[cfg["graph"]])) as fp:
        spec = json.load(fp)["spec"]
    out = []
    for el in spec:
        if el.get("type") in ("Logger", "TreeLogger", "Sampler"):
            continue
        if el.get("type") in RUNNABLE:
            el = dict(el)
            el.pop("loggers", None)
            # the convergence monitor draws from the generator before the first iteration
            # of every (re)start and may stop the run: not a deterministic run
            el.pop("convergence", None)
            el["iterations"] = cfg["N"]
            el["checkpoint"] = CKPT
            el["checkpoint_frequency"] = cfg["freq"]
            if el["type"] == "MCMC":
                el["every"] = 0
            if cfg["graph"] == "cli-map":
                # --lr 0.05: with the default step (1.0) L-BFGS leaves the support of the
                # priors in the second iteration on this data set
                el["options"] = dict(el["options"], lr=0.05)
        out.append(el)
    if not any(el.get("type") in RUNNABLE for el in out):
        raise RuntimeError("no algorithm in " + cfg["graph"])
    return out


def program(cfg, seed):
    if cfg["part"] == "optimizer":
        return opt_program(cfg, seed)
    if cfg["part"] == "mcmc":
        return mcmc_program(cfg, seed)
    return cli_program(cfg, seed)


def argv_of(cfg, ckpt=None):
    a = [SPEC]
    if cfg.get("dtype") == "f32cli":
        a += ["--dtype", "float32"]
    if ckpt is not None:
        a += ["-c", ckpt]
    return a


# ---------------------------------------------------------------------------------
# one configuration: base run + every restart history
# ---------------------------------------------------------------------------------

def histories(n_saves, tier, cfg):
    ks = list(range(1, n_saves + 1))
    hs = [[k] for k in ks]
    depth = cfg.get("depth", 2)
    if depth >= 2:
        # every pair of interruptions (in the longer runs: at most `gap` checkpoints apart)
        gap = cfg.get("gap") or n_saves
        hs += [list(p) for p in itertools.combinations(ks, 2) if p[1] - p[0] <= gap]
    if depth >= 3:
        hs += [list(p) for p in itertools.combinations(ks, 3)]
    return hs


def sig_of(cfg, check, what):
    s = {"part": cfg["part"], "check": check, "what": what}
    for key in ("algo", "sched", "graph", "dtype", "init"):
        if key in cfg:
            s[key] = cfg[key]
    if "ops" in cfg:
        s["ops"] = "+".join(cfg["ops"])
        hmc = [o for o in cfg["ops"] if o.startswith("hmc")]
        if hmc:
            s["hmc"] = hmc[0]
    return s


def err_class(msg):
    return re.sub(r"\d+", "N", msg)[:100]


def compare(cfg, base, ref, k, res):
    """ref = the checkpoint record the restart started from (ordinal k of the base run
    numbering); res = the resumed run.  Returns [(check, what, detail)]."""
    out = []
    if not res.started:
        out.append(("restart_raises", err_class(res.error or "algorithm not started"),
                    f"restart from checkpoint {k} failed before the run started: {res.error} "
                    f"[{res.where}]"))
        return out
    if res.entry_error:
        out.append(("restart_raises", err_class(res.entry_error),
                    f"state_dict() unusable after loading checkpoint {k}: {res.entry_error}"))
        return out
    later = f"; the resumed run then raised {res.error} [{res.where}]" if res.error else ""
    dp = diff_params(ref["params"], res.entry["params"])
    if dp:
        out.append(("param_roundtrip", dp[0][0],
                    f"after loading checkpoint {k}: " + "; ".join(t for _, t in dp[:3]) + later))
        return out  # everything downstream is a consequence
    d, torch_casts = split_torch_casts(diff_state(ref["state"], res.entry["state"]),
                                       ref["params"])
    if d:
        # one report per component of the state (optimizer.state, scheduler.<key>, ...)
        groups = {}
        for entry in d:
            c = pclass(entry[0])
            groups.setdefault(".".join(c.split(".")[:2]), []).append(entry)
        for comp, entries in groups.items():
            classes = []
            for p, kind, w, g in entries:
                c = f"{pclass(p)}:{kind}"
                if c not in classes:
                    classes.append(c)
            txt = "; ".join(f"{p} {kind} (saved {_short(w)}, restored {_short(g)})"
                            for p, kind, w, g in entries[:3])
            out.append(("state_roundtrip", classes[0],
                        f"state_dict() after loading checkpoint {k} differs in {len(entries)} "
                        f"entries of {comp} ({classes[:4]}): {txt}" + later))
    if res.error and not (base.error == res.error and base.where == res.where):
        # (an uninterrupted run that fails after its last iteration - e.g. the summary of an
        # MCMC in which some operator was never selected divides by zero - is reproduced by
        # the resumed run: same run, not a restart failure)
        if not out:
            out.append(("resumed_run_raises", err_class(res.error),
                        f"run resumed from checkpoint {k} raised {res.error} [{res.where}]"))
        return out
    # (state tensors torch itself converts on load: nothing exact can be demanded afterwards)
    roundtrip_ok = not out and not torch_casts
    if torch_casts and not out:
        out.append(("_torch_cast", None, None))
    expected = base.saves[k:]
    got = res.saves
    labels_ok = len(got) == len(expected) and all(
        g["iteration"] == e["iteration"] and g["file"] == e["file"]
        for g, e in zip(got, expected))
    if not labels_ok:
        gl = [g["iteration"] for g in got]
        el = [e["iteration"] for e in expected]
        if len(gl) == len(el) + 1 and gl[1:] == el and (
                gl[0] == base.saves[k - 1]["iteration"]):
            what = "checkpointed_iteration_repeated"
        else:
            what = "other"
        out.append(("iteration_counter", what,
                    f"resumed from the checkpoint of iteration {base.saves[k - 1]['iteration']}: "
                    f"iterations checkpointed afterwards {gl} "
                    f"(files {sorted({g['file'] for g in got})}), the uninterrupted run "
                    f"continues with {el}"))
    if roundtrip_ok and (cfg["freq"] == 1 or labels_ok):
        # aligned by the number of iterations executed since the checkpoint (not judged when
        # the state was already different right after loading: a mere consequence)
        for j, (g, e) in enumerate(zip(got, expected)):
            dp = diff_params(e["params"], g["params"])
            if dp:
                out.append(("trajectory", dp[0][0],
                            f"resumed from checkpoint {k}: parameter state {j + 1} iteration(s) "
                            f"later differs from the uninterrupted run: {dp[0][1]}"))
                break
            # the run state itself: were it restored completely, the resumed run would be
            # the same run and would keep the same state
            d = diff_state(e["state"], g["state"])
            if d:
                p, kind, w, gg = d[0]
                out.append(("trajectory", "state:" + pclass(p),
                            f"resumed from checkpoint {k}: the parameters agree but the run "
                            f"state {j + 1} iteration(s) later differs in {len(d)} entries, first "
                            f"{p} {kind} (uninterrupted {_short(w)}, resumed {_short(gg)})"))
                break
        else:
            if labels_ok and res.final is not None:
                dp = diff_params(base.final, res.final)
                if dp:
                    out.append(("trajectory", "final",
                                f"resumed from checkpoint {k}: final state differs: {dp[0][1]}"))
    return out


WRITE_PATH = {"save_full_state", "save_parameters", "state_dict", "_state_dict", "default",
              "dump", "iterencode"}


def nontrivial(base, k):
    """at checkpoint k both the algorithm state (state_dict without the iteration counter) and
    the parameters differ from those of a freshly built program, i.e. restoring either of
    them from the specification instead of the checkpoint would be wrong"""
    s = base.saves[k - 1]
    return s["state"] != base.entry["state"] and s["params"] != base.entry["params"]


def explore(cfg, seed, tier, only=None):
    """-> dict(viols=[...], stats=...)"""
    prog = json.dumps(program(cfg, seed))
    rseed = 7919 + seed
    base = run_main({SPEC: prog}, argv_of(cfg), seed=rseed)
    stats = {"mains": 1, "restarts": 0, "histories": 0, "nontrivial": 0, "states": 0,
             "base_ok": True, "base_error": None, "torch_cast_restarts": 0}
    n_expected = cfg["N"] // cfg["freq"]
    if len(base.saves) != n_expected:
        stats["base_ok"] = False
        stats["base_error"] = (base.error or f"{len(base.saves)} checkpoints, expected "
                               f"{n_expected}") + f" [{base.where}]"
        if set(base.frames) & WRITE_PATH:
            # the uninterrupted run dies while writing a checkpoint
            return {"viols": [{
                "case": {"cfg": cfg, "history": [], "seed": seed},
                "detail": f"{cfg_name(cfg)}: checkpoint {len(base.saves) + 1} cannot be written: "
                          f"{stats['base_error']}",
                "sig": sig_of(cfg, "checkpoint_write_fails", err_class(base.error or ""))}],
                "stats": stats}
        # every declared configuration runs on the code this check was built for; one that
        # does not run is never silently dropped
        raise RuntimeError(f"declared configuration cannot be run: {cfg_name(cfg)}: "
                           f"{stats['base_error']}")
    if base.error:
        stats["base_tail_error"] = f"{base.error} [{base.where}]"
    # the harness owns the nondeterminism: the same seed must reproduce the run exactly
    again = run_main({SPEC: prog}, argv_of(cfg), seed=rseed)
    stats["mains"] += 1
    if [s["content"] for s in again.saves] != [s["content"] for s in base.saves] or \
            again.final != base.final:
        raise RuntimeError(f"uninterrupted run is not reproducible: {cfg}")
    distinct = {jdump([sorted(s["state"].items()), s["params"]]) for s in base.saves}
    stats["states"] = len(distinct)
    stats["moved"] = len({jdump(s["params"]) for s in base.saves})
    last = base.saves[-1]["state"]
    used = {}
    i = 0
    while f".operators[{i}].id" in last:
        n = last[f".operators[{i}].accept"][1] + last[f".operators[{i}].reject"][1]
        used[last[f".operators[{i}].id"][1]] = [n, last[f".operators[{i}].accept"][1]]
        i += 1
    stats["operators"] = used
    viols = []
    hs = histories(len(base.saves), tier, cfg) if only is None else ([only] if only else [])
    for h in hs:
        stats["histories"] += 1
        cur, shift = base, 0  # `cur.saves[k - shift - 1]` is the checkpoint of ordinal k
        bad = []
        for k in h:
            idx = k - shift - 1
            if idx < 0 or idx >= len(cur.saves):
                break  # the previous generation did not get this far (already reported)
            ref = cur.saves[idx]
            if cur is not base and (ref["params"] != base.saves[k - 1]["params"]
                                    or ref["state"] != base.saves[k - 1]["state"]):
                break  # the previous generation already deviated here (reported by [.., k'])
            files = {SPEC: prog, ref["file"]: ref["content"]}
            # (seeded as well: whatever is drawn while the program is being built must not
            # depend on what this worker process did before)
            res = run_main(files, argv_of(cfg, ref["file"]), rng_state=ref["rng"],
                           seed=rseed + 1000 * k)
            stats["mains"] += 1
            stats["restarts"] += 1
            bad = compare(cfg, base, base.saves[k - 1], k, res)
            if any(b[0] == "_torch_cast" for b in bad):
                stats["torch_cast_restarts"] += 1
                bad = [b for b in bad if b[0] != "_torch_cast"]
                if not bad:
                    break  # cannot be continued exactly
            if bad:
                break
            cur, shift = res, k
        if all(nontrivial(base, k) for k in h):
            stats["nontrivial"] += 1
        seen = set()
        for check, what, detail in bad:
            if (check, what) in seen:
                continue
            seen.add((check, what))
            viols.append({"case": {"cfg": cfg, "history": h, "seed": seed},
                          "detail": f"{cfg_name(cfg)} history {h}: {check}: {detail}",
                          "sig": sig_of(cfg, check, what)})
    return {"viols": viols, "stats": stats}


def cfg_name(cfg):
    keys = ("part", "graph", "algo", "sched", "ops", "dtype", "nn", "shape", "groups", "all",
            "freq", "N", "depth", "init")
    return "/".join(f"{k}={cfg[k]}" for k in keys if k in cfg)


# ---------------------------------------------------------------------------------
# the declared space
# ---------------------------------------------------------------------------------

HMC_KINDS = ["hmc", "hmc-noadapt", "hmc-frss", "hmc-as", "hmc-asr", "hmc-da", "hmc-mmd", "hmc-mmf",
             "hmc-as-mmd", "hmc-as-mmf", "hmc-da-mmd", "hmc-da-mmf",
             "hmc-mmw", "hmc-mms", "hmc-mmr", "hmc-as-w", "hmc-da-w", "hmc-mmd-w", "hmc-da-mmd-w"]
BASIC_OPS = ["slide", "scaler", "dirichlet"]


def configurations(tier):
    thorough = tier == "thorough"
    N = 8 if thorough else 6
    cfgs = []

    def opt(algo, sched="none", dtype="f64", nn=False, shape="1d", groups=False, all_=False,
            freq=1, n=None, depth=2, gap=None, init=None):
        cfgs.append({"part": "optimizer", "algo": algo, "sched": sched, "dtype": dtype,
                     "nn": nn, "shape": shape, "groups": groups, "all": all_, "freq": freq,
                     "N": n or N, "depth": depth, "gap": gap})
        if init:
            cfgs[-1]["init"] = init

    # A: every optimiser x every scheduler
    for algo in ALGOS:
        for sched in SCHEDS:
            opt(algo, sched)
    # B: every optimiser x dtype x tensor kind (with the scheduler the CLI emits; thorough:
    #    also without)
    for algo in ALGOS:
        for dtype in DTYPES:
            for nn in (False, True):
                for sched in (("none", "LambdaLR") if thorough else ("LambdaLR",)):
                    if (dtype, nn) != ("f64", False):
                        opt(algo, sched, dtype, nn)
    # C: shapes, parameter groups, checkpoint mode and frequency
    reps = ["SGD", "SGD-momentum", "Adam", "Adagrad", "LBFGS"]
    if thorough:
        reps += ["RMSprop-centered", "Adam-amsgrad", "ASGD", "Adafactor", "LBFGS-wolfe"]
    for algo in reps:
        for shape, groups, all_, freq in itertools.product(("1d", "2d"), (False, True),
                                                           (False, True), (1, 2)):
            if algo.startswith("LBFGS") and (groups or shape == "2d"):
                # torch: LBFGS doesn't support per-parameter options; torchtree's LBFGS loop
                # formats the loss as a scalar
                continue
            if (shape, groups, all_, freq) != ("1d", False, False, 1):
                for dtype, nn in (("f64", False), ("f32spec", True)):
                    opt(algo, "StepLR", dtype, nn, shape, groups, all_, freq)
    # every form of initial value of a checkpointed parameter
    for algo in (("SGD", "Adam") if thorough else ("Adam",)):
        for init in INITS:
            opt(algo, "none", n=4, depth=1, init=init)
    # three consecutive interruptions
    for algo in (("SGD-momentum", "Adam", "LBFGS", "RMSprop-centered") if thorough else ("Adam",)):
        opt(algo, "StepLR", n=6, depth=3)

    def mc(ops, dtype="f64", freq=1, n=None, depth=2, gap=None):
        mm = any(o.startswith("hmc") and "mm" in o for o in ops)
        if n is None:
            # a mass matrix is first re-estimated after 6 iterations
            n = (14 if thorough else 10) if (mm or len(ops) > 1) else N
        if gap is None and n > 8:
            gap = 4 if thorough else 3
        cfgs.append({"part": "mcmc", "ops": list(ops), "dtype": dtype, "freq": freq, "N": n,
                     "depth": depth, "gap": gap})

    # D: every operator type alone, every adaptor combination, every dtype
    singles = BASIC_OPS + [o + "-noadapt" for o in BASIC_OPS] + ["slide-window"] + HMC_KINDS
    for o in singles:
        for dtype in ("f64", "f32cli", "f32spec"):
            mc([o], dtype)
    for ops in (["gmrf"], ["gmrf-noadapt"], ["gmrf", "slideprec"]):
        for dtype in ("f64", "f32cli"):
            mc(ops, dtype, n=N + 2 * (len(ops) - 1))
    # E: operator mixtures
    if thorough:
        mixes = []
        for r in range(2, 5):
            for sub in itertools.combinations(BASIC_OPS + ["hmc-as-mmd"], r):
                mixes.append(list(sub))
        for h in HMC_KINDS:
            if BASIC_OPS + [h] not in mixes:
                mixes.append(BASIC_OPS + [h])
    else:
        mixes = [BASIC_OPS, BASIC_OPS + ["hmc"], BASIC_OPS + ["hmc-as-mmd"],
                 ["slide", "hmc-da-mmf"], ["scaler", "dirichlet", "hmc-da-mmd"]]
    for ops in mixes:
        for dtype in ("f64", "f32cli"):
            mc(ops, dtype)
    mc(BASIC_OPS, freq=2, n=12)
    mc(["hmc-as-mmd"], freq=3, n=12)
    mc(["slide"], n=6, depth=3)
    if thorough:
        mc(["hmc-da-mmd"], n=6, depth=3)
        # the variance window of the mass matrix adaptor is 100 samples long
        mc(["hmc-mmw"], n=104, depth=1)
    # F: programs written by torchtree-cli
    for g in CLI_GRAPHS:
        for freq in (1, 2):
            n = (8 if thorough else 6) if "mcmc" not in g else (14 if thorough else 10)
            cfgs.append({"part": "cli", "graph": g, "freq": freq, "dtype": "f64", "N": n,
                         "depth": 2 if freq == 1 else 1,
                         "gap": None if n <= 8 else (4 if thorough else 3)})
    keys = [jdump(c) for c in cfgs]
    assert len(set(keys)) == len(keys), "duplicate configuration"
    return cfgs


# ---------------------------------------------------------------------------------
# driver
# ---------------------------------------------------------------------------------

def _work(chunk):
    tt.boot()
    out = []
    for cfg, seed, tier in chunk:
        r = explore(cfg, seed, tier)
        out.append((cfg, r))
    return out


def run(run):
    cfgs = configurations(run.tier)
    items = [(c, run.seed, run.tier) for c in cfgs]
    # interleave so that every worker gets a similar mix
    n = 64
    chunks = [items[i::n] for i in range(n)]
    res = pmap(_work, [c for c in chunks if c])
    tot = {"mains": 0, "restarts": 0, "histories": 0, "nontrivial": 0, "states": 0,
           "torch_cast_restarts": 0}
    per_part = {}
    op_use = {}
    tail_errors = []
    write_failures = 0
    viols = []
    expected_histories = 0
    for chunk in res:
        for cfg, r in chunk:
            st = r["stats"]
            for k in tot:
                tot[k] += st[k]
            pp = per_part.setdefault(cfg["part"], {"configurations": 0, "histories": 0,
                                                   "restarts": 0, "checkpointed_states": 0})
            pp["configurations"] += 1
            pp["histories"] += st["histories"]
            pp["restarts"] += st["restarts"]
            pp["checkpointed_states"] += st["states"]
            if not st["base_ok"]:
                write_failures += 1
            else:
                expected_histories += len(histories(cfg["N"] // cfg["freq"], run.tier, cfg))
            if st.get("base_tail_error"):
                tail_errors.append({"cfg": cfg_name(cfg), "error": st["base_tail_error"]})
            for op_id, (n_used, n_acc) in st.get("operators", {}).items():
                u = op_use.setdefault(op_id, {"configurations": 0, "selected_in": 0,
                                              "accepted_in": 0})
                u["configurations"] += 1
                u["selected_in"] += n_used > 0
                u["accepted_in"] += n_acc > 0
            viols += r["viols"]
    if tot["histories"] != expected_histories:
        raise RuntimeError(f"enumeration incomplete: {tot['histories']} of {expected_histories}")
    order = {"checkpoint_write_fails": 0, "restart_raises": 0, "resumed_run_raises": 1,
             "param_roundtrip": 2, "state_roundtrip": 3, "trajectory": 4, "iteration_counter": 5}
    viols.sort(key=lambda v: (order.get(v["sig"]["check"], 9), len(v["case"]["history"]),
                              jdump(v["sig"])))
    # the first reports shown are one per class of failure, then the rest
    rank, nth = {}, []
    for v in viols:
        c = (v["sig"]["part"], v["sig"]["check"], v["sig"]["what"])
        nth.append(rank.get(c, 0))
        rank[c] = rank.get(c, 0) + 1
    viols = [v for _, _, v in sorted(zip(nth, range(len(viols)), viols),
                                     key=lambda t: (t[0], t[1]))]
    run.absorb(viols)
    classes = {}
    for v in viols:
        c = "/".join((v["sig"]["part"], v["sig"]["check"], str(v["sig"]["what"])))
        classes[c] = classes.get(c, 0) + 1
    pick = [cfgs[0], [c for c in cfgs if c["part"] == "optimizer" and c["dtype"] == "f32like"][0],
            [c for c in cfgs if c["part"] == "mcmc" and len(c["ops"]) > 1][0], cfgs[-1]]
    samples = [{"cfg": c, "history": [1, 3] if c.get("depth", 2) > 1 else [2],
                "argv": ["torchtree"] + argv_of(c, CKPT)} for c in pick]
    samples.append({"program_of": cfg_name(pick[2]), "program": program(pick[2], run.seed)})
    cov = {
        "states": tot["states"],
        "transitions": tot["restarts"],
        "traces_validated_against_impl": tot["mains"],
        "evaluations": tot["histories"],
        "distinct_nontrivial": tot["nontrivial"],
        "rule": "one evaluation = one (configuration, restart history) pair; the histories of a "
                "configuration are every interruption point k=1..N, every pair k1<k2 (in runs "
                "longer than 8 checkpoints: at most `gap` apart) and, where depth=3, every triple, "
                "of an N-iteration run that writes a checkpoint after every iteration (every "
                "`freq` iterations where stated); non-trivial = at every interruption point of "
                "the history both the algorithm state (state_dict without the counter) and the "
                "parameters differ from those of a freshly built program; states = distinct "
                "checkpointed run states, transitions = restarts through `torchtree -c`, "
                "traces = executions of torchtree.main (each uninterrupted run twice)",
        "exhaustive": True,
        "configurations": len(cfgs),
        "histories_expected": expected_histories,
        "per_part": per_part,
        "space": {
            "optimisers": list(ALGOS), "schedulers": list(SCHEDS), "dtypes": list(DTYPES),
            "operators": BASIC_OPS + ["gmrf block update"] + HMC_KINDS,
            "cli_programs": {k: v for k, v in CLI_GRAPHS.items()},
        },
        "operator_use": op_use,
        "uninterrupted_runs_failing_after_last_iteration": tail_errors,
        "uninterrupted_runs_failing_in_checkpoint_write": write_failures,
        "restarts_not_judged_exactly_because_torch_converts_state": tot["torch_cast_restarts"],
        "violation_classes": classes,
        "samples": samples,
        "tolerance": "none: parameter and state tensors are compared bit-exactly (repr of every "
                     "element) with dtype, shape and nn-ness, dictionary keys with their types; "
                     "tuple == list; the iteration counter is judged by the iterations the "
                     "resumed run executes and the numbers it writes",
        "explanation": "every trace is an execution of the real entry point on the real objects; "
                       "no separate model",
    }
    return run.finish(cov, assumptions=[
        "deterministic run = the torch generator is put back to its state at the checkpoint when "
        "the resumed algorithm starts (torchtree does not checkpoint the generator); the same "
        "seed reproduces every uninterrupted run exactly (asserted)",
        "float values survive JSON exactly (repr round trip), so bit-exact comparison is demanded",
        "state tensors that torch.optim.Optimizer.load_state_dict itself converts to the dtype "
        "of their parameter (ASGD eta/mu with float32 parameters under a float64 default) are "
        "not counted as lost; those restarts are not continued",
        "the HMC runnable (inference/hmc/hmc.py) saves parameters only and has no "
        "load_state_dict; StanWindowedAdaptation cannot be instantiated (abstract); convergence "
        "monitors and loggers are outside the statement",
    ])


def replay(case):
    tt.boot()
    r = explore(case["cfg"], case.get("seed", 0), "quick", only=case["history"])
    return r["viols"]
