"""C01 – tree log-likelihood equals exact marginalisation over ancestral states.

Enumerates every labelled rooted binary topology (as Newick) x model configuration x
every alignment column over the symbol alphabet, evaluates the real
TreeLikelihoodModel built from JSON (block total with repeated columns, and every
per-pattern value) and compares with a literal summation over all internal-state
assignments and rate categories."""
import itertools

import numpy as np

from mc.builders import likelihood as lb
from mc.builders import trees as tb
from mc.env import tt
from mc.explore import enumerate as en
from mc.oracle import phylo as oph
from mc.oracle import ratematrix as orm
from mc.runner import chunked, jdump, pmap

LEVEL = "exploration"
RTOL = 1e-9
BLOCK = 512
NUC18 = "ACGTUKMRSWYBDHVN?-"
NUC7 = "ACGTRN-"
NUC5 = "ACGTN"
AA8 = "ARNDBZX-"
GEN6 = "ACGTN-"
CODON8 = ["AAA", "AAG", "CTG", "TTT", "GAC", "TGG", "ANA", "---"]

TREE_KINDS = ("unrooted", "strict", "simple", "timetree")
TIPS = ("union", "missing", "states")


def configs(tier, n):
    """list of (subst name, point index, site, tree kind, tips, alphabet name)"""
    out = []
    for subst, pts in lb.SUBST_POINTS.items():
        kind = lb.DATATYPE.get(subst, "nuc")
        if kind == "codon" and n > 3:
            continue
        if kind == "aa" and n > 4:
            continue
        for pi in range(len(pts)):
            sites = list(lb.SITE)
            if kind == "general" and n == 4:
                sites = ["constant", "invariant", "weibull4_inv"]
            if kind == "nuc" and n == 4 and tier == "quick":
                sites = ["constant_mu", "invariant", "weibull2", "weibull4_inv", "weibull3_inv_mu"]
                if pi > 1:
                    continue
            if kind in ("aa", "codon") or n >= 5:
                sites = ["constant", "weibull4_inv"] if n < 6 else ["weibull4_inv"]
            if n >= 5 and subst not in ("JC69", "HKY", "GTR", "GeneralNonSym"):
                continue
            if n >= 5 and pi > 0:
                continue
            if n >= 6 and subst != "GTR":
                continue  # 945 topologies x 15625 columns each (4.5 s per item): GTR only, see below
            for site in sites:
                for tree in (TREE_KINDS if n < 6 else TREE_KINDS[:2]):
                    for tips in (TIPS if n < 6 else TIPS[:2]):
                        alpha = {"nuc": "NUC18" if n == 3 else ("NUC7" if n <= 5 else "NUC5"),
                                 "aa": "AA8", "codon": "CODON8", "general": "GEN6"}[kind]
                        out.append((subst, pi, site, tree, tips, alpha))
    if n == 4:
        # the complete 18-symbol alphabet on every 4-taxon column for one rich configuration
        for tree in TREE_KINDS:
            for tips in TIPS:
                out.append(("HKY", 0, "weibull4_inv", tree, tips, "NUC18"))
                if tier == "thorough" or tree == "unrooted":
                    out.append(("GTR", 1, "constant", tree, tips, "NUC18lower"))
    return out


def alphabet(name):
    return {"NUC18": list(NUC18), "NUC7": list(NUC7), "NUC5": list(NUC5), "AA8": list(AA8),
            "GEN6": list(GEN6), "CODON8": CODON8, "NUC18lower": list(NUC18.lower())}[name]


def tip_vector(kind, sym, tips):
    mode = "union" if tips == "union" else "missing"
    if kind == "nuc":
        return oph.nuc_vector(sym, mode)
    if kind == "aa":
        return oph.aa_vector(sym, mode)
    if kind == "general":
        return oph.general_vector(sym, lb.GENERAL_CODES)
    return oph.codon_vector(sym, lb.sense_codons())


def multiplicity(col_index):
    return 1 + (col_index * 7 + 3) % 3


def generic_lengths(n, seed, which=0):
    """pairwise distinct positive values, one per node index 0..2n-3"""
    rng = np.random.default_rng(1000 * seed + 17 * n + which)
    base = np.array([0.03 + 0.071 * ((5 * i + 3 * which) % (2 * n - 2)) for i in range(2 * n - 2)])
    return (base * (1.0 + 0.2 * rng.uniform(-1, 1, size=base.shape))).tolist()


def build_tree(n, top, labels, kind, seed, which):
    """returns (list of spec objects before the likelihood, tree ref, clock spec or None,
    function(dic, model) -> dict clade -> branch length in substitutions)"""
    g = generic_lengths(n, seed, which)
    ages = [0.0 if i % 2 == 0 else 0.3 + 0.2 * i for i in range(n)]
    leaf_h = tb.sampling_heights(ages)
    if kind == "unrooted":
        spec = tb.unrooted_tree(top, labels, g[: 2 * n - 3])

        def blen(dic):
            cl = tb.index_clades(dic["tree"], labels)
            out = {cl[i]: g[i] for i in range(2 * n - 3)}
            out[cl[2 * n - 3]] = 0.0
            return out, cl
        return spec, None, blen
    if kind == "strict":
        ratios = [0.2 + 0.6 * ((3 * j + which) % (n - 1)) / (n - 1) for j in range(n - 2)]
        root_h = max(leaf_h) + 0.9 + 0.4 * which
        spec = tb.ratio_tree(top, labels, ages, ratios, [root_h])
        rate = 0.11 + 0.07 * which
        clock = {"id": "clock", "type": "StrictClockModel", "tree_model": "tree",
                 "rate": lb.P("clock.rate", [rate])}

        def blen(dic):
            cl = tb.index_clades(dic["tree"], labels)
            rb = {cl[n + j]: ratios[j] for j in range(n - 2)}
            hts = tb.oracle_ratio_heights(top, dict(zip(labels, leaf_h)), rb, root_h)
            return _time_blens(top, labels, leaf_h, hts, {c: rate for c in cl.values()}), cl
        return spec, clock, blen
    shifts = [0.15 + 0.23 * ((2 * j + which) % (n - 1)) for j in range(n - 1)]
    rates = [0.05 + 0.04 * ((3 * i + which) % (2 * n - 2)) for i in range(2 * n - 2)]
    clock = {"id": "clock", "type": "SimpleClockModel", "tree_model": "tree",
             "rate": lb.P("clock.rate", rates)}
    if kind == "simple":
        spec = tb.shift_tree(top, labels, ages, shifts)
    else:
        # plain TimeTreeModel: internal heights by node index, obtained from the reference
        # heights through the index map of a throw-away model with the same Newick
        tmp = tt.load(tb.shift_tree(top, labels, ages, shifts))["tree"]
        cl0 = tb.index_clades(tmp, labels)
        sb = {cl0[n + j]: shifts[j] for j in range(n - 1)}
        h0 = tb.oracle_shift_heights(top, dict(zip(labels, leaf_h)), sb)
        spec = tb.time_tree(top, labels, ages, [h0[cl0[n + j]] for j in range(n - 1)])

    def blen(dic):
        cl = tb.index_clades(dic["tree"], labels)
        sb = {cl[n + j]: shifts[j] for j in range(n - 1)}
        hts = tb.oracle_shift_heights(top, dict(zip(labels, leaf_h)), sb)
        return _time_blens(top, labels, leaf_h, hts, {cl[i]: rates[i] for i in range(2 * n - 2)}), cl
    return spec, clock, blen


def _time_blens(top, labels, leaf_h, hts, rate_by_clade):
    h = dict(hts)
    for lab, v in zip(labels, leaf_h):
        h[frozenset([lab])] = v
    out = {}
    for child, parent in en.parent_map(top).items():
        out[child] = (h[parent] - h[child]) * rate_by_clade[child]
    return out


def check_item(item):
    """one (n, topology, config): all blocks of columns.  returns (violations, n_patterns,
    n_nontrivial)"""
    import torch

    from torchtree.evolution.site_pattern import compress

    n, ti, cfg, seed = item["n"], item["top"], item["cfg"], item["seed"]
    subst, pidx, site, tree_kind, tips, alpha_name = cfg
    labels = [f"t{i}" for i in range(n)]
    # taxa order differs from the order in which the leaves appear in the Newick
    top = en.rooted_topologies(labels)[ti]
    kind = lb.DATATYPE.get(subst, "nuc")
    syms = alphabet(alpha_name)
    cols = list(itertools.product(range(len(syms)), repeat=n))
    bad = []
    npat = 0
    nnon = 0
    pt = lb.SUBST_POINTS[subst][pidx]
    try:
        sspec, sref = lb.subst_spec(subst, pt)
        tspec, clock, blen_fn = build_tree(n, top, labels, tree_kind, seed, 0)
    except Exception as e:
        return [("build", f"{type(e).__name__}: {str(e)[:200]}")], 0, 0
    r_ref, p_ref = lb.site_ref(site)
    # sequences are listed in reverse taxon order: matching must be by name
    seq_order = list(reversed(labels))
    Qn = pi = None
    for b0 in range(0, len(cols), BLOCK):
        block = cols[b0:b0 + BLOCK]
        # repeated columns, copies not adjacent
        passes = [block] + [[c for k, c in enumerate(block) if multiplicity(b0 + k) >= m] for m in (2, 3)]
        flat = [c for p_ in passes for c in p_]
        seqs = {lab: "".join(syms[c[i]] for c in flat) for i, lab in enumerate(labels)}
        dt_ref = "nucleotide" if kind == "nuc" else {"aa": "adt", "codon": "cdt", "general": "gdt"}[kind]
        aln = lb.alignment_spec(seq_order, [seqs[l] for l in seq_order], dt_ref)
        pre = [] if kind == "nuc" else [lb.datatype_spec(kind)]
        like = lb.likelihood_spec(tspec, sspec, lb.site_spec(site), aln, tips,
                                  clock=clock)
        try:
            dic = tt.load(pre + [like])
            model = dic["like"]
            total = float(model())
            blen, cl = blen_fn(dic)
            if set(cl[i] for i in range(n, 2 * n - 1)) != set(en.clades(top)):
                return [("topology", "clades of the loaded tree differ from the Newick")], npat, nnon
            if Qn is None:
                Q, pi = sref(dic["subst"])
                pi = np.asarray(pi, dtype=float)
                Qn = orm.normalise(np.asarray(Q), pi)
            patterns, weights = compress(dic["aln"])
            P_ = len(weights)
            # columns of each pattern, in taxa order, as the library orders them
            def _sym(x):
                return x if isinstance(x, str) else "".join(x)  # codon symbols come as char tuples

            pat_cols = [tuple(_sym(patterns[lab][j]) for lab in labels) for j in range(P_)]
            # (i) compression itself: multiset of columns must be preserved
            mine = {}
            for k, c in enumerate(block):
                key = tuple(syms[x] for x in c)
                mine[key] = mine.get(key, 0) + multiplicity(b0 + k)
            theirs = {pc: int(w) for pc, w in zip(pat_cols, weights.tolist())}
            if mine != theirs:
                bad.append(("compression", f"block {b0}: pattern multiset differs from the alignment"))
                break
            tips_arr = {lab: np.array([tip_vector(kind, pc[i], tips) for pc in pat_cols])
                        for i, lab in enumerate(labels)}
            L = oph.site_likelihoods(top, blen, Qn, pi, r_ref, p_ref, tips_arr)
            w = np.array(weights.tolist(), dtype=float)
            if np.any(L <= 0):
                raise RuntimeError("reference likelihood is not positive")
            ref_total = float(np.sum(w * np.log(L)))
            if not abs(total - ref_total) <= RTOL * max(1.0, abs(ref_total)):
                bad.append(("block_total", f"block {b0}: log-likelihood {total!r} vs reference {ref_total!r}"))
            # (ii) every pattern
            model.weights = torch.eye(P_)
            per = model._call().detach().numpy().reshape(-1)
            refp = np.log(L)
            # relative 1e-9; for |log L| < 1 the figure applies to L itself (absolute on log L)
            rel = np.abs(per - refp) / np.maximum(np.abs(refp), 1.0)
            j = int(np.argmax(rel))
            npat += P_
            nnon += sum(1 for pc in pat_cols if len(set(pc)) >= 2)
            if not rel[j] <= RTOL:
                bad.append(("pattern", f"column {pat_cols[j]} (taxa {labels}): log L = {per[j]!r} "
                                       f"vs reference {refp[j]!r}"))
            if bad:
                break
            # (iii) update the continuous parameters in place and evaluate again (first block)
            if b0 == 0:
                model.weights = weights
                bad += second_point(item, dic, model, top, labels, tips_arr, w, r_ref, p_ref, Qn, pi)
                if bad:
                    break
        except Exception as e:
            bad.append(("evaluate", f"block {b0}: {type(e).__name__}: {str(e)[:200]}"))
            break
    return bad, npat, nnon


def second_point(item, dic, model, top, labels, tips_arr, w, r_ref, p_ref, Qn, pi):
    """assign a second generic parameter point through the public parameter interface on
    the same model and compare again (history of depth 2)."""
    import torch

    n, cfg, seed = item["n"], item["cfg"], item["seed"]
    tree_kind = cfg[3]
    _, clock, blen_fn = build_tree(n, top, labels, tree_kind, seed, 1)
    g = generic_lengths(n, seed, 1)
    if tree_kind == "unrooted":
        dic["tree.blens"].tensor = torch.tensor(g[: 2 * n - 3])
    elif tree_kind == "strict":
        spec = build_tree(n, top, labels, tree_kind, seed, 1)[0]
        dic["tree.ratios"].tensor = torch.tensor(spec["ratios"]["tensor"])
        dic["tree.root_height"].tensor = torch.tensor(spec["root_height"]["tensor"])
        dic["clock.rate"].tensor = torch.tensor(clock["rate"]["tensor"])
    elif tree_kind == "simple":
        spec = build_tree(n, top, labels, tree_kind, seed, 1)[0]
        dic["tree.shifts"].tensor = torch.tensor(spec["shifts"]["tensor"])
        dic["clock.rate"].tensor = torch.tensor(clock["rate"]["tensor"])
    else:
        spec = build_tree(n, top, labels, tree_kind, seed, 1)[0]
        dic["tree.heights"].tensor = torch.tensor(spec["internal_heights"]["tensor"])
        dic["clock.rate"].tensor = torch.tensor(clock["rate"]["tensor"])
    total = float(model())
    blen, _ = blen_fn(dic)
    L = oph.site_likelihoods(top, blen, Qn, pi, r_ref, p_ref, tips_arr)
    ref_total = float(np.sum(w * np.log(L)))
    if not abs(total - ref_total) <= RTOL * max(1.0, abs(ref_total)):
        return [("after_update", f"after assigning new branch lengths/heights/rates: {total!r} "
                                 f"vs reference {ref_total!r}")]
    # the same point on the rescaled path (the one every evaluation takes once an underflow has
    # been seen): switch the public flag, announce a change, evaluate again
    model.rescale = True
    p = dic["tree.blens"] if tree_kind == "unrooted" else dic["clock.rate"]
    p.tensor = p.tensor.clone()
    total = float(model())
    if not abs(total - ref_total) <= RTOL * max(1.0, abs(ref_total)):
        return [("rescaled", f"same point with rescale=True: {total!r} vs reference {ref_total!r}")]
    return []


def items(tier, seed):
    ns = (3, 4) if tier == "quick" else (3, 4, 5, 6)
    out = []
    for n in ns:
        ntop = en.n_rooted(n)
        for cfg in configs(tier, n):
            for ti in range(ntop):
                out.append({"n": n, "top": ti, "cfg": list(cfg), "seed": seed})
    return out


def _work(chunk):
    return [(it,) + tuple(check_item(it)) for it in chunk]


def sig(it, name):
    return {"check": name, "subst": it["cfg"][0], "site": it["cfg"][2], "tree": it["cfg"][3],
            "tips": it["cfg"][4]}


def selftest():
    """brute-force and pruning references must agree (harness self-test)"""
    labels = ["a", "b", "c", "d"]
    top = en.rooted_topologies(labels)[7]
    Q = orm.gtr([0.7, 2.3, 0.4, 1.1, 3.7, 1.0], lb.PI1)
    Qn = orm.normalise(Q, lb.PI1)
    bl = {c: 0.05 + 0.1 * i for i, c in enumerate(en.parent_map(top))}
    cols = list(itertools.product("ACGTRN", repeat=4))[:200]
    tips = {lab: np.array([oph.nuc_vector(c[i], "union") for c in cols]) for i, lab in enumerate(labels)}
    r, p = lb.site_ref("weibull4_inv")
    a = oph.site_likelihoods(top, bl, Qn, np.array(lb.PI1), r, p, tips)
    b = np.exp(oph.log_site_likelihoods_extended(top, bl, Qn, np.array(lb.PI1), r, p, tips))
    if np.max(np.abs(a - b) / a) > 1e-12:
        raise RuntimeError("reference implementations disagree")


def run(run):
    tt.boot()
    selftest()
    its = items(run.tier, run.seed)
    # heavy items (large alphabets) first for load balance
    its.sort(key=lambda it: -len(alphabet(it["cfg"][5])) ** it["n"])
    res = pmap(_work, [its[i::256] for i in range(256)])
    evals = nnon = 0
    cfgs = set()
    for chunk in res:
        for it, bad, npat, nn in chunk:
            evals += npat
            nnon += nn
            cfgs.add(jdump(it["cfg"][:5]))
            seen = set()
            for name, detail in bad:
                if name in seen:
                    continue
                seen.add(name)
                run.violation(it, f"{it}: {name}: {detail}", sig(it, name))
    cov = {
        "evaluations": evals,
        "distinct_nontrivial": nnon,
        "rule": "every labelled rooted topology x configuration (substitution model point x site model "
                "x tree/clock kind x tip representation) x every column over the alphabet; evaluations = "
                "(topology, configuration, column) triples whose per-pattern value was compared; "
                "non-trivial = column with at least two different symbols",
        "samples": [its[0], its[len(its) // 2], its[-1]],
        "exhaustive": True,
        "items": len(its),
        "configurations": len(cfgs),
        "topologies": {n: en.n_rooted(n) for n in sorted({it["n"] for it in its})},
        "alphabets": {"NUC18": NUC18, "NUC7": NUC7, "NUC5": NUC5, "AA8": AA8, "GEN6": GEN6, "CODON8": CODON8},
        "rtol": RTOL,
    }
    return run.finish(cov, assumptions=[
        "trees above 6 taxa are outside the exhaustive bound (C03 covers large trees)",
        "one to three generic parameter points per model; branch lengths/heights/rates generic and pairwise distinct",
        "pattern order is taken from the library's compress(); pattern contents and weights are checked against the alignment",
    ])


def replay(case):
    bad, _, _ = check_item(case)
    return [{"case": case, "detail": f"{n}: {d}", "sig": sig(case, n)} for n, d in bad]
