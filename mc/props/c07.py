"""C07 – every change of variables reports its true log-Jacobian and inverse.

Exhaustive lattice of points for every shipped bijective transform (and the torch
transforms the CLI generates), and every topology x date pattern for the tree-based
transforms; on every point the reported log|det J| is compared with slogdet of the
autograd Jacobian of the forward map, the inverse with the input, and the value returned
by calling a TransformedParameter / ReparameterizedTimeTreeModel built from JSON (also
after the underlying parameter has been changed: evaluate, update, evaluate)."""
import itertools
import math

import numpy as np

from mc.builders import trees as tb
from mc.env import tt
from mc.explore import enumerate as en
from mc.runner import chunked, jdump, pmap

LEVEL = "exploration"
TOL_J = 1e-9
TOL_INV = 1e-10
REAL = (-2.0, -0.5, 0.0, 0.7, 3.0)
POS = (0.1, 0.5, 1.0, 2.5, 7.0)
UNIT = (0.05, 0.3, 0.5, 0.8, 0.97)
EXTREME = {REAL: (-35.0, -20.0, -9.0, 9.0, 20.0, 35.0), POS: (1e-12, 1e-6, 1e6, 1e12), UNIT: (1e-9, 1.0 - 1e-9)}

TT = "torchtree.distributions.transforms."
TD = "torch.distributions."
# name -> (json transform, parameters, domain lattice, event_dim, dims)
PLAIN = {
    "CumSumTransform": (TT + "CumSumTransform", None, REAL, 1, (1, 2, 3, 4, 5)),
    "CumSumExpTransform": (TT + "CumSumExpTransform", None, REAL, 1, (1, 2, 3, 4, 5)),
    "SoftPlusTransform": (TT + "SoftPlusTransform", None, REAL, 0, (1, 2, 3)),
    "CumSumSoftPlusTransform": (TT + "CumSumSoftPlusTransform", None, REAL, 1, (1, 2, 3, 4, 5)),
    "LogTransform": (TT + "LogTransform", None, POS, 0, (1, 2, 3)),
    "ExpTransform": (TD + "ExpTransform", None, REAL, 0, (1, 2, 3)),
    "SigmoidTransform": (TD + "SigmoidTransform", None, REAL, 0, (1, 2, 3)),
    "AffineTransform": (TD + "AffineTransform", {"loc": 1.5, "scale": 1.0}, REAL, 0, (1, 2, 3)),
    "AffineTransform2": (TD + "AffineTransform", {"loc": -0.5, "scale": 2.5}, REAL, 0, (1, 2)),
    "StickBreakingTransform": (TD + "StickBreakingTransform", None, REAL, 1, (1, 2, 3, 4)),
}
NOT_INVERTIBLE = {
    "ConvexCombinationTransform": "maps onto a weighted simplex (dimension drops); not declared bijective",
    "LinearTransform": "general linear map, no inverse shipped, not declared bijective",
    "RescaledRateTransform": "log_abs_det_jacobian and inverse raise NotImplementedError",
}


def autodiff_logdet(f, x, event_dim, minor=None):
    import torch
    from torch.autograd.functional import jacobian

    J = jacobian(f, x)
    if event_dim == 0:
        d = torch.diagonal(J.reshape(x.numel(), x.numel()))
        return d.abs().log()
    J = J.reshape(-1, x.numel())
    if minor is not None:
        J = J[:minor, :minor]
    sign, ld = torch.linalg.slogdet(J)
    return ld


def check_plain(case):
    import torch

    name, d = case["transform"], case["d"]
    path, params, dom, event_dim, _ = PLAIN[name]
    pts = list(itertools.product(dom, repeat=d))
    bad = []
    spec = {"id": "tp", "type": "TransformedParameter", "transform": path,
            "x": {"id": "x", "type": "Parameter", "tensor": list(pts[0])}}
    if params:
        spec["parameters"] = params
    try:
        dic = tt.load(spec)
    except Exception as e:
        return [("build", f"{type(e).__name__}: {e}")], 0
    tp, xpar = dic["tp"], dic["x"]
    tr = tp.transform
    n = 0
    prev = None
    for pt in pts:
        n += 1
        x = torch.tensor(pt)
        where = f"x={list(pt)}"
        try:
            y = tr(x)
            ref = autodiff_logdet(lambda z: tr(z), x, event_dim,
                                  minor=d if name == "StickBreakingTransform" else None)
            got = tr.log_abs_det_jacobian(x, y)
            if tuple(got.shape) != tuple(ref.shape) or float((got - ref).abs().max()) > TOL_J:
                bad.append(("log_jacobian", f"{where}: reported {got.tolist()} autodiff {ref.tolist()}"))
            try:
                xr = tr.inv(y)
                if tuple(xr.shape) != tuple(x.shape) or float((xr - x).abs().max()) > TOL_INV * max(1.0, float(x.abs().max())):
                    bad.append(("inverse", f"{where}: inv(forward(x)) = {xr.tolist()}"))
            except NotImplementedError:
                pass
            # the transformed parameter: update the underlying parameter, then read the value and
            # the log-Jacobian - in both orders (alternating along the lattice)
            xpar.tensor = x
            if n % 2 == 0:
                _ = tp.tensor
            got2 = tp()
            if tuple(got2.shape) != tuple(ref.shape) or float((got2 - ref).abs().max()) > TOL_J:
                bad.append(("transformed_parameter_call",
                            f"{where} (previous point {prev}): TransformedParameter() = {got2.tolist()} "
                            f"autodiff {ref.tolist()}"))
            if float((tp.tensor - y).abs().max()) > 1e-14:
                bad.append(("transformed_parameter_value", f"{where}: tensor {tp.tensor.tolist()} vs {y.tolist()}"))
            prev = list(pt)
        except Exception as e:
            bad.append(("evaluate", f"{where}: {type(e).__name__}: {str(e)[:150]}"))
        if len(bad) >= 3:
            break
    # far from the origin (d = 1): the inverse must not lose the point, the log-Jacobian must stay the derivative
    if d == 1 and not bad:
        for v in EXTREME.get(dom, ()):
            x = torch.tensor([v])
            try:
                y = tr(x)
                if not bool(torch.isfinite(y).all()):
                    continue  # the forward map itself leaves the floating-point range
                try:
                    xr = tr.inv(y)
                    # what a rounding error of a few ulps in y does to x: ulp(y) / |f'(x)|
                    fprime = float(tr.log_abs_det_jacobian(x, y).reshape(-1)[0].exp())
                    cond = 16.0 * 2.3e-16 * float(y.abs().max()) / max(fprime, 1e-300)
                    if not float((xr - x).abs().max()) <= cond + 1e-9 * max(1.0, abs(v)):
                        bad.append(("inverse", f"x={v}: inv(forward(x)) = {xr.tolist()} (rounding of y alone "
                                               f"explains {cond:.1e})"))
                except NotImplementedError:
                    pass
            except Exception as e:
                bad.append(("evaluate", f"x={v}: {type(e).__name__}: {str(e)[:150]}"))
    # batched points: log-Jacobian per row
    if d >= 1 and not bad:
        X = torch.tensor(pts[: min(len(pts), 7)])
        got = None
        try:
            got = tr.log_abs_det_jacobian(X, tr(X))
        except Exception:
            pass  # failing loudly on a batch is allowed
        if got is not None:
            rows = [tr.log_abs_det_jacobian(X[i], tr(X[i])) for i in range(X.shape[0])]
            ref = torch.stack(rows)
            if tuple(got.shape) != tuple(ref.shape) or float((got - ref).abs().max()) > TOL_J:
                bad.append(("log_jacobian_batched", f"batched: shape {tuple(got.shape)} values "
                                                    f"{got.reshape(-1).tolist()[:3]} vs rows {ref.reshape(-1).tolist()[:3]}"))
    return bad, n


def check_tril(case):
    import torch

    dim = case["d"]
    m = dim * (dim + 1) // 2
    vals = (-1.0, 0.3, 2.0)
    pts = list(itertools.product(vals, repeat=m))[:: max(1, 3 ** m // 200)]
    from torchtree.distributions.transforms import TrilExpDiagonalTransform

    tr = TrilExpDiagonalTransform()
    bad = []
    for pt in pts:
        x = torch.tensor(pt)
        try:
            y = tr(x)
            # reference: fill lower triangle row-major, exponentiate the diagonal
            L = np.zeros((dim, dim))
            k = 0
            for i in range(dim):
                for j in range(i + 1):
                    L[i, j] = math.exp(pt[k]) if i == j else pt[k]
                    k += 1
            if np.abs(y.numpy() - L).max() > 1e-12:
                bad.append(("forward", f"x={list(pt)}: {y.tolist()} vs {L.tolist()}"))
            xr = tr.inv(y)
            if float((xr - x).abs().max()) > TOL_INV:
                bad.append(("inverse", f"x={list(pt)}: {xr.tolist()}"))
        except Exception as e:
            bad.append(("evaluate", f"{type(e).__name__}: {e}"))
        if bad:
            break
    return bad, len(pts)


def tree_points(kind, n, leaf_h):
    if kind == "ratio":
        oldest = max(leaf_h)
        a = [0.25 + 0.1 * j for j in range(n - 2)] + [oldest + 0.8]
        b = [0.85 - 0.13 * j for j in range(n - 2)] + [oldest + 2.3]
        c = [0.5] * (n - 2) + [oldest + 0.01]
        return [a, b, c]
    return [[0.3 + 0.21 * j for j in range(n - 1)], [1.7 - 0.23 * j for j in range(n - 1)],
            [0.05] * (n - 1)]


def check_tree(case):
    """node-height transforms on one topology x date pattern; history of 3 points"""
    import torch

    n = case["n"]
    labels = [f"t{i}" for i in range(n)]
    top = en.rooted_topologies(labels)[case["top"]]
    dates = case["ages"]
    leaf_h = tb.sampling_heights(dates)
    kind = case["kind"]
    pts = tree_points(kind, n, leaf_h)
    bad = []
    try:
        if kind == "ratio":
            spec = tb.ratio_tree(top, labels, dates, pts[0][:-1], pts[0][-1:])
        else:
            spec = tb.shift_tree(top, labels, dates, pts[0])
        dic = tt.load(spec)
        model = dic["tree"]
        tr = model.transform
        prev = None
        for pt in pts:
            x = torch.tensor(pt)
            where = f"x={pt}"
            y = tr(x)
            ref = autodiff_logdet(lambda z: tr(z), x, 1)
            got = tr.log_abs_det_jacobian(x, y)
            if float((got - ref).abs()) > TOL_J:
                bad.append(("log_jacobian", f"{where}: reported {float(got)!r} autodiff {float(ref)!r}"))
            xr = tr.inv(y)
            if tuple(xr.shape) != tuple(x.shape) or float((xr - x).abs().max()) > TOL_INV * max(1.0, float(x.abs().max())):
                bad.append(("inverse", f"{where}: inv(forward(x)) = {xr.tolist()}"))
            if kind == "ratio":
                dic["tree.ratios"].tensor = x[:-1]
                dic["tree.root_height"].tensor = x[-1:]
            else:
                dic["tree.shifts"].tensor = x
            got2 = model()
            if float((got2 - ref).abs()) > TOL_J:
                bad.append(("tree_model_call", f"{where} (previous point {prev}): tree_model() = "
                                               f"{float(got2)!r}, autodiff {float(ref)!r}"))
            prev = pt
            if bad:
                break
        if not bad and kind == "shift":
            # the smooth-maximum variant of the increment transform (constructor option k > 0)
            for k in (0.5, 2.0, 10.0):
                trk = type(tr)(model, k)
                for pt in pts:
                    x = torch.tensor(pt)
                    y = trk(x)
                    xr = trk.inv(y)
                    if float((xr - x).abs().max()) > TOL_INV * max(1.0, float(x.abs().max())):
                        bad.append(("inverse", f"k={k} x={pt}: inv(forward(x)) = {xr.tolist()}"))
                        break
                    ref = autodiff_logdet(lambda z: trk(z), x, 1)
                    got = trk.log_abs_det_jacobian(x, y)
                    if float((got - ref).abs()) > TOL_J:
                        bad.append(("log_jacobian", f"k={k} x={pt}: reported {float(got)!r} autodiff {float(ref)!r}"))
                        break
                if bad:
                    break
        if not bad:
            # batched
            X = torch.tensor(pts)
            got = tr.log_abs_det_jacobian(X, tr(X))
            ref = torch.stack([tr.log_abs_det_jacobian(X[i], tr(X[i])) for i in range(len(pts))])
            if tuple(got.shape) != tuple(ref.shape) or float((got - ref).abs().max()) > TOL_J:
                bad.append(("log_jacobian_batched", f"{got.tolist()} vs {ref.tolist()}"))
    except Exception as e:
        bad.append(("evaluate", f"{type(e).__name__}: {str(e)[:200]}"))
    return bad, len(pts)


BIG = [  # (shape, n, dated?, kind, parameter value, root height above the oldest tip)
    ("balanced", 256, False, "ratio", 0.5, 0.05),
    ("balanced", 256, False, "ratio", 0.5, 40.0),
    ("caterpillar", 200, True, "ratio", 0.999, 5000.0),
    ("balanced", 256, True, "ratio", 0.05, 1.0),
    ("balanced", 256, False, "shift", 1e-3, None),
    ("caterpillar", 200, True, "shift", 40.0, None),
]


def check_tree_big(case):
    """trees of a few hundred tips with heights far from 1: the determinant itself leaves the floating-point
    range, its logarithm does not"""
    import torch

    shape, n, dated, kind, val, root = BIG[case["big"]]
    labels = [f"t{i}" for i in range(n)]
    top = en.shapes(shape, n, labels)
    dates = [0.1 * (i % 7) if dated else 0.0 for i in range(n)]
    leaf_h = tb.sampling_heights(dates)
    bad = []
    try:
        if kind == "ratio":
            pt = [val] * (n - 2) + [max(leaf_h) + root]
            spec = tb.ratio_tree(top, labels, dates, pt[:-1], pt[-1:])
        else:
            pt = [val] * (n - 1)
            spec = tb.shift_tree(top, labels, dates, pt)
        dic = tt.load(spec)
        model = dic["tree"]
        tr = model.transform
        x = torch.tensor(pt)
        y = tr(x)
        ref = autodiff_logdet(lambda z: tr(z), x, 1)
        got = tr.log_abs_det_jacobian(x, y)
        tol = TOL_J * max(1.0, abs(float(ref)))
        if not abs(float(got) - float(ref)) <= tol:
            bad.append(("log_jacobian", f"{shape} {n} tips {kind}: reported {float(got)!r} autodiff {float(ref)!r}"))
        got2 = model()
        if not abs(float(got2) - float(ref)) <= tol:
            bad.append(("tree_model_call", f"{shape} {n} tips {kind}: tree_model() = {float(got2)!r}, autodiff "
                                           f"{float(ref)!r}"))
        xr = tr.inv(y)
        if tuple(xr.shape) != tuple(x.shape) or float((xr - x).abs().max()) > 1e-8 * max(1.0, float(x.abs().max())):
            bad.append(("inverse", f"{shape} {n} tips {kind}: max |inv(forward(x)) - x| = {float((xr - x).abs().max()):.3e}"))
    except Exception as e:
        bad.append(("evaluate", f"{type(e).__name__}: {str(e)[:200]}"))
    return bad, 1


def check_logdiff(case):
    import torch

    n = case["n"]
    labels = [f"t{i}" for i in range(n)]
    top = en.rooted_topologies(labels)[case["top"]]
    m = 2 * n - 2
    pts = [[0.4 + 0.37 * ((3 * j) % m) for j in range(m)], [2.1 - 0.19 * j for j in range(m)],
           [1.0] * m, [0.05 * (j + 1) for j in range(m)]]
    bad = []
    try:
        spec = [tb.time_tree(top, labels, [0.0] * n, [1.0 + j for j in range(n - 1)]),
                {"id": "tp", "type": "TransformedParameter", "transform": "LogDifferenceRateTransform",
                 "x": {"id": "x", "type": "Parameter", "tensor": pts[0]},
                 "parameters": {"tree_model": "tree"}}]
        dic = tt.load(spec)
        tp, tr = dic["tp"], dic["tp"].transform
        prev = None
        for pt in pts:
            x = torch.tensor(pt)
            y = tr(x)
            ref = autodiff_logdet(lambda z: tr(z), x, 1)
            got = tr.log_abs_det_jacobian(x, y)
            if float((got - ref).abs()) > TOL_J:
                bad.append(("log_jacobian", f"x={pt}: reported {float(got)!r} autodiff {float(ref)!r}"))
            dic["x"].tensor = x
            got2 = tp()
            if float((got2 - ref).abs()) > TOL_J:
                bad.append(("transformed_parameter_call", f"x={pt} (previous {prev}): {float(got2)!r} vs {float(ref)!r}"))
            prev = pt
            if bad:
                break
    except Exception as e:
        bad.append(("evaluate", f"{type(e).__name__}: {str(e)[:200]}"))
    return bad, len(pts)


def cases(tier):
    out = []
    for name, (_, _, _, _, dims) in PLAIN.items():
        for d in dims:
            if tier == "quick" and d > 4:
                continue
            out.append({"part": "plain", "transform": name, "d": d})
    for d in (1, 2, 3):
        out.append({"part": "tril", "transform": "TrilExpDiagonalTransform", "d": d})
    for k, b in enumerate(BIG):
        out.append({"part": "tree_big", "big": k, "transform": "GeneralNodeHeightTransform" if b[3] == "ratio"
                    else "DifferenceNodeHeightTransform"})
    ns = (3, 4, 5) if tier == "quick" else (3, 4, 5, 6)
    for n in ns:
        labels = [f"t{i}" for i in range(n)]
        ntop = en.n_rooted(n)
        pats = list(itertools.product((0.0, 1.5), repeat=n))
        if n == 6:
            pats = pats[::3]
        for ti in range(ntop):
            for pat in pats:
                for kind in ("ratio", "shift"):
                    out.append({"part": "tree", "n": n, "top": ti, "ages": list(pat), "kind": kind,
                                "transform": "GeneralNodeHeightTransform" if kind == "ratio"
                                else "DifferenceNodeHeightTransform"})
            if n <= 5:
                out.append({"part": "logdiff", "n": n, "top": ti, "transform": "LogDifferenceRateTransform"})
    return out


FN = {"plain": check_plain, "tril": check_tril, "tree": check_tree, "logdiff": check_logdiff,
      "tree_big": check_tree_big}


def _work(chunk):
    return [(c,) + tuple(FN[c["part"]](c)) for c in chunk]


def sig(c, name):
    return {"transform": c["transform"], "check": name}


def run(run):
    cs = cases(run.tier)
    res = pmap(_work, chunked(cs, 96))
    evals = 0
    distinct = 0
    for chunk in res:
        for c, bad, n in chunk:
            evals += n
            if c["part"] != "tree" or len(set(c["ages"])) > 1:
                distinct += n
            seen = set()
            for name, detail in bad:
                if name in seen:
                    continue
                seen.add(name)
                run.violation(c, f"{c}: {name}: {detail}", sig(c, name))
    # coverage of the shipped Transform classes
    import inspect

    import torch

    import torchtree.distributions.transforms as T1
    import torchtree.evolution.rate_transform as T3
    import torchtree.evolution.tree_height_transform as T2

    shipped = sorted({k for mod in (T1, T2, T3) for k, v in vars(mod).items()
                      if inspect.isclass(v) and issubclass(v, torch.distributions.Transform)
                      and v.__module__ == mod.__name__})
    covered = {c["transform"] for c in cs}
    missing = [k for k in shipped if k not in covered and k not in NOT_INVERTIBLE]
    if missing:
        raise RuntimeError(f"shipped transforms neither checked nor excluded: {missing}")
    per = {}
    for c in cs:
        per[c["transform"]] = per.get(c["transform"], 0) + 1
    cov = {
        "evaluations": evals,
        "distinct_nontrivial": distinct,
        "rule": "plain transforms: full lattice {5 values}^d for d=1..5; tree transforms: every topology "
                "x date pattern x 3 points visited in sequence on the same model; evaluations = points; "
                "non-trivial = all points except those on isochronous trees",
        "samples": [cs[0], cs[25], cs[len(cs) // 2], cs[-1]],
        "exhaustive": True,
        "cases_per_transform": per,
        "shipped_transforms": shipped,
        "excluded_not_invertible": NOT_INVERTIBLE,
    }
    return run.finish(cov, assumptions=[
        "autograd Jacobian of the forward map (torch.autograd.functional.jacobian) + slogdet is the reference",
        "StickBreaking: determinant of the d x d minor, as torch defines it",
        "points with ties between the two children of a node are not used for the increment transform (max is not differentiable there)",
    ])


def replay(case):
    bad, _ = FN[case["part"]](case)
    return [{"case": case, "detail": f"{n}: {d}", "sig": sig(case, n)} for n, d in bad]
