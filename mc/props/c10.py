"""C10 – a sample dimension never mixes samples.

For every model graph (the torchtree-cli generated fixtures of mc/builders/graphs plus the
hand-written graphs of mc/builders/c10_graphs.py, together covering every registered callable
model and every shipped transform), for every enumerated subset of its named parameters and for
every sample shape [S] / [S,K]:  ONE graph is built in which the parameters of the subset carry
the leading sample dimensions (slice j of every batched parameter is a different generic point of
its domain) and every density / transform / composite model of that graph is evaluated.

Oracle (differential, per slice): the value at sample index j must equal the value of the same
observable in a graph built *fresh* from the JSON specification holding the j-th slice of every
batched parameter (and the unbatched values of the others).  A joint density must in addition
equal the sum of the per-slice values of its components.  Outcomes:
  * equal                                                     -> ok
  * building or evaluating the batched graph raises              -> ok (failing loudly is allowed)
  * a tensor whose shape is not sample_shape + unbatched shape (up to singleton dimensions)
    although the observable depends on a batched parameter, or whose slice differs -> violation
An observable that does not depend on any batched parameter may return its unbatched value.
The sample dimensions enter the graph in two ways (three in the thorough tier): they are present in
the JSON specification when the graph is built, or the graph is built unbatched, evaluated, and the
batched tensors are then assigned to the parameters (the sample()/rsample() flow of the variational
objectives), with or without the evaluation in between.
Dependence is measured, not read off the code: an observable depends on a parameter iff its value
in a fresh graph changes when that parameter alone is displaced.
"""
import itertools
import math
import os

from mc.env import tt
from mc.explore import graphstate as gs
from mc.runner import chunked, jdump, pmap

LEVEL = "exploration"
# relative to max(1, |reference|).  Calibrated on the unchanged tree: the largest deviation between a batched
# evaluation and the evaluation of its slice alone is 6.2e-14 over VERIF_SEED in {0,1,2,7,42}, both tiers
# (batched vs. single eigendecomposition / matrix products in the tree likelihood); 1e-10 leaves > 1000x.
# Every run records the largest accepted deviation and where it occurred in the evidence.
RTOL = 1e-10

RUNNABLE = {"Optimizer", "MCMC", "Logger", "TreeLogger", "Sampler", "HMC", "CSV", "Dumper", "ContainerLogger"}
STOCHASTIC = ("ELBO", "SELBO", "KLpq", "KLpqImportance", "VR", "CUBO")
EXCLUDED = {
    "ELBO": "objective that draws its own samples (value depends on the random stream): C14",
    "SELBO": "objective that draws its own samples: C14", "KLpq": "objective that draws its own samples: C14",
    "KLpqImportance": "objective that draws its own samples: C14", "VR": "objective that draws its own samples: C14",
    "CUBO": "objective that draws its own samples: C14",
    "Hamiltonian": "built inside the HMC operator around a momentum draw: C16",
    "Module": "nn.Module wrapper (neural network state)", "NormalizingFlow": "neural flow (nn.Module state)",
    "RealNVP": "neural flow (nn.Module state)",
}

_GRAPHS = None


def _strip_runnables(spec):
    return [o for o in spec if not (isinstance(o, dict) and str(o.get("type", "")).split(".")[-1] in RUNNABLE)]


def all_graphs():
    global _GRAPHS
    if _GRAPHS is None:
        from mc.builders import c10_graphs as cg

        out = {}
        for name in gs.fixtures():
            dims = [4, 5] if "unrooted" in name else [4, 6]
            out["cli_" + name] = {"spec": _strip_runnables(gs.load_fixture(name)), "domains": {}, "dims": dims}
        out.update(cg.graphs())
        _GRAPHS = out
    return _GRAPHS


# -- generic in-domain values --------------------------------------------------------------------

def _frac(x):
    return x - math.floor(x)


def _off(i, j, seed):
    """generic offset for element i of slice j; |.| < 0.55; pairwise distinct over j = 0..10"""
    return (0.09 * (((7 * i + 3 * j + 2) % 11) - 5) + 0.0123 * ((5 * i + j) % 7)
            + 0.011 * _frac(0.6180339887 * (seed + 1) * (i + 1) + 0.37 * j))


def auto_kind(name, x0):
    if name.endswith((".unres", ".log", ".unshifted")) or bool((x0 < 0).any()):
        return "real"
    if x0.dim() == 1 and x0.numel() > 1 and abs(float(x0.sum()) - 1.0) < 1e-9:
        return "simplex"
    if bool((x0 > 0).all()):
        return "positive"
    return "real"


def displace(x0, kind, j, seed):
    """value of the parameter (unbatched shape) for sample slice j"""
    import torch

    n = x0.numel()
    off = torch.tensor([_off(i, j, seed) for i in range(n)], dtype=x0.dtype).reshape(x0.shape)
    if kind == "real":
        return x0 + off
    if kind == "positive":
        return x0 * off.exp()
    if kind == "unit":
        return torch.sigmoid(torch.logit(x0) + off)
    if kind == "simplex":
        return torch.softmax(x0.log() + off, -1)
    if kind == "grid":
        return x0 * math.exp(_off(0, j, seed))
    if kind in ("spd", "tril"):
        L = torch.linalg.cholesky(x0) if kind == "spd" else x0.clone()
        d = L.shape[-1]
        L2 = torch.tril(L + torch.tril(off, -1))
        idx = torch.arange(d)
        L2[idx, idx] = torch.diagonal(L) * torch.diagonal(off).exp()
        return L2 @ L2.t() if kind == "spd" else L2
    e = [0.011 * _frac(0.6180339887 * (seed + 1) * (i + 1) + 0.37 * j) for i in range(3)]
    if kind == "heights4":  # ((t0,t1),(t2,t3)) with tip ages 0, .3, 0, .5: nodes (t0,t1), (t2,t3), root
        # (t0,t1) lies below the sampling time of t3 in slice 1 (and every fifth slice): the slices of one
        # batch interleave sampling and coalescent events differently
        h4 = 0.35 + 0.23 * ((2 * j + 3) % 5) + 0.013 * j + e[0]
        h5 = 0.7 + 0.19 * ((3 * j) % 5) + 0.013 * j + e[1]
        return torch.tensor([h4, h5, max(h4, h5) + 0.4 + 0.07 * j + e[2]], dtype=x0.dtype)
    if kind == "heights3":  # ((t0,t1),t2) with tip ages 0, .2, 0
        h3 = 0.4 + 0.23 * ((2 * j + 1) % 5) + 0.013 * j + e[0]
        return torch.tensor([h3, h3 + 0.3 + 0.07 * j + e[1]], dtype=x0.dtype)
    raise ValueError(kind)


# -- observables ------------------------------------------------------------------------------------

def observables(dic):
    """(name, class name, thunk, object) for every density / transform / composite model of the graph"""
    from torchtree.core.model import CallableModel
    from torchtree.core.parameter import TransformedParameter
    from torchtree.distributions.joint_distribution import JointDistributionModel

    obs = []
    for name in sorted(dic, key=str):
        o = dic[name]
        cls = type(o).__name__
        if isinstance(o, CallableModel) and cls not in EXCLUDED:
            obs.append((f"{name}()", cls, o, o))
            if cls != "JointDistributionModel":
                # the same density as the only component of a joint (built at evaluation time): the
                # joint reduces it according to the sample shape the component reports
                obs.append((f"joint[{name}]()", cls + "@joint",
                            (lambda m: (lambda: JointDistributionModel(None, [m])()))(o), o))
            if cls == "ReparameterizedTimeTreeModel":  # the height transform itself
                obs.append((f"{name}.node_heights", cls, (lambda m: (lambda: m.node_heights))(o), o))
            if cls in ("PiecewiseConstantCoalescentModel", "PiecewiseConstantCoalescentGridModel") \
                    and getattr(o, "temperature", None) is None:
                for i in (0, 1):
                    obs.append((f"{name}.sufficient_statistics[{i}]", cls + ".sufficient_statistics",
                                (lambda m, i_: (lambda: m.distribution().sufficient_statistics(
                                    m.tree_model.node_heights)[i_]))(o, i), o))
        elif cls == "TimeTreeModel":
            obs.append((f"{name}.branch_lengths()", cls, o.branch_lengths, o))
        elif isinstance(o, TransformedParameter):
            tcls = "TransformedParameter:" + type(o.transform).__name__
            obs.append((f"{name}()", tcls, o, o))
            obs.append((f"{name}.tensor", tcls, (lambda p: (lambda: p.tensor))(o), o))
    return obs


def observe(dic):
    out = {}
    for name, cls, f, _ in observables(dic):
        try:
            v = f()
            out[name] = v.detach().clone().double() if v.is_floating_point() else v.detach().clone()
        except Exception as e:
            out[name] = ("raises", f"{type(e).__name__}: {str(e)[:100]}")
    return out


def obs_classes(dic):
    return {name: cls for name, cls, _, _ in observables(dic)}


def _children(o):
    out = []
    d = getattr(o, "__dict__", {})
    for key, v in list(d.items()):
        if key in ("listeners", "_listeners"):
            continue  # listeners point upwards
        if isinstance(v, dict):
            out.extend(v.values())
        elif isinstance(v, (list, tuple)):
            out.extend(v)
        else:
            out.append(v)
    return [c for c in out if hasattr(c, "__dict__") and (type(c).__module__.startswith("torchtree")
                                                         or type(c).__module__.startswith("torch.distributions"))]


def _down(o):
    seen = {}
    stack = [o]
    while stack:
        x = stack.pop()
        if id(x) in seen:
            continue
        seen[id(x)] = x
        stack.extend(c for c in _children(x) if not isinstance(c, type))
    return set(seen)


def _held_as(holder, x):
    for dname in ("_parameters", "_models"):
        for k, v in getattr(holder, dname, {}).items():
            if v is x:
                return k
    for k, v in getattr(holder, "__dict__", {}).items():
        if v is x:
            return k
    return "?"


def param_roles(dic, params):
    """roles[observable][parameter id] = sorted 'OwnerClass.attribute' strings: the models (reachable from
    the observable) that hold the parameter, directly or through derived parameters / containers"""
    from torchtree.core.abstractparameter import AbstractParameter
    from torchtree.core.container import Container
    from torchtree.core.parameter import TransformedParameter

    owners = {}
    for k in params:
        found = []
        seen = set()
        stack = [(dic[k], None)]
        while stack:
            x, below = stack.pop()
            for L in list(getattr(x, "listeners", [])) + list(getattr(x, "_listeners", [])):
                if (id(L), id(x)) in seen:
                    continue
                seen.add((id(L), id(x)))
                attr = _held_as(L, x)
                if isinstance(L, TransformedParameter):
                    hop = "x" if L.x is x else "transform"
                    found.append((L, f"TransformedParameter[{type(L.transform).__name__}].{hop}"))
                    stack.append((L, x))
                elif isinstance(L, (AbstractParameter, Container)):
                    stack.append((L, x))
                else:
                    cls = type(L).__name__
                    if hasattr(L, "dict_parameters"):
                        cls = f"{cls}[{getattr(L.dist, '__name__', '?')}]"
                        if isinstance(x, Container):
                            keys = [kk for kk, vv in L.dict_parameters.items() if vv is below]
                            attr = keys[0] if keys else attr
                    found.append((L, f"{cls}.{attr}"))
        owners[k] = found
    roles = {}
    for name, cls, _, obj in observables(dic):
        below = _down(obj)
        r = {}
        for k in params:
            strs = set()
            for L, sname in owners[k]:
                if isinstance(L, TransformedParameter):
                    if L is obj:
                        strs.add(sname)
                elif L is obj or id(L) in below:
                    strs.add(sname)
            r[k] = sorted(strs)
        roles[name] = r
    return roles


def joint_components(spec):
    """joint id -> list of component ids, read off the JSON specification"""
    out = {}

    def rec(o):
        if isinstance(o, dict):
            if str(o.get("type", "")).split(".")[-1] == "JointDistributionModel":
                out[o["id"]] = [d if isinstance(d, str) else d["id"] for d in o["distributions"]]
            for v in o.values():
                rec(v)
        elif isinstance(o, list):
            for v in o:
                rec(v)

    rec(spec)
    return out


def _squeeze(shape):
    return tuple(int(s) for s in shape if int(s) != 1)


def _close(a, b):
    """max deviation relative to max(1, |b|); nan/inf must agree exactly"""
    import torch

    a = a.reshape(-1).double()
    b = b.reshape(-1).double()
    fin = torch.isfinite(b)
    if not bool((torch.isfinite(a) == fin).all()):
        return float("inf")
    if not bool(fin.all()):
        if not bool(((a[~fin] == b[~fin]) | (torch.isnan(a[~fin]) & torch.isnan(b[~fin]))).all()):
            return float("inf")
        a, b = a[fin], b[fin]
    if a.numel() == 0:
        return 0.0
    return float(((a - b).abs() / b.abs().clamp(min=1.0)).max())


def judge(out, shape, fresh, depends):
    """-> (status, detail, maxdev); status in ok | ok_unbatched | shape | slice_mismatch | unjudged"""
    import torch

    n = len(fresh)
    if any(isinstance(f, tuple) for f in fresh):
        return "unjudged", "the unbatched graph raises on a slice", 0.0
    if any(f.is_floating_point() and not bool(torch.isfinite(f).all()) for f in fresh):
        return "unjudged", "the unbatched graph returns a non-finite value on a slice", 0.0
    f0 = fresh[0]
    if not depends and any(f.shape != f0.shape or not bool(torch.equal(f, f0)) for f in fresh[1:]):
        depends = True  # the slices differ after all: judge it as a dependent observable
    if not depends and _squeeze(out.shape) == _squeeze(f0.shape):
        dev = _close(out, f0)
        if dev <= RTOL:
            return "ok_unbatched", "", dev
        if _squeeze(tuple(shape) + tuple(f0.shape)) != _squeeze(out.shape):
            return ("slice_mismatch", f"does not depend on a batched parameter but returns "
                                      f"{out.reshape(-1)[:4].tolist()} instead of its unbatched value "
                                      f"{f0.reshape(-1)[:4].tolist()}", dev)
    want = _squeeze(tuple(shape) + tuple(f0.shape))
    if _squeeze(out.shape) != want:
        return ("shape", f"returned shape {list(out.shape)}; sample shape {list(shape)}, unbatched shape "
                         f"{list(f0.shape)}", 0.0)
    rows = out.reshape(n, -1)
    worst = 0.0
    for j in range(n):
        dev = _close(rows[j], fresh[j])
        if dev > RTOL:
            return ("slice_mismatch",
                    f"sample {j}: batched {rows[j].reshape(-1)[:4].tolist()} vs slice alone "
                    f"{fresh[j].reshape(-1)[:4].tolist()} (rel dev {dev:.3g})", dev)
        worst = max(worst, dev)
    return "ok", "", worst


# -- one graph ------------------------------------------------------------------------------------------

class GraphCtx:
    """per-process cache for one graph: base values, kinds, dependence map, fresh evaluations"""

    def __init__(self, name, seed):
        import torch

        entry = all_graphs()[name]
        self.name = name
        self.seed = seed
        self.spec = entry["spec"]
        dic = tt.load(self.spec)
        self.base = gs.base_values(dic)
        self.kinds = {k: entry["domains"].get(k) or auto_kind(k, v) for k, v in self.base.items()}
        self.classes = obs_classes(dic)
        self.obs0 = observe(dic)
        self.joints = joint_components(self.spec)
        self.fresh_cache = {}
        self.control_cache = {}
        self.maxdev_at = ""
        self.dep = {o: set() for o in self.obs0}
        for k in self.base:
            vals = dict(self.base)
            vals[k] = displace(self.base[k], self.kinds[k], 0, seed)
            try:
                o1 = observe(tt.load(gs.with_values(self.spec, vals)))
            except Exception:
                continue
            for o, v0 in self.obs0.items():
                v1 = o1.get(o)
                if isinstance(v0, tuple) or isinstance(v1, tuple):
                    if isinstance(v0, tuple) != isinstance(v1, tuple):
                        self.dep[o].add(k)
                elif v0.shape != v1.shape or not bool(torch.equal(v0, v1)):
                    self.dep[o].add(k)
        used = set().union(*self.dep.values()) if self.dep else set()
        self.params = [k for k in self.base if k in used]
        self.unused = [k for k in self.base if k not in used]
        self.roles = param_roles(dic, self.params)

    def slice_values(self, subset, j):
        vals = dict(self.base)
        for k in subset:
            vals[k] = displace(self.base[k], self.kinds[k], j, self.seed)
        return vals

    def fresh(self, subset, j):
        key = (tuple(subset), j)
        if key not in self.fresh_cache:
            try:
                dic = tt.load(gs.with_values(self.spec, self.slice_values(subset, j)))
                self.fresh_cache[key] = observe(dic)
            except Exception as e:  # the library cannot build the unbatched graph on this point
                self.fresh_cache[key] = {"__build__": f"{type(e).__name__}: {str(e)[:100]}"}
        return self.fresh_cache[key]

    def assign_control(self, subset, mode):
        """control for the assign modes: the same assignment with the UNBATCHED slice-0 values.  Observables
        that then differ from a fresh graph are stale after an update (property C11), whatever the shape of
        the new values: they are not judged here.  Returns the set of such observables."""
        key = (tuple(subset), mode)
        if key not in self.control_cache:
            bad = set()
            ref = self.fresh(subset, 0)
            if "__build__" in ref:
                bad = set(self.obs0)
            else:
                dic = tt.load(self.spec)
                if mode == "assign":
                    observe(dic)
                try:
                    for k in subset:
                        dic[k].tensor = displace(self.base[k], self.kinds[k], 0, self.seed)
                    got = observe(dic)
                    for o, r in ref.items():
                        v = got.get(o)
                        if isinstance(r, tuple) or isinstance(v, tuple):
                            if isinstance(r, tuple) != isinstance(v, tuple):
                                bad.add(o)
                        elif v.shape != r.shape or _close(v, r) > RTOL:
                            bad.add(o)
                except Exception:
                    bad = set(self.obs0)
            self.control_cache[key] = bad
        return self.control_cache[key]

    def batched(self, subset, shape):
        import torch

        n = int(math.prod(shape))
        vals = dict(self.base)
        for k in subset:
            rows = [displace(self.base[k], self.kinds[k], j, self.seed) for j in range(n)]
            vals[k] = torch.stack(rows).reshape(tuple(shape) + tuple(self.base[k].shape))
        return gs.with_values(self.spec, vals)


_CTX = {}


def ctx(name, seed):
    key = (name, seed)
    if key not in _CTX:
        _CTX.clear()  # one graph at a time per process
        _CTX[key] = GraphCtx(name, seed)
    return _CTX[key]


def subsets_of(params, thorough):
    p = len(params)
    full_upto = 8 if thorough else 6
    if p <= full_upto:
        idx = [c for r in range(1, p + 1) for c in itertools.combinations(range(p), r)]
    else:
        idx = [(i,) for i in range(p)]
        idx += list(itertools.combinations(range(p), 2))
        if thorough and p <= 12:
            idx += list(itertools.combinations(range(p), 3))
        idx += [tuple(k for k in range(p) if k != i) for i in range(p)]
        idx.append(tuple(range(p)))
    seen, out = set(), []
    for c in idx:
        if c not in seen:
            seen.add(c)
            out.append([params[i] for i in c])
    return out


def shapes_of(dims, thorough):
    if thorough:
        ss = sorted(set(range(1, 6)) | {d for d in dims if d <= 7})
        kk = range(1, 4)
    else:
        ss = sorted(set(range(1, 5)) | {d for d in dims if d <= 6})
        kk = range(1, 3)
    return [[s] for s in ss] + [[s, k] for s in kk for k in kk]


def assign_causes(viols):
    """viols: worker records with keys graph, obs, check, rel (relevant batched parameters).  Adds 'cause':
    a minimal (by inclusion, then size, then name) relevant set among the violations of the same
    (graph, observable, check) that is contained in rel."""
    groups = {}
    for v in viols:
        groups.setdefault((v["graph"], v["obs"], v["check"], v["mode"]), set()).add(tuple(v["rel"]))
    minimal = {}
    for key, sets in groups.items():
        fs = sorted((frozenset(t) for t in sets), key=lambda f: (len(f), sorted(f)))
        keep = []
        for f in fs:
            if not any(m <= f for m in keep):
                keep.append(f)
        minimal[key] = keep
    for v in viols:
        rel = frozenset(v["rel"])
        cands = [m for m in minimal[(v["graph"], v["obs"], v["check"], v["mode"])] if m <= rel]
        v["cause"] = sorted(cands[0]) if cands else sorted(rel)
    return viols


def final_sig(v):
    roles = sorted(set(r for k in v["cause"] for r in v["roles"].get(k, [])) or set(v["cause"]))
    model, _, wrapped = v["model"].partition("@")
    return {"check": v["check"], "model": model, "wrapped": wrapped, "cause": "+".join(roles), "rank": v["rank"],
            "mode": v["mode"], "graph": v["graph"], "observable": v["obs"],
            "cause_params": "+".join(v["cause"])}


MODES = ("build", "assign", "assign_cold")


def batched_observation(g, subset, shape, mode):
    """how the sample dimensions get into the graph:
    build        the JSON specification already holds the batched tensors
    assign       the graph is built unbatched, every observable is evaluated once, then the batched tensors
                 are assigned to the parameters (what sample()/rsample() and the variational objectives do)
    assign_cold  as assign, without the evaluation before the assignment
    returns (observation dict | None when building/assigning raised, set of observables not to be judged)"""
    if mode == "build":
        try:
            return observe(tt.load(g.batched(subset, shape))), set()
        except Exception:
            return None, set()
    skip = g.assign_control(subset, mode)
    import torch

    dic = tt.load(g.spec)
    if mode == "assign":
        observe(dic)
    n = int(math.prod(shape))
    try:
        for k in subset:
            rows = [displace(g.base[k], g.kinds[k], j, g.seed) for j in range(n)]
            dic[k].tensor = torch.stack(rows).reshape(tuple(shape) + tuple(g.base[k].shape))
    except Exception:
        return None, set()
    return observe(dic), skip


def evaluate(g, subset, shape, mode="build"):
    """one batched graph: returns (violations, tallies dict, max accepted deviation)"""
    tallies = {"ok": 0, "ok_unbatched": 0, "ok_raises": 0, "unjudged": 0, "violations": 0, "build_raises": 0,
               "joint_sums": 0, "stale_control_failed": 0, "consequence_of_component": 0}
    viols = []
    maxdev = 0.0
    n = int(math.prod(shape))
    case0 = {"graph": g.name, "batched": list(subset), "shape": list(shape), "seed": g.seed, "mode": mode}

    def bad(check, obs, detail):
        tallies["violations"] += 1
        rel = sorted(set(subset) & g.dep.get(obs, set())) or sorted(subset)
        viols.append({"case": dict(case0, observable=obs), "graph": g.name, "obs": obs, "check": check,
                      "rel": rel, "rank": len(shape), "model": g.classes.get(obs, "?"), "mode": mode,
                      "roles": {k: g.roles.get(obs, {}).get(k, []) for k in rel},
                      "detail": f"[{g.name}] {mode}: batched {list(subset)} sample shape {list(shape)}: {obs}: "
                                f"{detail}"})

    live, skip = batched_observation(g, subset, shape, mode)
    if live is None:
        tallies["build_raises"] += 1  # refusing to build the batched graph / to take the values is failing loudly
        return viols, tallies, maxdev, False
    fresh = [g.fresh(subset, j) for j in range(n)]
    if any("__build__" in f for f in fresh):
        tallies["unjudged"] += len(live)
        return viols, tallies, maxdev, False
    nontrivial = False
    status_of = {}
    pending = {}
    for obs, out in live.items():
        depends = bool(g.dep[obs] & set(subset))
        if obs in skip:
            tallies["stale_control_failed"] += 1
            status_of[obs] = "skipped"
            continue
        if isinstance(out, tuple):
            tallies["ok_raises"] += 1
            status_of[obs] = "raises"
            continue
        status, detail, dev = judge(out, shape, [f[obs] for f in fresh], depends)
        status_of[obs] = status
        if status in ("ok", "ok_unbatched", "unjudged"):
            tallies[status] += 1
            if dev > maxdev:
                maxdev = dev
                g.maxdev_at = f"{g.name} {obs} batched {list(subset)} shape {list(shape)} {mode}"
            if status == "ok" and depends and n >= 2:
                nontrivial = True
        else:
            pending[obs] = (status, detail)
    # a composite whose own component already violates in this very case is a consequence, not a second defect
    for obs, (status, detail) in pending.items():
        comps = g.joints.get(obs[:-2], []) if obs.endswith("()") else []
        if any(f"{c}()" in pending for c in comps):
            tallies["consequence_of_component"] += 1
        else:
            bad(status, obs, detail)
    # a joint density adds up components belonging to the same sample only
    for jid, comps in g.joints.items():
        obs = f"{jid}()"
        out = live.get(obs)
        if out is None or isinstance(out, tuple) or status_of.get(obs) not in ("ok", "ok_unbatched"):
            continue
        names = [f"{c}()" for c in comps]
        if any(nm not in fresh[0] or isinstance(fresh[j][nm], tuple) for nm in names for j in range(n)):
            continue
        import torch

        sums = [sum(fresh[j][nm].sum() for nm in names) for j in range(n)]
        tallies["joint_sums"] += 1
        want = torch.stack([torch.as_tensor(s) for s in sums])
        got = out.reshape(-1)
        got = got.expand(n) if got.numel() == 1 else got
        if got.numel() != n or _close(got, want) > 1e-10:
            bad("joint_sum", obs, f"joint {got[:4].tolist()} vs sum of the components' per-sample values "
                                  f"{want[:4].tolist()}")
    return viols, tallies, maxdev, nontrivial


def modes_of(shape, thorough):
    """build and assign for every shape; the thorough tier adds the assignment without a previous evaluation
    for the shapes [2], [3] and [2,2] (what it can change does not depend on the sample shape)"""
    if thorough and list(shape) in ([2], [3], [2, 2]):
        return MODES
    return MODES[:2]


def work(chunk):
    """chunk: list of (graph, subset, tier, seed)"""
    out = []
    for name, subset, thorough, seed in chunk:
        g = ctx(name, seed)
        dims = all_graphs()[name]["dims"]
        for shape in shapes_of(dims, thorough):
            for mode in modes_of(shape, thorough):
                viols, tallies, maxdev, nontrivial = evaluate(g, subset, shape, mode)
                out.append({"graph": name, "subset": subset, "shape": shape, "mode": mode, "viols": viols,
                            "tallies": tallies, "maxdev": maxdev, "maxdev_at": g.maxdev_at if maxdev else "",
                            "nontrivial": nontrivial})
    return out


def plan(chunk):
    """chunk: list of (graph, thorough, seed) -> per graph: parameters, subsets, classes"""
    out = []
    for name, thorough, seed in chunk:
        try:
            tt.load(all_graphs()[name]["spec"])
        except Exception as e:  # the implementation cannot build the unbatched graph: nothing to compare
            out.append({"graph": name, "unbuildable": f"{type(e).__name__}: {str(e)[:200]}", "params": [],
                        "unused": [], "subsets": [], "classes": [], "observables": [], "unbatched_raises": []})
            continue
        g = ctx(name, seed)
        dic = tt.load(g.spec)
        classes = set(type(o).__name__ for o in dic.values())
        for o in dic.values():
            if hasattr(o, "transform"):
                classes.add(type(o.transform).__name__)
        out.append({"graph": name, "params": g.params, "unused": g.unused,
                    "subsets": subsets_of(g.params, thorough), "classes": sorted(classes),
                    "observables": sorted(g.obs0),
                    "unbatched_raises": sorted(o for o, v in g.obs0.items() if isinstance(v, tuple))})
    return out


def run(run):
    tt.boot()
    thorough = run.tier == "thorough"
    names = sorted(all_graphs())
    only = os.environ.get("VERIF_C10_ONLY")  # experiments only: restrict the graphs (recorded, not exhaustive)
    if only:
        names = [n for n in names if any(t in n for t in only.split(","))]
    plans = [p for ch in pmap(plan, chunked([(n, thorough, run.seed) for n in names], 64)) for p in ch]
    items = []
    for p in plans:
        for s in p["subsets"]:
            items.append((p["graph"], s, thorough, run.seed))
    nchunks = max(16, min(400, len(items) // 6))
    results = [r for ch in pmap(work, chunked(items, nchunks)) for r in ch]

    tallies = {}
    raw = []
    maxdev, maxdev_at = 0.0, ""
    nontrivial = 0
    per_graph = {}
    samples = []
    for r in results:
        for k, v in r["tallies"].items():
            tallies[k] = tallies.get(k, 0) + v
        if r["maxdev"] > maxdev:
            maxdev, maxdev_at = r["maxdev"], r["maxdev_at"]
        nontrivial += bool(r["nontrivial"])
        pg = per_graph.setdefault(r["graph"], {"batched_graphs": 0, "compared": 0, "raises": 0, "violations": 0})
        pg["batched_graphs"] += 1
        pg["compared"] += r["tallies"]["ok"] + r["tallies"]["ok_unbatched"]
        pg["raises"] += r["tallies"]["ok_raises"] + r["tallies"]["build_raises"]
        pg["violations"] += r["tallies"]["violations"]
        raw.extend(r["viols"])
        if r["nontrivial"] and len(samples) < 6 and len(r["subset"]) >= 2 and len(r["shape"]) == 2 \
                and all(s["graph"] != r["graph"] for s in samples):
            samples.append({"graph": r["graph"], "batched": r["subset"], "shape": r["shape"], "mode": r["mode"]})
    raw = assign_causes(raw)
    for v in raw:
        v["sig"] = final_sig(v)
        v["class"] = (v["sig"]["model"], v["sig"]["check"], v["sig"]["cause"])
    raw.sort(key=lambda v: (len(v["case"]["batched"]), math.prod(v["case"]["shape"]), len(v["case"]["shape"]),
                            MODES.index(v["mode"]), v["graph"], v["obs"]))
    firsts, rest, seen_classes = [], [], {}
    for v in raw:  # one representative (the smallest case) of every class first
        if v["class"] not in seen_classes:
            seen_classes[v["class"]] = {"cases": 0, "smallest": v["detail"][:300], "graphs": set()}
            firsts.append(v)
        else:
            rest.append(v)
        seen_classes[v["class"]]["cases"] += 1
        seen_classes[v["class"]]["graphs"].add(v["graph"])
    classes_summary = [{"model": k[0], "check": k[1], "cause": k[2], "cases": c["cases"],
                        "graphs": sorted(c["graphs"]), "smallest": c["smallest"]}
                       for k, c in sorted(seen_classes.items())]
    for v in firsts + rest:
        run.violation(dict(v["case"], cause=v["cause"]), v["detail"] + f"  [smallest failing batched set: "
                      f"{v['cause']}]", v["sig"])
    # registry coverage: every registered callable model is in a graph or excluded with a reason
    import inspect

    from torchtree.core.model import CallableModel
    from torchtree.core.utils import REGISTERED_CLASSES

    covered = set()
    for p in plans:
        covered |= set(p["classes"])
    missing = [k for k, v in REGISTERED_CLASSES.items()
               if inspect.isclass(v) and issubclass(v, CallableModel) and k not in covered and k not in EXCLUDED]
    if missing and not only:
        raise RuntimeError(f"registered callable models neither in a graph nor excluded: {missing}")
    evaluations = sum(tallies.get(k, 0) for k in ("ok", "ok_unbatched", "ok_raises", "violations", "unjudged",
                                                   "consequence_of_component", "stale_control_failed"))
    cov = {
        "evaluations": evaluations,
        "distinct_nontrivial": nontrivial,
        "rule": "case = (graph, batched subset of its named parameters, sample shape, entry mode); every case builds one "
                "batched graph and evaluates every density/transform/composite model in it (evaluations counts "
                "these observable evaluations).  Enumerated completely: all graphs x subsets (all 2^p-1 for "
                f"p <= {8 if thorough else 6}, otherwise singletons, pairs, "
                f"{'triples (p <= 12), ' if thorough else ''}complements of singletons and the full set) x shapes "
                f"[S] for S in 1..{5 if thorough else 4} and S = every other dimension of the graph (states, "
                f"categories, branches, taxa, event size; <= {7 if thorough else 6}), [S,K] for S,K in "
                f"1..{3 if thorough else 2} x the ways the sample dimensions enter the graph "
                f"({', '.join(MODES if thorough else MODES[:2])}: present in the JSON at construction / assigned "
                "to the parameters of an unbatched graph after a first evaluation"
                f"{' / assigned without a first evaluation (shapes [2], [3], [2,2] only)' if thorough else ''}).  distinct_nontrivial counts the "
                "distinct cases with at least 2 samples in which at least one observable depending on a batched "
                "parameter returned a tensor that was compared slice by slice with fresh unbatched graphs.",
        "samples": samples,
        "exhaustive": not only,
        "graph_filter": only or "",
        "graphs": len(names),
        "batched_graphs": len(results),
        "outcomes": tallies,
        "max_rel_dev_accepted": maxdev,
        "max_rel_dev_accepted_at": maxdev_at,
        "tolerance_rel": RTOL,
        "tolerance_headroom": (RTOL / maxdev) if maxdev else None,
        "per_graph": per_graph,
        "parameters": {p["graph"]: p["params"] for p in plans},
        "parameters_without_dependants_not_enumerated": {p["graph"]: p["unused"] for p in plans if p["unused"]},
        "observables_raising_unbatched_not_judged": {p["graph"]: p["unbatched_raises"] for p in plans
                                                     if p["unbatched_raises"]},
        "graphs_not_buildable_unbatched": {p["graph"]: p["unbuildable"] for p in plans if p.get("unbuildable")},
        "violation_classes": classes_summary,
        "classes_covered": sorted(covered),
        "classes_excluded": EXCLUDED,
    }
    return run.finish(cov, assumptions=[
        "graphs: committed torchtree-cli fixtures (3-4 taxa) + hand-written graphs; the empty subset (nothing "
        "batched) is the unbatched graph itself and is not enumerated",
        "slice j of a batched parameter is a fixed generic point of its domain (VERIF_SEED moves it); agreement "
        "between these points is not claimed",
        "the reference is torchtree itself on unbatched input (differential oracle): an error that is already "
        "present without sample dimensions is outside this property (C01, C04-C09 check those values)",
        f"tolerance {RTOL} relative to max(1,|value|); shapes are compared up to singleton dimensions",
        "an observable that raises or is non-finite on an unbatched slice is not judged",
        "a joint whose own component already violates in the same case is counted as a consequence "
        "(coverage.outcomes.consequence_of_component), not reported a second time",
        "assign modes: an observable that is already wrong after assigning UNBATCHED new values the same way "
        "(a stale cache, property C11) is not judged (coverage.outcomes.stale_control_failed)",
    ])


def replay(case):
    g = ctx(case["graph"], int(case.get("seed", 0)))
    viols, _, _, _ = evaluate(g, list(case["batched"]), list(case["shape"]), case.get("mode", "build"))
    want = case.get("observable")
    out = []
    for v in viols:
        if want is not None and v["obs"] != want:
            continue
        v["cause"] = list(case.get("cause") or v["rel"])
        v["roles"] = {k: g.roles.get(v["obs"], {}).get(k, []) for k in v["cause"]}
        out.append({"case": case, "detail": v["detail"], "sig": final_sig(v)})
    return out
