"""C13 - in a model specification every id denotes exactly one shared object.

Bounded-exhaustive exploration of a *language*: every specification derivable from a small
grammar over {Parameter, ViewParameter, TransformedParameter, CatParameter, Distribution,
JointDistributionModel, Taxon, Taxa} up to a size bound, every child slot filled in every way
(inline definition or reference) and every assignment of ids (up to renaming) - which produces
duplicate ids at every depth, backward / forward / cyclic / dangling references and all
well-formed sharing patterns.  Taxon / Taxa are included because they are container-like
registered classes (UserDict / UserList: an attribute-less Taxon and an empty Taxa are falsy).
Each specification is loaded exactly as `torchtree.main` does (remove_comments, expand_plates,
process_objects per element) and compared with the reference interpreter
`mc/oracle/spec_interp.py`:

* ill-formed (duplicate id anywhere, reference not defined before use) => JSONParseError;
  acceptance or any other exception type is a violation;
* well-formed => accepted; registry keys = defined ids; every slot of every holder *is*
  the registry object of the id it names; distinct ids are distinct objects; the values of
  all objects equal the numpy evaluation; an update of a base Parameter made through
  every holder of it (and through the registry) is observed by every object's value.

Every well-formed specification (up to a smaller bound) is then decorated in every single
position with comment keys, ignored objects, `ignore: false`, alternative type names, has
every list element marked ignored, gets every pair of list-level decorations, and is wrapped
once in a plate (var / star forms, several ranges, root or all ids templated); the expectation
is computed by the oracle's own comment removal and plate expansion.  Finally every
`json_factory` helper x argument menu is loaded and compared with directly constructed
objects (mc/props/c13_factories.py)."""
import copy
import hashlib
import itertools
import json

import numpy as np

from mc.env import tt
from mc.oracle import spec_interp as si
from mc.runner import jdump, pmap

LEVEL = "exploration"
TOL = 1e-9
LETTERS = "abcdefgh"

# kind -> (short type, category, possible slot-category tuples)
KINDS = {
    "P": ("Parameter", "p", [()]),
    "V": ("ViewParameter", "p", [("p",)]),
    "T": ("TransformedParameter", "p", [("p",)]),
    "C": ("CatParameter", "p", [("p",), ("p", "p")]),
    "D": ("Distribution", "m", [("p", "p")]),
    "J": ("JointDistributionModel", "m", [("m",), ("m", "m")]),
    # container-like classes: a Taxon without attributes and an empty Taxa are falsy objects
    "X": ("Taxon", "t", [()]),
    "Y": ("Taxon", "t", [()]),
    "A": ("Taxa", "a", [(), ("t",), ("t", "t")]),
}


# -- skeletons ---------------------------------------------------------------------

_tree_memo = {}
_fill_memo = {}


def trees(cat, n):
    """all object skeletons of category `cat` (None = any) with exactly n objects:
    (kind, (fill, ...)) where a fill is 'R' (reference) or a skeleton"""
    key = (cat, n)
    if key not in _tree_memo:
        out = []
        for k, (_, c, arities) in KINDS.items():
            if cat is not None and c != cat:
                continue
            for slots in arities:
                for f in fills(slots, n - 1):
                    out.append((k, f))
        _tree_memo[key] = out
    return _tree_memo[key]


def fills(slots, n):
    key = (slots, n)
    if key not in _fill_memo:
        if not slots:
            out = [()] if n == 0 else []
        else:
            out = []
            for m in range(0, n + 1):
                heads = ["R"] if m == 0 else trees(slots[0], m)
                for h in heads:
                    for rest in fills(slots[1:], n - m):
                        out.append((h,) + rest)
        _fill_memo[key] = out
    return _fill_memo[key]


def n_objects(t):
    return 0 if t == "R" else 1 + sum(n_objects(f) for f in t[1])


def n_refs(t):
    return 1 if t == "R" else sum(n_refs(f) for f in t[1])


def skeleton_specs(max_objects, max_refs_at_max=None, max_top=2):
    """all top-level lists (1..max_top elements) of skeletons with <= max_objects objects
    in total; lists with exactly max_objects objects may be restricted to <= max_refs_at_max
    reference slots"""
    out = []
    for n in range(1, max_objects + 1):
        cand = [[t] for t in trees(None, n)]
        if max_top >= 2:
            for n1 in range(1, n):
                for t1 in trees(None, n1):
                    for t2 in trees(None, n - n1):
                        cand.append([t1, t2])
        for s in cand:
            if n == max_objects and max_refs_at_max is not None and \
                    sum(n_refs(t) for t in s) > max_refs_at_max:
                continue
            out.append(s)
    return out


def rgs(length, kmax):
    """restricted growth strings: all id assignments up to renaming with <= kmax ids"""
    cur = [0] * length

    def rec(i, m):
        if i == length:
            yield tuple(cur)
            return
        for v in range(min(m + 1, kmax)):
            cur[i] = v
            yield from rec(i + 1, max(m, v + 1))

    return rec(0, 0)


def n_rgs(length, kmax):
    memo = {}

    def f(i, m):
        if i == length:
            return 1
        if (i, m) not in memo:
            memo[(i, m)] = sum(f(i + 1, max(m, v + 1)) for v in range(min(m + 1, kmax)))
        return memo[(i, m)]

    return f(0, 0)


def build(skel, labels, off):
    """JSON specification of a skeleton list with the given labels (document order: the id of
    an object, then its slots)."""
    it = iter(labels)
    count = [0]

    def obj(t):
        kind, fl = t
        id_ = LETTERS[next(it)]
        k = count[0]
        count[0] += 1
        vals = [obj(f) if f != "R" else LETTERS[next(it)] for f in fl]
        if kind == "P":
            return {"id": id_, "type": "Parameter",
                    "tensor": [round(0.31 + 0.17 * k + off, 6), round(-0.42 + 0.23 * k - off, 6)]}
        if kind == "V":
            return {"id": id_, "type": "ViewParameter", "parameter": vals[0], "indices": "0:1"}
        if kind == "T":
            return {"id": id_, "type": "TransformedParameter",
                    "transform": "torch.distributions.ExpTransform", "x": vals[0]}
        if kind == "C":
            return {"id": id_, "type": "CatParameter", "parameters": vals}
        if kind == "D":
            return {"id": id_, "type": "Distribution", "distribution": "torch.distributions.Normal",
                    "x": vals[0], "parameters": {"loc": vals[1], "scale": 1.5}}
        if kind == "X":
            return {"id": id_, "type": "Taxon"}
        if kind == "Y":
            return {"id": id_, "type": "Taxon", "attributes": {"date": round(1.5 + k + off, 6)}}
        if kind == "A":
            return {"id": id_, "type": "Taxa", "taxa": vals}
        return {"id": id_, "type": "JointDistributionModel", "distributions": vals}

    return [obj(t) for t in skel]


def seed_offset(seed):
    # continuous lattice offset only
    return round(((seed * 7919) % 1000) / 1000.0 * 0.05, 6)


# -- observation of the loaded objects ---------------------------------------------

def child_of(holder, tname, slot, idx):
    """the object a holder keeps in a slot (observation of the implementation's objects)"""
    if tname == "ViewParameter":
        return holder.parameter
    if tname == "TransformedParameter":
        return holder.x
    if tname == "CatParameter":
        ps = list(holder._parameter_container.params())
        return ps[idx] if idx < len(ps) else None
    if tname == "Distribution":
        return holder.x if slot == "x" else holder.dict_parameters.get("loc")
    if tname == "Taxa":
        return holder.data[idx] if idx < len(holder.data) else None
    ms = list(holder._distributions._models.values())
    return ms[idx] if idx < len(ms) else None


def n_children(holder, tname):
    if tname == "CatParameter":
        return len(list(holder._parameter_container.params()))
    if tname == "JointDistributionModel":
        return len(holder._distributions._models) + len(holder._distributions._parameters)
    if tname == "Taxa":
        return len(holder.data)
    return None


VTOL = [TOL]  # value tolerance in force (single precision for documents that mix floating dtypes)


def close(a, b):
    a = np.asarray(a, dtype=float)
    b = np.asarray(b, dtype=float)
    if a.shape != b.shape:
        return False
    if a.size == 0:
        return True
    return bool(np.all(np.abs(a - b) <= VTOL[0] * (1.0 + np.abs(b))))


def compare_values(dic, ids, ref):
    """first disagreement between the values of the loaded objects and the oracle's"""
    for i, tname in ids.items():
        want = ref[i]
        o = dic[i]
        try:
            if tname in ("Taxon", "Taxa"):
                got = dict(o.data) if tname == "Taxon" else [getattr(t, "id", None) for t in o.data]
                if got != want:
                    return f"`{i}' ({tname}) holds {got}, expected {want}"
                continue
            if si.SCHEMA[tname]["cat"] == "p":
                got = o.tensor.detach().numpy()
            else:
                if want is None:
                    continue
                got = o().detach().numpy()
        except Exception as e:
            return f"value of `{i}' ({tname}) raises {type(e).__name__}: {e}"
        if not close(got, want):
            return f"value of `{i}' ({tname}) is {got.tolist()}, expected {np.asarray(want).tolist()}"
    return None


def check_spec(spec, part="lang", pre=True):
    """Load one specification and compare with the reference interpreter.
    Returns (category, violations, error classes) with violations = [(check, detail, sigextra)]."""
    r = _check_spec(spec, pre)
    return r if len(r) == 3 else (r[0], r[1], "")


def _check_spec(spec, pre):
    import torch
    from torchtree.core.utils import JSONParseError

    ref_spec = si.preprocess(spec) if pre else spec
    exp = si.interpret(ref_spec)
    if not exp["typed"]:
        if not pre:
            raise RuntimeError("pre-filter let an untyped document through")
        return "untyped", [], ""
    try:
        # well-formed documents go through the real entry point torchtree.torchtree.main (--dry),
        # ill-formed ones through the same calls made directly
        dic = tt.load_main(spec) if exp["verdict"] != "error" else tt.load(spec)
        outcome, err = "accepted", None
    except JSONParseError as e:
        outcome, err = "parse_error", str(e)
    except Exception as e:
        outcome, err = "other_exception", f"{type(e).__name__}: {e}"
    if exp["verdict"] == "error":
        errs = "+".join(exp["errors"])
        if outcome != "parse_error":
            return "error", [("verdict", f"ill-formed specification ({errs}) "
                              f"is {outcome}" + (f" [{err}]" if err else ""),
                              {"outcome": outcome, "errors": errs})], errs
        return "error", [], errs
    if outcome != "accepted":
        return "ok", [("verdict", f"well-formed specification is rejected: {err}",
                       {"outcome": outcome, "errors": "none"})]
    ids = exp["ids"]
    # registry
    if set(dic.keys()) != set(ids):
        return "ok", [("registry_keys", f"registry holds {sorted(map(str, dic))}, defined ids "
                       f"{sorted(ids)}", {})]
    for i, tname in ids.items():
        o = dic[i]
        if type(o).__name__ != tname or getattr(o, "id", None) != i:
            return "ok", [("registry_object", f"registry[`{i}'] is a {type(o).__name__} with id "
                           f"{getattr(o, 'id', None)!r}, expected {tname}", {})]
    if len({id(o) for o in dic.values()}) != len(dic):
        return "ok", [("distinct_objects", "two ids denote the same instance", {})]
    # alias relation
    for hid, slot, idx, target, how in exp["slots"]:
        tname = ids[hid]
        child = child_of(dic[hid], tname, slot, idx)
        if child is not dic[target]:
            return "ok", [("alias", f"slot {slot}[{idx}] of `{hid}' ({how} `{target}') holds "
                           f"{type(child).__name__} id={getattr(child, 'id', None)!r} which is not "
                           f"the registry instance of `{target}'", {"how": how})]
    for i, tname in ids.items():
        n = n_children(dic[i], tname)
        if n is not None:
            want = sum(1 for s in exp["slots"] if s[0] == i)
            if n != want:
                return "ok", [("alias", f"`{i}' holds {n} children, the document lists {want}",
                               {"how": "count"})]
    # values
    bad = compare_values(dic, ids, si.evaluate(ref_spec))
    if bad:
        return "ok", [("value", bad, {})]
    # updates through every holder of every base Parameter
    current = {}
    step = 0
    objs = si.objects_by_id(ref_spec)
    for p in exp["order"]:
        if ids[p] != "Parameter":
            continue
        holders = [("registry", None, None)] + [(h, s, k) for h, s, k, t, _ in exp["slots"] if t == p]
        for hid, slot, idx in holders:
            step += 1
            base = objs[p]["tensor"]
            new = [round(base[0] + 0.05 * step, 6), round(base[1] - 0.07 * step, 6)]
            try:
                target = dic[p] if hid == "registry" else child_of(dic[hid], ids[hid], slot, idx)
                target.tensor = torch.tensor(new)
            except Exception as e:
                return "ok", [("update", f"update of `{p}' through {hid}.{slot} raises "
                               f"{type(e).__name__}: {e}", {})]
            current[p] = new
            bad = compare_values(dic, ids, si.evaluate(ref_spec, current))
            if bad:
                return "ok", [("update", f"after setting `{p}' to {new} through "
                               f"{hid if hid == 'registry' else hid + '.' + slot}: {bad}", {})]
    return "ok", []


# -- decorations -------------------------------------------------------------------

def walk(spec):
    """(object, parent list or None, index) for every inline object, document order; and
    (list, category) for every list that holds objects"""
    objs, lists = [], [(spec, None)]

    def rec(o, plist, idx):
        objs.append((o, plist, idx))
        for keypath, arity, cat in si.SCHEMA[si.short_type(o)]["slots"]:
            v = o
            for k in keypath:
                v = v[k]
            if arity in ("list", "list0"):
                lists.append((v, cat))
                for i, e in enumerate(v):
                    if isinstance(e, dict):
                        rec(e, v, i)
            elif isinstance(v, dict):
                rec(v, None, None)

    for i, e in enumerate(spec):
        rec(e, spec, i)
    return objs, lists


def _junk(id_, ignore=True):
    d = {"id": id_, "type": "Parameter", "tensor": [9.0, 9.5]}
    if ignore:
        d["ignore"] = True
    return d


def _junk_tree(cat, first):
    if cat == "t":
        return {"id": "zz", "type": "Taxa", "taxa": [{"id": first, "type": "Taxon"}, "nowhere"],
                "ignore": True}
    if cat == "p":
        return {"id": "zz", "type": "CatParameter",
                "parameters": [_junk(first, False), "nowhere"], "ignore": True}
    return {"id": "zz", "type": "Distribution", "distribution": "torch.distributions.Normal",
            "x": _junk(first, False), "parameters": {"loc": "nowhere", "scale": 1.0}, "ignore": True}


def _junk_plate(first, ignore=True):
    """a plate whose only clone would take the id of the first object of the document"""
    d = {"type": "Plate", "range": "0:1", "var": "i", "object": _junk(first, False)}
    if ignore:
        d["ignore"] = True
    return d


def decorations(spec):
    """(tag, decorated spec, same) – `same` = the decoration must leave the meaning of the
    base specification unchanged (otherwise the expectation comes from the oracle)."""
    nobj = len(walk(spec)[0])
    first = spec[0]["id"]
    for n in range(nobj):
        def at(fn):
            s = copy.deepcopy(spec)
            fn(walk(s)[0][n][0])
            return s

        def front(o):
            items = list(o.items())
            o.clear()
            o["_comment"] = "a note"
            o.update(items)

        yield f"comment_str@{n}", at(front), True
        yield f"comment_obj@{n}", at(lambda o: o.__setitem__("_shadow", _junk(first, False))), True
        yield f"comment_list@{n}", at(lambda o: o.__setitem__(
            "_refs", ["nowhere", _junk(first, False)])), True
        yield f"ignored_value@{n}", at(lambda o: o.__setitem__("aux", _junk(first))), True
        yield f"comment_plate@{n}", at(lambda o: o.__setitem__("_plate", _junk_plate(first, False))), True
        yield f"ignore_false@{n}", at(lambda o: o.__setitem__("ignore", False)), False
        if si.short_type(walk(spec)[0][n][0]) == "Parameter":
            # one parameter in single precision: a document that mixes floating dtypes (sharing is unchanged)
            yield f"dtype32@{n}", at(lambda o: o.__setitem__("dtype", "torch.float32")), False
        tname = si.short_type(walk(spec)[0][n][0])
        for k, alias in enumerate(si.TYPE_NAMES[tname][1:]):
            yield f"type_alias{k + 1}@{n}", at(lambda o: o.__setitem__("type", alias)), False
        if tname == "Distribution":
            yield f"comment_in_parameters@{n}", at(
                lambda o: o["parameters"].__setitem__("_loc", _junk(first, False))), True
    for op in list_ops(spec):
        yield _op_tag(op), apply_ops(spec, [op]), op[0] == "ins"


def list_ops(spec):
    """list-level decorations: insert an ignored object (four kinds, one of them an ignored plate)
    at every position of every list; mark every inline list element as ignored"""
    objs, lists = walk(spec)
    ops = []
    for li, (lst, _) in enumerate(lists):
        for pos in range(len(lst) + 1):
            for kind in ("dupid", "fresh", "tree", "plate"):
                ops.append(("ins", li, pos, kind))
    for n, (_, plist, _) in enumerate(objs):
        if plist is not None:
            ops.append(("mark", n))
    return ops


def _op_tag(op):
    return f"ins_ignored_{op[3]}@{op[1]}.{op[2]}" if op[0] == "ins" else f"mark_ignored@{op[1]}"


def apply_ops(spec, ops):
    """apply list-level decorations (positions refer to the undecorated document; several
    insertions at one position appear in the order given)"""
    s = copy.deepcopy(spec)
    objs, lists = walk(s)  # handles resolved before anything is changed
    first = spec[0]["id"]
    for op in ops:
        if op[0] == "mark":
            objs[op[1]][0]["ignore"] = True
    ins = [op for op in ops if op[0] == "ins"]
    for op in reversed(sorted(ins, key=lambda o: (o[1], o[2]))):
        _, li, pos, kind = op
        lst, cat = lists[li]
        junk = {"dupid": _junk(first), "fresh": _junk("zz"), "plate": _junk_plate(first)}.get(kind) \
            or _junk_tree(cat or "m", first)
        lst.insert(pos, junk)
    return s


def decoration_pairs(spec):
    """every unordered pair of list-level decorations (two insertions at one position in
    both orders; the same insertion twice = two adjacent ignored objects)"""
    ops = list_ops(spec)
    for i, a in enumerate(ops):
        for b in ops[i:]:
            if a == b and a[0] == "mark":
                continue
            neutral = a[0] == "ins" and b[0] == "ins"
            yield _op_tag(a) + "+" + _op_tag(b), apply_ops(spec, [a, b]), neutral
            if a != b and neutral and a[1:3] == b[1:3]:
                yield _op_tag(b) + "+" + _op_tag(a), apply_ops(spec, [b, a]), neutral


PLATE_RANGES = ["0:1", "0:2", "1:3", "0:4:2", "0:0"]


def _rename_refs(x, mapping):
    """rewrite reference strings in object slots"""
    def rec(o):
        for keypath, arity, _ in si.SCHEMA[si.short_type(o)]["slots"]:
            holder = o
            for k in keypath[:-1]:
                holder = holder[k]
            v = holder[keypath[-1]]
            if arity in ("list", "list0"):
                for i, e in enumerate(v):
                    if isinstance(e, str):
                        v[i] = mapping.get(e, e)
                    else:
                        rec(e)
            elif isinstance(v, str):
                holder[keypath[-1]] = mapping.get(v, v)
            else:
                rec(v)

    for e in x:
        rec(e)


def plates(spec):
    """wrap every inline list element once in a plate"""
    nobj = len(walk(spec)[0])
    for n in range(nobj):
        o, plist, idx = walk(spec)[0][n]
        if plist is None:
            continue
        inner = [x[0]["id"] for x in walk([o])[0]]
        scopes = [("root", [o["id"]])]
        if len(inner) > 1:
            scopes.append(("all", inner))
        for (scope, tset), form, rng in itertools.product(scopes, ("var", "star"), PLATE_RANGES):
            idxs = list(range(*[int(v) for v in rng.split(":")]))
            variants = ["plain"]
            if form == "var" and idxs and idxs[0] >= 1:
                # references written as a range whose first members do not exist (`x.{0:3}' when only
                # x.1 and x.2 are defined): ill-formed, must be rejected
                variants.append("rangeref")
            if form == "var" and idxs:
                variants.append("rangeempty")  # `x.{0:0}': denotes no object at all, must be rejected
            for variant in variants:
                s = copy.deepcopy(spec)
                objs = walk(s)[0]
                el, pl, ix = objs[n]
                if idxs:
                    conc = {i: (f"{i}.{idxs[0]}" if form == "var" else f"{i}{idxs[0]}") for i in tset}
                    if variant != "plain":
                        conc = {i: (f"{i}.{{0:{idxs[-1] + 1}}}" if variant == "rangeref" else f"{i}.{{0:0}}")
                                for i in tset}
                        before = copy.deepcopy(s)
                    _rename_refs(s, conc)
                    if variant != "plain" and s == before:
                        continue  # no reference to the plate's objects in this document
                for sub, _, _ in walk([el])[0]:
                    if sub["id"] in tset:
                        sub["id"] = sub["id"] + (".${i}" if form == "var" else "*")
                plate = {"type": "torchtree.Plate" if form == "var" else "Plate", "range": rng,
                         "object": el}
                if form == "var":
                    plate["var"] = "i"
                pl[ix] = plate
                yield (f"plate_{form}_{scope}_{rng}@{n}" if variant == "plain"
                       else f"plate_{variant}_{scope}_{rng}@{n}"), s


# -- workers -----------------------------------------------------------------------

class Tally:
    def __init__(self):
        self.counts = {}
        self.viol = {}  # sig json -> [count, [cases]]
        self.hashes = set()
        self.samples = {}

    def count(self, key, n=1):
        self.counts[key] = self.counts.get(key, 0) + n

    def record(self, part, tag, spec, viols):
        for check, detail, extra in viols:
            sig = {"check": check, "part": part}
            sig.update(extra)
            k = jdump(sig)
            ent = self.viol.setdefault(k, [0, []])
            ent[0] += 1
            size = len(json.dumps(spec))
            if len(ent[1]) < 2 or size < ent[1][-1]["size"]:
                ent[1].append({"case": {"part": part, "tag": tag, "spec": spec},
                               "detail": f"{part} {tag}: {detail}; spec={json.dumps(spec)}",
                               "sig": sig, "size": size})
                ent[1].sort(key=lambda v: v["size"])
                del ent[1][2:]

    def sample(self, key, spec):
        """keep the largest document seen per kind as the evidence sample"""
        cur = self.samples.get(key)
        if cur is None or len(json.dumps(spec)) > len(json.dumps(cur)):
            self.samples[key] = spec

    def pack(self):
        return {"counts": self.counts, "viol": self.viol, "nhash": len(self.hashes),
                "samples": self.samples}


def spec_hash(spec):
    return hashlib.blake2b(jdump(spec).encode(), digest_size=8).digest()


def roles(skel):
    """label positions in document order: ('def' | 'ref', category)"""
    out = []

    def rec(t):
        kind, fl = t
        _, cat, arities = KINDS[kind]
        slots = [a for a in arities if len(a) == len(fl)][0]
        out.append(("def", cat))
        for f, c in zip(fl, slots):
            if f == "R":
                out.append(("ref", c))
            else:
                rec(f)

    for t in skel:
        rec(t)
    return out


def do_lang(skel, opts, tally):
    nobj = sum(n_objects(t) for t in skel)
    npos = nobj + sum(n_refs(t) for t in skel)
    kmax = nobj + 1
    expected = n_rgs(npos, kmax)
    seen = 0
    rl = roles(skel)
    defs = [(i, c) for i, (r, c) in enumerate(rl) if r == "def"]
    refs = [(i, c) for i, (r, c) in enumerate(rl) if r == "ref"]
    selfcheck = 0
    prev = None
    for labels in rgs(npos, kmax):
        seen += 1
        if prev is not None and not labels > prev:
            raise RuntimeError("labellings are not strictly increasing (distinctness)")
        prev = labels
        # documents in which a reference names an object of the wrong category are outside
        # the language (same rule as the interpreter's `typed`, decided here without building)
        if refs:
            dcat = {}
            for i, c in defs:
                dcat.setdefault(labels[i], set()).add(c)
            untyped = False
            for i, c in refs:
                d = dcat.get(labels[i])
                if d and d != {c}:
                    untyped = True
                    break
            if untyped:
                tally.count("lang")
                tally.count("lang_untyped")
                selfcheck += 1
                if selfcheck % 997 == 1 and si.interpret(build(skel, labels, opts["off"]))["typed"]:
                    raise RuntimeError("pre-filter and interpreter disagree on typedness")
                continue
        spec = build(skel, labels, opts["off"])
        cat, viols, errs = check_spec(spec, "lang", pre=False)
        tally.count("lang_" + cat)
        tally.count("lang")
        if cat == "error":
            tally.count("lang_error:" + errs)
        if npos > 1:
            tally.count("lang_distinct")
        if viols:
            tally.record("lang", f"{nobj} objects", spec, viols)
        if cat == "ok":
            tally.sample("wellformed", spec)
            if nobj <= opts["decor_max"]:
                do_decor(spec, tally, pairs=nobj <= opts["pair_max"])
        elif cat == "error":
            tally.sample("illformed_" + errs.split("+")[0], spec) if "+" not in errs else None
    if seen != expected:
        raise RuntimeError(f"labelling enumeration truncated: {seen} != {expected}")


def deco_name(tag):
    return "+".join(t.split("@")[0] for t in tag.split("+"))


def do_decor(spec, tally, pairs=False):
    todo = decorations(spec)
    if pairs:
        todo = itertools.chain(todo, decoration_pairs(spec))
    for tag, s, same in todo:
        if same and si.strip_comments(s) != spec:
            raise RuntimeError(f"decoration {tag} is not neutral under the oracle: {s}")
        try:
            VTOL[0] = 1e-5 if "dtype32@" in tag else TOL
            try:
                cat, viols, _ = check_spec(s, "decor")
            finally:
                VTOL[0] = TOL
        except si.OutOfGrammar:
            tally.count("decor_skipped")
            continue
        tally.count("decor")
        tally.count("decor_" + cat)
        tally.hashes.add(spec_hash(s))
        if viols:
            tally.record("decor", tag, s, [(c, d, dict(e, decoration=deco_name(tag)))
                                           for c, d, e in viols])
        if cat == "ok":
            tally.sample("decor", s)
    for tag, s in plates(spec):
        try:
            cat, viols, _ = check_spec(s, "plate")
        except si.OutOfGrammar:
            tally.count("plate_skipped")
            continue
        tally.count("plate")
        tally.count("plate_" + cat)
        tally.hashes.add(spec_hash(s))
        if viols:
            form = tag.split("@")[0]
            tally.record("plate", tag, s, [(c, d, dict(e, decoration=form)) for c, d, e in viols])
        if cat == "ok":
            tally.sample("plate", s)


def _work(chunk):
    tt.boot()
    tally = Tally()
    for kind, item, opts in chunk:
        if kind == "lang":
            do_lang(item, opts, tally)
        else:
            from mc.props import c13_factories as fac

            fac.do_factory(item, tally)
    return tally.pack()


# -- driver ------------------------------------------------------------------------

def bounds(tier):
    if tier == "thorough":
        return {"max_objects": 4, "max_refs_at_max": 5, "decor_max": 4, "pair_max": 3}
    return {"max_objects": 4, "max_refs_at_max": 2, "decor_max": 3, "pair_max": 2}


def run(run):
    from mc.props import c13_factories as fac

    b = bounds(run.tier)
    off = seed_offset(run.seed)
    skels = skeleton_specs(b["max_objects"], b["max_refs_at_max"])
    opts = {"off": off, "decor_max": b["decor_max"], "pair_max": b["pair_max"]}
    # closed-form size of the labelled space
    size = 0
    weights = []
    for s in skels:
        nobj = sum(n_objects(t) for t in s)
        npos = nobj + sum(n_refs(t) for t in s)
        w = n_rgs(npos, nobj + 1)
        weights.append(w)
        size += w
    # balance: heavy skeletons first, round-robin into chunks
    order = sorted(range(len(skels)), key=lambda i: -weights[i])
    nchunks = 256
    chunks = [[] for _ in range(nchunks)]
    for j, i in enumerate(order):
        chunks[j % nchunks].append(("lang", skels[i], opts))
    fitems = fac.items(run.tier, off)
    for j, it in enumerate(fitems):
        chunks[j % nchunks].append(("factory", it, opts))
    chunks = [c for c in chunks if c]
    if len({repr(s) for s in skels}) != len(skels):
        raise RuntimeError("duplicate skeletons")
    res = pmap(_work, chunks)

    counts, viol, nhash, samples = {}, {}, 0, {}
    for r in res:
        for k, v in r["counts"].items():
            counts[k] = counts.get(k, 0) + v
        for k, (n, cases) in r["viol"].items():
            ent = viol.setdefault(k, [0, []])
            ent[0] += n
            ent[1].extend(cases)
        nhash += r["nhash"]
        for k, v in r["samples"].items():
            if k not in samples or len(jdump(v)) > len(jdump(samples[k])):
                samples[k] = v
    if counts.get("lang", 0) != size:
        raise RuntimeError(f"language enumeration incomplete: {counts.get('lang')} of {size}")
    if counts.get("factory", 0) != len(fitems):
        raise RuntimeError("factory menu incomplete")
    if not counts.get("lang_ok") or not counts.get("lang_error"):
        raise RuntimeError("vacuous run: no well-formed or no ill-formed specification")
    # smallest case first per signature
    firsts = []
    for k in viol:
        n, cases = viol[k]
        cases.sort(key=lambda v: len(jdump(v["case"]["spec"])))
        v = cases[0]
        v.pop("size", None)
        v["detail"] += f" [{n} cases with this signature]"
        firsts.append(v)
    parts = ["lang", "decor", "plate", "factory"]
    firsts.sort(key=lambda v: (parts.index(v["sig"]["part"]), len(jdump(v["case"]["spec"])),
                               jdump(v["sig"])))
    for v in firsts:
        run.violation(v["case"], v["detail"], v["sig"])
    evaluations = sum(counts.get(k, 0) for k in ("lang_ok", "lang_error", "decor", "plate", "factory"))
    cov = {
        "evaluations": evaluations,
        "distinct_nontrivial": counts.get("lang_distinct", 0) + nhash + counts.get("factory_distinct", 0),
        "rule": "every top-level list of <= 2 skeletons over {Parameter, ViewParameter(parameter), "
                "TransformedParameter(x), CatParameter(parameters[1..2]), Distribution(x, loc), "
                "JointDistributionModel(distributions[1..2]), Taxon (with / without attributes), "
                "Taxa(taxa[0..2])} with <= max_objects objects (documents with exactly max_objects "
                "objects: <= max_refs_at_max reference slots), every slot inline or reference, every "
                "id assignment up to renaming (restricted growth strings over objects+1 ids); every "
                "well-formed one with <= decor_max objects x every single decoration (comment keys "
                "with string / object / list values, ignored dict value, ignore:false, type-name "
                "aliases, ignored objects of three kinds inserted at every list position, every list "
                "element marked ignored) and every single plate wrapping (var|star x root|all ids x "
                "5 ranges); every pair of list-level decorations for <= pair_max objects; every "
                "json_factory x argument menu.  distinct_nontrivial counts judged documents only "
                "(untyped ones excluded): language documents are distinct by construction (distinct "
                "skeletons, strictly increasing labellings - both asserted) and non-trivial when they "
                "have at least one slot or two objects; decorated documents are counted by distinct "
                "hashes of their canonical JSON; factory entries by distinct (factory, form)",
        "samples": [{"kind": k, "document": samples[k]} for k in sorted(samples)][:12],
        "exhaustive": True,
        "bounds": b,
        "skeletons": len(skels),
        "language_size_closed_form": size,
        "violating_cases_by_signature": {k: v[0] for k, v in viol.items()},
        "tolerance": TOL,
    }
    cov["error_classes"] = {k.split(":", 1)[1]: v for k, v in sorted(counts.items()) if ":" in k}
    for k in sorted(counts):
        if ":" not in k:
            cov["n_" + k] = counts[k]
    return run.finish(cov, assumptions=[
        "ids are explored up to renaming (one representative per restricted growth string); "
        "id names are short letters that clash with no attribute name",
        "references between sibling slots of one object are judged in the order the documents "
        "list them, which is the order the classes read them (x before parameters)",
        "documents in which a reference names an object of the wrong category for its slot "
        "(parameter vs model) are outside the language and not judged (counted as untyped)",
        "plates: one plate per document (two plates, a plate after an empty-range plate and a "
        "plate nested in a plate's object are outside the bound); range references such as "
        "`a.{0:2}' are not explored",
        "holders are observed through ViewParameter.parameter, TransformedParameter.x, "
        "CatParameter._parameter_container, Distribution.x/.dict_parameters, "
        "JointDistributionModel._distributions, Taxa.data",
        "json_factory menu: argument forms announced by the factory signature or the from_json "
        "documentation; an entry is judged only if the directly constructed twin evaluates",
        "updates are made on base Parameters (p.tensor = v) through every holder",
        f"values compared at abs/rel {TOL} (observed differences <= 1e-15)",
    ])


def replay(case):
    tt.boot()
    part = case.get("part", "lang")
    if part == "factory":
        from mc.props import c13_factories as fac

        tally = Tally()
        fac.do_factory(case["item"], tally)
        return [c for _, (_, cases) in tally.viol.items() for c in cases]
    VTOL[0] = 1e-5 if "dtype32@" in case.get("tag", "") else TOL
    try:
        cat, viols, _ = check_spec(case["spec"], part)
    finally:
        VTOL[0] = TOL
    out = []
    deco = deco_name(case.get("tag", "")) if part == "decor" else case.get("tag", "").split("@")[0]
    for check, detail, extra in viols:
        sig = {"check": check, "part": part}
        sig.update(extra)
        if part in ("decor", "plate"):
            sig["decoration"] = deco
        out.append({"case": case, "detail": detail, "sig": sig})
    return out
