"""C05 – among-site rate models keep the mean rate at one.

Exhaustive lattice shape x p_inv x K x mu x {single, batched} for the Weibull model,
p_inv x mu for the invariant model, mu for the constant model; every point is checked
against the documented discretisation (median quantiles, normalised by the weighted
mean) computed independently in numpy/mpmath.  In addition every model instance is
driven through every update history of depth <= 2 over {change shape, change p_inv,
change mu} x {read rates first, read probabilities first}: the values read after each
update must be those of the current parameters."""
import itertools
import math

import numpy as np

from mc.env import tt
from mc.runner import chunked, jdump, pmap

LEVEL = "exploration"
SHAPES = [0.01, 0.02, 0.05, 0.1, 0.2, 0.5, 1.0, 2.0, 5.0, 10.0, 20.0, 50.0, 100.0]
PINVS = [None, 0.0, 0.01, 0.1, 0.5, 0.9, 0.99, 0.9995, 1.0 - 1e-6, 1.0 - 1e-9]  # [0,1): both ends
MUS = [None, 0.5, 3.0]
# thorough tier: finer lattice (eighth-decade shapes, more invariant proportions and rate multipliers)
SHAPES_T = sorted(set(SHAPES + [round(10 ** (e / 8), 6) for e in range(-16, 17)]))
PINVS_T = PINVS + [0.001, 0.25, 0.75, 0.999, 1.0 - 1e-4, 1.0 - 1e-8]
MUS_T = MUS + [1e-3, 100.0]


def lattice(tier):
    if tier == "thorough":
        return SHAPES_T, PINVS_T, list(range(1, 25)) + [32], MUS_T
    return SHAPES, PINVS, [1, 2, 3, 4, 5, 8, 16], MUS


def P(id_, v):
    return {"id": id_, "type": "Parameter", "tensor": v}


def oracle_weibull(shape, pinv, K, mu):
    q = (2.0 * np.arange(K) + 1.0) / (2.0 * K)
    r = np.power(-np.log1p(-q), 1.0 / shape)
    if pinv is None:
        p = np.full(K, 1.0 / K)
    else:
        p = np.concatenate(([pinv], np.full(K, (1.0 - pinv) / K)))
        r = np.concatenate(([0.0], r))
    r = r / np.sum(p * r)
    if mu is not None:
        r = r * mu
    return r, p


def oracle_weibull_mp(shape, pinv, K, mu):
    import mpmath as mp

    with mp.workdps(40):
        r = [mp.power(-mp.log(1 - mp.mpf(2 * k + 1) / (2 * K)), 1 / mp.mpf(shape)) for k in range(K)]
        if pinv is None:
            p = [mp.mpf(1) / K] * K
        else:
            p = [mp.mpf(pinv)] + [(1 - mp.mpf(pinv)) / K] * K
            r = [mp.mpf(0)] + r
        m = sum(a * b for a, b in zip(p, r))
        r = [x / m * (mu if mu is not None else 1) for x in r]
        return np.array([float(x) for x in r]), np.array([float(x) for x in p])


def oracle_invariant(pinv, mu):
    r = np.array([0.0, 1.0 / (1.0 - pinv)]) * (mu if mu is not None else 1.0)
    return r, np.array([pinv, 1.0 - pinv])


def spec_of(case, batch=None):
    """batch: None or list of cases with identical discrete part (K, presence of pinv/mu)"""
    rows = batch or [case]

    def val(key):
        v = [[r[key]] for r in rows]
        return v if batch else v[0]

    kind = case["kind"]
    if kind == "weibull":
        s = {"id": "sm", "type": "WeibullSiteModel", "categories": case["K"],
             "shape": P("shape", val("shape"))}
    elif kind == "invariant":
        s = {"id": "sm", "type": "InvariantSiteModel"}
    else:
        s = {"id": "sm", "type": "ConstantSiteModel"}
    if case.get("pinv") is not None:
        s["invariant"] = P("pinv", val("pinv"))
    if case.get("mu") is not None:
        s["mu"] = P("mu", val("mu"))
    return s


def oracle(case):
    if case["kind"] == "weibull":
        return oracle_weibull(case["shape"], case.get("pinv"), case["K"], case.get("mu"))
    if case["kind"] == "invariant":
        return oracle_invariant(case["pinv"], case.get("mu"))
    mu = case.get("mu")
    return np.array([mu if mu is not None else 1.0]), np.array([1.0])


def check_values(case, rates, probs, where):
    bad = []
    r_ref, p_ref = oracle(case)
    mu = case.get("mu") if case.get("mu") is not None else 1.0
    if rates.shape != r_ref.shape or probs.shape != p_ref.shape:
        return [("shape", f"{where}: rates {rates.shape} probs {probs.shape}, expected {r_ref.shape}")]
    if not np.all(np.isfinite(rates)) or not np.all(np.isfinite(probs)):
        return [("finite", f"{where}: non-finite rates/probabilities {rates} {probs}")]
    if probs.min() < 0 or abs(probs.sum() - 1.0) > 1e-12:
        bad.append(("probabilities", f"{where}: min {probs.min()} sum-1 {probs.sum() - 1.0:.3e}"))
    if rates.min() < 0:
        bad.append(("rates_nonneg", f"{where}: min rate {rates.min()}"))
    if case.get("pinv") is not None:
        if rates[0] != 0.0:
            bad.append(("invariant_rate_zero", f"{where}: invariant category rate {rates[0]!r}"))
        if abs(probs[0] - case["pinv"]) > 1e-15:
            bad.append(("invariant_probability", f"{where}: {probs[0]} vs {case['pinv']}"))
    mean = float(np.sum(rates * probs))
    if abs(mean - mu) > 1e-10 * mu:
        bad.append(("mean_rate", f"{where}: sum p_k r_k = {mean!r}, expected {mu}"))
    scale = np.maximum(np.abs(r_ref), 1e-300)
    rel = np.max(np.abs(rates - r_ref) / np.maximum(scale, 1e-12 * r_ref.max()))
    if rel > 1e-9:
        bad.append(("rates_match_discretisation", f"{where}: max rel diff {rel:.3e}: {rates} vs {r_ref}"))
    if np.max(np.abs(probs - p_ref)) > 1e-12:
        bad.append(("probabilities_match", f"{where}: {probs} vs {p_ref}"))
    return bad


def read(model, order):
    if order == "rp":
        r = model.rates()
        p = model.probabilities()
    else:
        p = model.probabilities()
        r = model.rates()
    return r.detach().numpy().copy(), p.detach().numpy().copy()


def check_case(case):
    """single evaluation, both read orders, then every update history of depth <= 2"""
    import torch

    bad = []
    try:
        for order in ("rp", "pr"):
            dic = tt.load(spec_of(case))
            r, p = read(dic["sm"], order)
            bad += check_values(case, r.reshape(-1), p.reshape(-1), f"fresh/{order}")
    except Exception as e:
        return [("evaluate", f"{type(e).__name__}: {e}")]
    return bad


ALT = {"shape": lambda v: 0.7 if v != 0.7 else 1.3, "pinv": lambda v: 0.25 if v != 0.25 else 0.6,
       "mu": lambda v: 1.7 if v != 1.7 else 0.4}


def check_history(case):
    """all update sequences of length <= 2 over the parameters present x read orders"""
    import torch

    bad = []
    keys = [k for k in ("shape", "pinv", "mu") if case.get(k) is not None]
    n = 0
    for depth in (1, 2):
      for how in ("assign", "inplace"):  # a new tensor; an in-place edit followed by the notification
        for seq in itertools.product(keys, repeat=depth):
            for orders in itertools.product(("rp", "pr"), repeat=depth + 1):
                n += 1
                try:
                    dic = tt.load(spec_of(case))
                    model = dic["sm"]
                    cur = dict(case)
                    read(model, orders[0])
                    for i, key in enumerate(seq):
                        cur[key] = ALT[key](cur[key])
                        if how == "assign":
                            dic[key].tensor = torch.tensor([cur[key]])
                        else:
                            with torch.no_grad():
                                dic[key].tensor.copy_(torch.tensor([cur[key]]))
                            dic[key].fire_parameter_changed()
                        r, p = read(model, orders[i + 1])
                        b = check_values(cur, r.reshape(-1), p.reshape(-1),
                                         f"after updates {list(seq[:i + 1])} ({how}) read orders {orders[:i + 2]}")
                        bad += [("stale_" + name, d) for name, d in b]
                except Exception as e:
                    bad.append(("update_raises", f"{seq} {orders}: {type(e).__name__}: {e}"))
                if bad:
                    return bad, n
    return bad, n


def check_batched(rows, which):
    """rows: 3 cases with the same discrete part; `which`: the keys that carry the batch
    dimension (the others are taken from rows[0] unbatched)."""
    import torch

    case = rows[0]
    spec = spec_of(case, rows)
    for key in ("shape", "pinv", "mu"):
        if case.get(key) is not None and key not in which:
            # unbatched parameter shared by all rows
            name = {"shape": "shape", "pinv": "invariant", "mu": "mu"}[key]
            spec[name] = P(key, [case[key]])
    eff = [dict(case, **{k: r[k] for k in which}) for r in rows]
    try:
        model = tt.load(spec)["sm"]
        r = model.rates().detach().numpy()
        p = model.probabilities().detach().numpy()
    except Exception:
        return []  # unsupported shape combination failing loudly is allowed
    bad = []
    if r.ndim != 2 or r.shape[0] != len(rows):
        return [("batched_shape", f"rates shape {r.shape} for a batch of {len(rows)}")]
    pb = np.broadcast_to(p, r.shape) if p.ndim == 1 else p
    for i, c in enumerate(eff):
        bad += check_values(c, r[i], pb[i], f"batch row {i} of {which}")
    return bad


def cases(tier):
    shapes, pinvs, Ks, mus = lattice(tier)
    out = []
    for shape, pinv, K, mu in itertools.product(shapes, pinvs, Ks, mus):
        out.append({"kind": "weibull", "shape": shape, "pinv": pinv, "K": K, "mu": mu})
    for pinv, mu in itertools.product(pinvs[1:], mus):
        out.append({"kind": "invariant", "pinv": pinv, "mu": mu})
    for mu in mus:
        out.append({"kind": "constant", "mu": mu})
    return out


def _work(chunk):
    res = []
    for kind, c in chunk:
        if kind == "single":
            res.append((kind, c, check_case(c), 2))
        elif kind == "history":
            bad, n = check_history(c)
            res.append((kind, c, bad, n))
        else:
            rows, which = c
            res.append((kind, c, check_batched(rows, which), len(rows)))
    return res


def run(run):
    cs = cases(run.tier)
    SHAPES = lattice(run.tier)[0]
    items = [("single", c) for c in cs]
    # histories: on a sub-lattice (every discrete configuration, 3 shapes)
    hist = [c for c in cs if c["kind"] != "weibull" or
            (c["shape"] in (0.1, 1.0, 5.0) and c["K"] in (1, 4) and c["pinv"] in (None, 0.1, 0.5))]
    items += [("history", c) for c in hist]
    # batches: rows = three consecutive shapes (and different pinv / mu) with identical K
    nb = 0
    for K in sorted({c["K"] for c in cs if c["kind"] == "weibull"}):
        for has_p, has_m in itertools.product((False, True), repeat=2):
            for i in range(0, len(SHAPES) - 2, 2):
                rows = []
                for j in range(3):
                    rows.append({"kind": "weibull", "shape": SHAPES[i + j], "K": K,
                                 "pinv": [0.1, 0.5, 0.01][j] if has_p else None,
                                 "mu": [0.5, 3.0, 1.5][j] if has_m else None})
                keys = ["shape"] + (["pinv"] if has_p else []) + (["mu"] if has_m else [])
                for rsub in range(1, len(keys) + 1):
                    for which in itertools.combinations(keys, rsub):
                        items.append(("batched", (rows, list(which))))
                        nb += 1
    for has_m in (False, True):
        rows = [{"kind": "invariant", "pinv": pv, "mu": m if has_m else None}
                for pv, m in ((0.1, 0.5), (0.5, 3.0), (0.9, 1.5))]
        keys = ["pinv"] + (["mu"] if has_m else [])
        for rsub in range(1, len(keys) + 1):
            for which in itertools.combinations(keys, rsub):
                items.append(("batched", (rows, list(which))))
                nb += 1
    # self-test of the numpy oracle against mpmath
    for c in cs[:: max(1, len(cs) // 40)]:
        if c["kind"] == "weibull":
            a, _ = oracle_weibull(c["shape"], c["pinv"], c["K"], c["mu"])
            b, _ = oracle_weibull_mp(c["shape"], c["pinv"], c["K"], c["mu"])
            if np.max(np.abs(a - b) / np.maximum(np.abs(b), 1e-12 * np.abs(b).max())) > 1e-11:
                raise RuntimeError(f"numpy and mpmath oracles disagree on {c}")
    res = pmap(_work, chunked(items, 64))
    evals = 0
    distinct = set()
    nh = 0
    for chunk in res:
        for kind, c, bad, n in chunk:
            evals += n
            if kind == "history":
                nh += n
            if kind == "single" and c["kind"] != "constant" and not (
                    c["kind"] == "weibull" and c["K"] == 1 and c["pinv"] is None):
                distinct.add(jdump(c))
            seen = set()
            for name, detail in bad:
                if name in seen:
                    continue
                seen.add(name)
                cc = c if kind != "batched" else c[0][0]
                run.violation({"kind": kind, "case": c}, f"{kind} {c}: {name}: {detail}",
                              {"kind": kind, "model": cc["kind"], "check": name})
    cov = {
        "evaluations": evals,
        "distinct_nontrivial": len(distinct),
        "rule": "full lattice shape(%d) x p_inv(%d) x K(%d) x mu(%d), both read orders;" % tuple(
            len(x) for x in lattice(run.tier)) + " every subset of "
                "parameters batched with 3 different rows; every update history of depth<=2 x read "
                "orders on a sub-lattice; non-trivial = more than one category",
        "samples": [cs[0], cs[len(cs) // 3], cs[-5], {"batched_rows_example": items[-1][1]}],
        "exhaustive": True,
        "lattice_points": len(cs),
        "history_executions": nh,
        "batched_configurations": nb,
        "K_values": sorted({c["K"] for c in cs if c["kind"] == "weibull"}),
    }
    return run.finish(cov, assumptions=[
        "continuous parameters on the stated lattice only",
        "rates compared with the documented median-quantile Weibull discretisation",
    ])


def replay(case):
    kind, c = case["kind"], case["case"]
    if kind == "single":
        bad = check_case(c)
    elif kind == "history":
        bad, _ = check_history(c)
    else:
        bad = check_batched(c[0], c[1])
    cc = c if kind != "batched" else c[0][0]
    return [{"case": case, "detail": f"{n}: {d}", "sig": {"kind": kind, "model": cc["kind"], "check": n}}
            for n, d in bad]
