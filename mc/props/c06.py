"""C06 – node-height parameterisations give a valid time tree, are invertible, and
survive moves between devices / dtypes.

Grid part: every labelled rooted topology x every assignment of sampling ages from
{0, 1.5} to the tips (as ages and as calendar dates) x a parameter lattice, evaluated
single and batched, against an independent recursive computation of the heights.
History part: every sequence (depth <= 3) over {cpu(), to(float64), to('cpu'), set
parameters (2 values), read} on every 4-taxon topology for both parameterisations."""
import itertools

import numpy as np

from mc.builders import trees as tb
from mc.env import tt
from mc.explore import enumerate as en
from mc.runner import chunked, jdump, pmap

LEVEL = "exploration"
TOL = 1e-12


def lattice(vals, k):
    return [list(p) for p in itertools.product(vals, repeat=k)]


def grid_cases(tier):
    ns = (3, 4, 5) if tier == "quick" else (3, 4, 5, 6)
    out = []
    for n in ns:
        labels = [f"t{i}" for i in range(n)]
        tops = en.rooted_topologies(labels)
        assert len(tops) == en.n_rooted(n)
        pats = list(itertools.product((0.0, 1.5), repeat=n))
        if n == 6 and tier == "thorough":
            pats = pats[::1]
        for ti, top in enumerate(tops):
            for pat in pats:
                for form in ("ages", "calendar"):
                    for kind in ("ratio", "shift"):
                        out.append({"n": n, "top": ti, "ages": list(pat), "form": form, "kind": kind})
    return out


def dates_of(case):
    if case["form"] == "ages":
        return list(case["ages"])
    return [2000.0 - a for a in case["ages"]]


def build(case, top, labels, params):
    dates = dates_of(case)
    if case["kind"] == "ratio":
        ratios = [p[:-1] for p in params] if isinstance(params[0], list) else params[:-1]
        root = [p[-1:] for p in params] if isinstance(params[0], list) else params[-1:]
        spec = tb.ratio_tree(top, labels, dates, ratios, root)
    else:
        spec = tb.shift_tree(top, labels, dates, params)
    dic = tt.load(spec)
    return dic["tree"], dic


def param_lattice(case, leaf_h):
    n = case["n"]
    if case["kind"] == "ratio":
        oldest = max(leaf_h)
        pts = []
        for r in lattice((0.25, 0.75), n - 2):
            for rh in (oldest + 0.5, oldest + 2.0):
                pts.append(r + [rh])
        return pts
    return lattice((0.1, 1.0), n - 1)


def oracle_heights(case, top, labels, leaf_h, cl, point):
    n = case["n"]
    hl = dict(zip(labels, leaf_h))
    if case["kind"] == "ratio":
        rb = {cl[n + j]: point[j] for j in range(n - 2)}
        return tb.oracle_ratio_heights(top, hl, rb, point[-1])
    sb = {cl[n + j]: point[j] for j in range(n - 1)}
    return tb.oracle_shift_heights(top, hl, sb)


def check_values(case, top, labels, leaf_h, cl, point, heights, blens, where):
    """heights: array [2n-1], blens: array [2n-2]"""
    n = case["n"]
    bad = []
    if heights.shape != (2 * n - 1,) or blens.shape != (2 * n - 2,):
        return [("shape", f"{where}: heights {heights.shape} branch lengths {blens.shape}")]
    for i in range(n):
        if heights[i] != leaf_h[i]:
            bad.append(("tip_at_sampling_time", f"{where}: tip {labels[i]} at {heights[i]} expected {leaf_h[i]}"))
            break
    ref = oracle_heights(case, top, labels, leaf_h, cl, point)
    hby = {cl[i]: heights[i] for i in range(2 * n - 1)}
    for c, h in ref.items():
        if abs(hby[c] - h) > TOL * max(1.0, abs(h)):
            bad.append(("height_value", f"{where}: clade {sorted(c)} height {hby[c]!r} expected {h!r}"))
            break
    pm = en.parent_map(top)
    inv = {v: k for k, v in cl.items()}
    for child, parent in pm.items():
        d = hby[parent] - hby[child]
        if d < 0:
            bad.append(("parent_older_than_child", f"{where}: parent {sorted(parent)} at {hby[parent]} "
                                                   f"below child {sorted(child)} at {hby[child]}"))
            break
    for child, parent in pm.items():
        d = hby[parent] - hby[child]
        got = blens[inv[child]]
        if abs(got - d) > TOL * max(1.0, abs(d)):
            bad.append(("branch_length", f"{where}: branch above {sorted(child)} is {got!r}, "
                                         f"parent - child = {d!r}"))
            break
    return bad


def check_grid_case(case):
    import torch

    n = case["n"]
    labels = [f"t{i}" for i in range(n)]
    top = en.rooted_topologies(labels)[case["top"]]
    leaf_h = tb.sampling_heights(dates_of(case))
    pts = param_lattice(case, leaf_h)
    bad = []
    nev = 0
    try:
        model, dic = build(case, top, labels, pts[0])
        cl = tb.index_clades(model, labels)
        if set(cl[i] for i in range(n, 2 * n - 1)) != set(en.clades(top)):
            return [("topology", "clades of the loaded tree differ from the Newick")], 0
        pname = "tree.shifts" if case["kind"] == "shift" else None

        def setp(vals):
            t = torch.tensor(vals)
            if case["kind"] == "shift":
                dic["tree.shifts"].tensor = t
            else:
                dic["tree.ratios"].tensor = t[..., :-1]
                dic["tree.root_height"].tensor = t[..., -1:]

        # single evaluations: first, a middle and the last lattice point
        for k in sorted({0, len(pts) // 2, len(pts) - 1}):
            setp(pts[k])
            h = model.node_heights.detach().numpy()
            b = model.branch_lengths().detach().numpy()
            nev += 1
            bad += check_values(case, top, labels, leaf_h, cl, pts[k], h, b, f"single point {pts[k]}")
            x = model._internal_heights.tensor
            try:
                xr = model.transform.inv(model.transform(x))
                if xr.shape != x.shape or float((xr - x).abs().max()) > 1e-12:
                    bad.append(("inverse_single", f"inv(forward(x)) = {xr.tolist()} for x = {x.tolist()}"))
            except NotImplementedError:
                pass
            except Exception as e:
                bad.append(("inverse_single", f"inverse raised {type(e).__name__}: {e}"))
        # the transform called again on the same tensor object after an in-place edit, forward
        # and inverse (torch.distributions transforms can cache on tensor identity)
        try:
            setp(pts[0])
            x = model._internal_heights.tensor.detach().clone()
            y0 = model.transform(x).detach().clone()
            setp(pts[-1])
            x1 = model._internal_heights.tensor.detach().clone()
            y1 = model.transform(x1).detach().clone()
            x.copy_(x1)
            y = model.transform(x)
            if float((y - y1).abs().max()) > 1e-12:
                bad.append(("inplace_forward", f"transform(x) after x was edited in place from "
                                               f"{pts[0]} to {pts[-1]}: {y.tolist()} expected {y1.tolist()}"))
            try:
                yy = y0.clone()
                model.transform.inv(yy)
                yy.copy_(y1)
                xr = model.transform.inv(yy)
                if float((xr - x1).abs().max()) > 1e-10:
                    bad.append(("inplace_inverse", f"inv(y) after y was edited in place: {xr.tolist()} "
                                                   f"expected {x1.tolist()}"))
            except NotImplementedError:
                pass
            nev += 2
        except Exception as e:
            bad.append(("inplace_forward", f"raised {type(e).__name__}: {str(e)[:160]}"))
        # the whole lattice as one batch
        setp(pts)
        H = model.node_heights.detach().numpy()
        B = model.branch_lengths().detach().numpy()
        if H.shape != (len(pts), 2 * n - 1):
            bad.append(("batched_shape", f"node_heights shape {H.shape} for a batch of {len(pts)}"))
        else:
            for k, pt in enumerate(pts):
                nev += 1
                b = check_values(case, top, labels, leaf_h, cl, pt, H[k], B[k], f"batch row {k} {pt}")
                if b:
                    bad += [("batched_" + x if not x.startswith("batched") else x, y) for x, y in b]
                    break
        x = model._internal_heights.tensor
        try:
            xr = model.transform.inv(model.transform(x))
            if xr.shape != x.shape or float((xr - x).abs().max()) > 1e-12:
                bad.append(("inverse_batched", f"batched inv(forward(x)) has shape {tuple(xr.shape)} / "
                                               f"max diff {float((xr.reshape(-1)[:x.numel()] - x.reshape(-1)).abs().max()) if xr.numel() >= x.numel() else 'n/a'}"))
        except NotImplementedError:
            pass
        except Exception as e:
            bad.append(("inverse_batched", f"batched inverse raised {type(e).__name__}: {str(e)[:120]}"))
    except Exception as e:
        bad.append(("evaluate", f"{type(e).__name__}: {str(e)[:200]}"))
    return bad, nev


# -- histories -----------------------------------------------------------------------------

# inplace_*: the optimiser idiom - the tensor is edited in place, then the change is announced
OPS = ("cpu", "to_f64", "to_cpu", "set_a", "set_b", "read", "inplace_a", "inplace_b")


def hist_cases(tier):
    labels = [f"t{i}" for i in range(4)]
    tops = en.rooted_topologies(labels)
    depth = 3
    out = []
    for ti in range(len(tops)):
        for kind in ("ratio", "shift"):
            for ages in ([0.0, 1.5, 0.0, 1.5], [1.5, 0.0, 0.0, 0.0]):
                out.append({"n": 4, "top": ti, "ages": ages, "form": "ages", "kind": kind,
                            "depth": depth})
    return out


def check_history_case(case):
    import torch

    n = 4
    labels = [f"t{i}" for i in range(n)]
    top = en.rooted_topologies(labels)[case["top"]]
    leaf_h = tb.sampling_heights(dates_of(case))
    pts = param_lattice(case, leaf_h)
    pa, pb = pts[1], pts[-2]
    nseq = 0
    for d in range(1, case["depth"] + 1):
        for seq in itertools.product(OPS, repeat=d):
            if not any(o in seq for o in ("cpu", "to_f64", "to_cpu", "inplace_a", "inplace_b")):
                continue
            nseq += 1
            try:
                model, dic = build(case, top, labels, pa)
                cl = tb.index_clades(model, labels)
                klass = type(model.transform).__name__
                cur = pa
                for i, op in enumerate(seq):
                    if op == "cpu":
                        model.cpu()
                    elif op == "to_f64":
                        model.to(torch.float64)
                    elif op == "to_cpu":
                        model.to("cpu")
                    elif op in ("set_a", "set_b"):
                        cur = pa if op == "set_a" else pb
                        t = torch.tensor(cur)
                        if case["kind"] == "shift":
                            dic["tree.shifts"].tensor = t
                        else:
                            dic["tree.ratios"].tensor = t[:-1]
                            dic["tree.root_height"].tensor = t[-1:]
                    elif op in ("inplace_a", "inplace_b"):
                        cur = pa if op == "inplace_a" else pb
                        t = torch.tensor(cur)
                        names = ["tree.shifts"] if case["kind"] == "shift" else [
                            "tree.ratios", "tree.root_height"]
                        parts = [t] if case["kind"] == "shift" else [t[:-1], t[-1:]]
                        with torch.no_grad():
                            for nm, part in zip(names, parts):
                                dic[nm].tensor.copy_(part)
                        for nm in names:
                            dic[nm].fire_parameter_changed()
                    where = f"after {list(seq[:i + 1])}"
                    if type(model.transform).__name__ != klass:
                        return [("parameterisation_changed",
                                 f"{where}: transform is {type(model.transform).__name__}, "
                                 f"model was built with {klass}")], nseq
                    h = model.node_heights.detach().numpy()
                    b = model.branch_lengths().detach().numpy()
                    bad = check_values(case, top, labels, leaf_h, cl, cur, h, b, where)
                    if bad:
                        return [("after_move_" + x, y) for x, y in bad], nseq
            except Exception as e:
                return [("move_raises", f"{seq}: {type(e).__name__}: {str(e)[:160]}")], nseq
    return [], nseq


def _work(chunk):
    out = []
    for kind, c in chunk:
        if kind == "grid":
            bad, nev = check_grid_case(c)
        else:
            bad, nev = check_history_case(c)
        out.append((kind, c, bad, nev))
    return out


def sig(kind, c, name):
    return {"part": kind, "kind": c["kind"], "check": name}


def run(run):
    gc = grid_cases(run.tier)
    hc = hist_cases(run.tier)
    items = [("grid", c) for c in gc] + [("hist", c) for c in hc]
    res = pmap(_work, chunked(items, 128))
    evals = 0
    nhist = 0
    distinct = 0
    for chunk in res:
        for kind, c, bad, nev in chunk:
            evals += nev
            if kind == "hist":
                nhist += nev
            elif len(set(c["ages"])) > 1:
                distinct += nev
            seen = set()
            for name, detail in bad:
                if name in seen:
                    continue
                seen.add(name)
                run.violation({"part": kind, "case": c}, f"{c}: {name}: {detail}", sig(kind, c, name))
    per_n = {}
    for c in gc:
        per_n[c["n"]] = per_n.get(c["n"], 0) + 1
    cov = {
        "evaluations": evals,
        "distinct_nontrivial": distinct,
        "rule": "every (topology, date pattern, ages|calendar, ratio|shift) x parameter lattice "
                "({0.25,0.75}^(n-2) x 2 root heights, {0.1,1.0}^(n-1)) as one batch + 3 single points; "
                "non-trivial = heterochronous date pattern; evaluations counts (case, lattice point) pairs",
        "samples": [gc[0], gc[len(gc) // 2], gc[-1], hc[0]],
        "exhaustive": True,
        "grid_cases_per_n": per_n,
        "topologies": {n: en.n_rooted(n) for n in per_n},
        "history_sequences": nhist,
        "history_ops": list(OPS),
    }
    return run.finish(cov, assumptions=[
        "trees above 6 taxa are not explored",
        "cuda() cannot be executed in this sandbox; cpu(), to(dtype), to('cpu') histories only",
        "leaf index = position in the taxa list (checked through the tip heights and branch lengths)",
    ])


def replay(case):
    kind, c = case["part"], case["case"]
    bad, _ = check_grid_case(c) if kind == "grid" else check_history_case(c)
    return [{"case": case, "detail": f"{n}: {d}", "sig": sig(kind, c, n)} for n, d in bad]
