"""C18 – a crash while writing a checkpoint never loses the last good checkpoint.

Explicit-state search.  A state is the content of the (in-memory) checkpoint
directory; a transition is one real checkpoint write of the next version through
one of the library's own call paths, either completed or killed at one point of
its file-system operation log (every operation x every buffered-data outcome).
The frontier is expanded until no new canonical state appears.
"""
import json

from mc.builders import toy
from mc.env import fsim, tt
from mc.runner import jdump

LEVEL = "model_checking"
NAME = fsim.PREFIX + "ckpt.json"
SIBLINGS = (NAME, NAME + ".old", NAME + ".new")
MAX_CONSECUTIVE = 6
# run_*: the checkpoint is written by the real loop (Optimizer.run / MCMC.run for one iteration whose
# update leaves the parameters where they are), not by a call of save_full_state from the harness
DRIVERS = ("save_parameters", "mcmc", "optimizer", "hmc_signature", "run_optimizer", "run_mcmc")


def _run_spec(kind):
    joint = {"id": "joint", "type": "JointDistributionModel", "distributions": [
        {"id": "dx", "type": "Distribution", "distribution": "torch.distributions.Normal",
         "x": {"id": "x", "type": "Parameter", "tensor": [0.5, 1.5]}, "parameters": {"loc": 0.3, "scale": 1.2}},
        {"id": "dy", "type": "Distribution", "distribution": "torch.distributions.Normal",
         "x": {"id": "y", "type": "Parameter", "tensor": [0.7]}, "parameters": {"loc": 0.0, "scale": 2.0}}]}
    if kind == "run_mcmc":
        algo = {"id": "algo", "type": "MCMC", "joint": "joint", "iterations": 1, "every": 0,
                "checkpoint": NAME, "checkpoint_frequency": 1,
                "operators": [{"id": "op.x", "type": "SlidingWindowOperator", "parameters": ["x"], "width": 0.0,
                               "weight": 1.0, "disable_adaptation": True},
                              {"id": "op.y", "type": "SlidingWindowOperator", "parameters": ["y"], "width": 0.0,
                               "weight": 1.0, "disable_adaptation": True}]}
    else:
        algo = {"id": "algo", "type": "Optimizer", "algorithm": "torch.optim.SGD", "options": {"lr": 0.0},
                "maximize": True, "loss": "joint", "parameters": ["x", "y"], "iterations": 1,
                "checkpoint": NAME, "checkpoint_frequency": 1,
                "checkpoint_all": kind == "run_optimizer_all"}
    return [joint, algo]


# -- drivers: the real call paths ------------------------------------------------

class Driver:
    def __init__(self, kind):
        import torch

        from torchtree.core import parameter_utils

        self.kind = kind
        self.torch = torch
        if kind in ("save_parameters", "hmc_signature"):
            dic = tt.load([toy.normal_toy()])
            self.params = [dic["x"], dic["y"]]
            self.pu = parameter_utils
        elif kind == "mcmc":
            dic = tt.load(toy.mcmc_toy(NAME))
            self.algo = dic["mcmc"]
            self.params = [dic["x"], dic["y"]]
        elif kind in ("optimizer", "optimizer_all"):
            dic = tt.load(toy.optimizer_toy(NAME, checkpoint_all=(kind == "optimizer_all")))
            self.algo = dic["opt"]
            self.params = [dic["x"], dic["y"]]
        elif kind in ("run_optimizer", "run_optimizer_all", "run_mcmc"):
            dic = tt.load(_run_spec(kind))
            self.algo = dic["algo"]
            self.params = [dic["x"], dic["y"]]
        else:
            raise ValueError(kind)

    def all_name(self, v):
        """file written for version v when every epoch gets its own file"""
        k = v - 1 if self.kind.startswith("run_") else v
        return NAME.replace(".json", f"-{k}.json")

    def set_version(self, v):
        torch = self.torch
        # versions alternate in length (a shorter file written after a longer one must not keep its tail)
        self.params[0].tensor = torch.tensor([float(v), v + 0.5] + ([1.2345678901234] * 3 if v % 2 == 0 else []))
        self.params[1].tensor = torch.tensor([float(v)])
        if hasattr(self, "algo"):
            self.algo._epoch = v

    def save(self, v):
        self.set_version(v)
        if self.kind == "save_parameters":
            self.pu.save_parameters(NAME, self.params)
        elif self.kind == "hmc_signature":
            # HMC.run: save_parameters(self.checkpoint, self.parameters)
            from torchtree.inference.hmc import hmc

            hmc.save_parameters(NAME, self.params)
        elif self.kind == "mcmc":
            self.algo.save_full_state()
        elif self.kind == "optimizer":
            self.algo.save_full_state(self.algo.checkpoint)
        elif self.kind.startswith("run_"):
            import contextlib
            import io

            # one iteration of the real loop; it ends with iteration counter v and writes the checkpoint
            self.algo._epoch = v - 1
            self.algo.iterations = v - 1
            for p_ in self.params:
                p_.requires_grad = False
            with contextlib.redirect_stdout(io.StringIO()):
                try:
                    self.algo.run()
                except ZeroDivisionError:
                    # the end-of-run summary of MCMC.run divides by the number of moves of an operator
                    # that was never picked - after the last checkpoint, outside this property
                    pass
        elif self.kind == "optimizer_all":
            # exactly what Optimizer._run does when checkpoint_all is set
            name = self.algo.checkpoint.replace(".json", f"-{v}.json")
            self.algo.save_full_state(name, overwrite=True)


# -- classification ----------------------------------------------------------------

def classify(content):
    """('ok', v) – a complete checkpoint of version v; ('mix', ...) – parses but is
    not one single version; ('bad',) – does not parse."""
    from torchtree.core.utils import TensorDecoder

    try:
        data = json.loads(content, cls=TensorDecoder)
    except Exception:
        return ("bad",)
    versions = set()
    try:
        if not isinstance(data, list) or not data:
            return ("mix", "not a non-empty list")
        nparams = 0
        for el in data:
            if el.get("type") in ("torchtree.Parameter", "Parameter"):
                nparams += 1
                t = el["tensor"]
                flat = t if isinstance(t, list) else [t]
                if el["id"] == "x":
                    versions.add(float(flat[0]))
                    if float(flat[1]) != float(flat[0]) + 0.5:
                        return ("mix", "x inconsistent")
                elif el["id"] == "y":
                    versions.add(float(flat[0]))
            elif "iteration" in el:
                versions.add(float(el["iteration"]))
        if nparams != 2:
            return ("mix", f"{nparams} parameters")
    except Exception as e:  # parses as JSON but is not a checkpoint
        return ("mix", repr(e))
    if len(versions) != 1:
        return ("mix", sorted(versions))
    return ("ok", int(versions.pop()))


def classes(files):
    return {p: classify(c) for p, c in files.items()}


def best(cls, paths=None):
    vs = [c[1] for p, c in cls.items() if c[0] == "ok" and (paths is None or p in paths)]
    return max(vs) if vs else None


def canon(files):
    cls = classes(files)
    vs = sorted({c[1] for c in cls.values() if c[0] == "ok"})
    rank = {v: i for i, v in enumerate(vs)}
    key = []
    for p in sorted(cls):
        c = cls[p]
        key.append((p, c[0], (rank[c[1]], c[1] % 2) if c[0] == "ok" else (len(files[p]) > 0)))
    return tuple(key)


# -- one transition -------------------------------------------------------------------

def do_save(driver, files, version, crash=None):
    """Run one real save of `version` on a copy of `files`.
    Returns (files_after, log, outcome) with outcome in done|crash|exception:<repr>."""
    fs = fsim.CrashFS(files)
    fs.crash_at = tuple(crash) if crash else None
    outcome = "done"
    with fs.mounted():
        try:
            driver.save(version)
        except (fsim.Crash, KeyboardInterrupt):
            outcome = "crash"
        except fsim.Unsupported:
            raise
        except Exception as e:
            outcome = "exception:" + type(e).__name__
    if crash and outcome == "done":
        outcome = "done-nocrash"
    return fs.files, fs.log, outcome


def check_transition(before, after, version, outcome):
    """Invariants of the property on one transition.  Returns list of (kind, text)."""
    out = []
    cb, ca = classes(before), classes(after)
    for p, c in ca.items():
        if c[0] == "mix":
            out.append(("mixture", f"{p} parses but mixes versions: {c[1:]}"))
    # (a) "either the previous or the new one is still present".  The previous one is
    # the checkpoint a restart would read: the one under the checkpoint name when that
    # is complete; when the name is absent or damaged, any complete sibling counts.
    present = {c[1] for p, c in ca.items() if c[0] == "ok" and p in SIBLINGS}
    if cb.get(NAME, ("absent",))[0] == "ok":
        allowed = {cb[NAME][1], version}
    else:
        allowed = {c[1] for p, c in cb.items() if c[0] == "ok" and p in SIBLINGS}
        if allowed:
            allowed.add(version)
    if allowed and not (present & allowed):
        out.append(("lost", f"before the write of v{version} the usable checkpoint(s) were "
                            f"{sorted(allowed - {version})}; afterwards none of them nor the new "
                            f"one is complete (files: {ca})"))
    if NAME in ca and ca[NAME][0] != "ok":
        kind = "name_truncated"
        out.append((kind, f"{NAME} exists but is not a complete checkpoint "
                          f"({len(after[NAME])} bytes); files: {ca}"))
    if outcome == "done" and ca.get(NAME) != ("ok", version):
        out.append(("completed_save_not_under_name",
                    f"save of v{version} completed but {NAME} is {ca.get(NAME)}"))
    return out


def crash_points(log):
    pts = []
    for i, op in enumerate(log):
        for mode in ("keep", "drop", "half", "interrupt"):
            pts.append((i, mode))
        if op[0] == "write" and op[2] > 1:
            pts.append((i, "mid"))
    return pts


def initial_files(driver):
    files, _, outcome = do_save(driver, {}, 0)
    if outcome != "done" or classify(files.get(NAME, "")) != ("ok", 0):
        raise RuntimeError(f"cannot create the initial checkpoint: {outcome} {classes(files)}")
    return files


def name_state(files):
    if NAME not in files:
        return "absent"
    return classify(files[NAME])[0]


def explore(kind, tier):
    driver = Driver(kind)
    files0 = initial_files(driver)
    seen = {canon(files0)}
    frontier = [(files0, [[0, None]])]
    stats = dict(states=1, transitions=0, max_depth=0, cap_hit=False, ops_per_save=0,
                 outcomes=set(), oplog=None)
    viols = []
    samples = []
    while frontier:
        files, hist = frontier.pop(0)
        version = hist[-1][0] + 1
        depth = len(hist) - 1
        _, log, _ = do_save(driver, files, version)
        stats["ops_per_save"] = max(stats["ops_per_save"], len(log))
        if stats["oplog"] is None:
            stats["oplog"] = [list(map(str, op)) for op in log if op[0] != "write"]
        for crash in [None] + crash_points(log):
            after, log2, outcome = do_save(driver, files, version, crash)
            if crash is None and outcome != "done":
                raise RuntimeError(f"[{kind}] an uninterrupted save of v{version} did not complete: {outcome}")
            stats["transitions"] += 1
            stats["outcomes"].add(outcome.split(":")[0])
            h2 = hist + [[version, list(crash) if crash else None]]
            for kind_v, text in check_transition(files, after, version, outcome):
                op = log2[crash[0]] if crash and crash[0] < len(log2) else None
                viols.append({
                    "case": {"driver": kind, "history": h2},
                    "detail": f"[{kind}] after history {h2}: {text}; crashed at op {op}",
                    "sig": {"driver": kind, "check": kind_v,
                            "name_ok_before": name_state(files) == "ok"},
                })
            k = canon(after)
            if k not in seen:
                seen.add(k)
                stats["states"] += 1
                stats["max_depth"] = max(stats["max_depth"], depth + 1)
                if len(samples) < 4:
                    samples.append({"history": h2, "state": [list(map(str, x)) for x in k]})
                if depth + 1 >= MAX_CONSECUTIVE:
                    stats["cap_hit"] = True
                else:
                    frontier.append((after, h2))
    stats["outcomes"] = sorted(stats["outcomes"])
    return stats, viols, samples


def explore_all(tier):
    n, viols = 0, []
    for kind in ("optimizer_all", "run_optimizer_all"):
        n_, v_ = _explore_all(kind)
        n += n_
        viols += v_
    return n, viols


def _explore_all(kind):
    """checkpoint_all: every epoch writes its own file; the earlier files must survive."""
    driver = Driver(kind)
    viols, n = [], 0
    # the directory already holds a checkpoint under the plain name (an earlier run without checkpoint_all)
    files = dict(initial_files(Driver("run_optimizer" if kind.startswith("run_") else "optimizer")))
    for v in (1, 2, 3):
        _, log, _ = do_save(driver, files, v)
        for crash in crash_points(log):
            after, _, outcome = do_save(driver, files, v, crash)
            n += 1
            for p, c in files.items():
                if p == NAME:
                    # the plain name may be left alone or refreshed, but never truncated or lost
                    if classify(after.get(p, ""))[0] != "ok":
                        viols.append({
                            "case": {"driver": kind, "upto": v, "crash": list(crash)},
                            "detail": f"checkpoint_all ({kind}): writing epoch {v} left {p} as "
                                      f"{classify(after.get(p, ''))} ({len(after.get(p, ''))} bytes)",
                            "sig": {"driver": kind, "check": "name_truncated"},
                        })
                    continue
                if after.get(p) != c:
                    viols.append({
                        "case": {"driver": kind, "upto": v, "crash": list(crash)},
                        "detail": f"checkpoint_all ({kind}): writing epoch {v} damaged {p}",
                        "sig": {"driver": kind, "check": "earlier_file_damaged"},
                    })
        files, _, outcome = do_save(driver, files, v)
        want = driver.all_name(v)
        if classify(files.get(want, "")) != ("ok", v):
            viols.append({
                "case": {"driver": kind, "upto": v, "crash": None},
                "detail": f"checkpoint_all ({kind}): {want} is {classify(files.get(want, ''))}",
                "sig": {"driver": kind, "check": "completed_save_not_under_name"},
            })
    return n, viols


def replay(case):
    kind = case["driver"]
    if kind in ("optimizer_all", "run_optimizer_all"):
        _, v = explore_all("quick")
        return [x for x in v if x["case"] == case]
    driver = Driver(kind)
    files = initial_files(driver)
    out = []
    hist = [[0, None]]
    for version, crash in case["history"][1:]:
        after, log, outcome = do_save(driver, files, version, crash)
        hist = hist + [[version, crash]]
        for kind_v, text in check_transition(files, after, version, outcome):
            out.append({"case": {"driver": kind, "history": hist},
                        "detail": f"[{kind}] after history {hist}: {text}",
                        "sig": {"driver": kind, "check": kind_v,
                                "name_ok_before": name_state(files) == "ok"}})
        files = after
    return out


def run(run):
    tot = dict(states=0, transitions=0)
    per = {}
    samples = []
    exhaustive = True
    for kind in DRIVERS:
        stats, viols, smp = explore(kind, run.tier)
        # determinism: the same exploration twice must give the same counts
        stats2, viols2, _ = explore(kind, run.tier)
        if (stats["states"], stats["transitions"], len(viols)) != (
                stats2["states"], stats2["transitions"], len(viols2)):
            raise RuntimeError("exploration is not deterministic")
        run.absorb(viols)
        tot["states"] += stats["states"]
        tot["transitions"] += stats["transitions"]
        per[kind] = {k: v for k, v in stats.items()}
        samples += [{"driver": kind, **s} for s in smp[:2]]
        exhaustive = exhaustive and not stats["cap_hit"]
    n_all, v_all = explore_all(run.tier)
    run.absorb(v_all)
    tot["transitions"] += n_all
    cov = {
        "states": tot["states"],
        "transitions": tot["transitions"],
        "traces_validated_against_impl": tot["transitions"],
        "exhaustive": exhaustive,
        "bound": f"closure of the state graph (cap {MAX_CONSECUTIVE} consecutive writes, "
                 f"hit: {not exhaustive}); crash before every file-system operation x "
                 "{all issued bytes on disk, unflushed bytes lost, half of them lost, death by KeyboardInterrupt "
                 "(the writer's clean-up code still runs)} "
                 "+ in the middle of every write chunk",
        "per_driver": per,
        "checkpoint_all_crash_points": n_all,
        "samples": samples,
        "explanation": "every transition is a real save through the library call path on an "
                       "in-memory file system; no separate model, so every trace is an "
                       "implementation trace",
    }
    return run.finish(cov, assumptions=[
        "process death with an intact OS page cache (no power loss, no reordering of "
        "completed system calls)",
        "the writer does not read existing checkpoint contents (states are merged on "
        "existence/completeness/version rank of each file)",
    ])
