"""C03 – likelihood accuracy does not degrade with tree size (no silent underflow); the
sticky switch to rescaling stays consistent.

(a) size sweep: every tree size in a window around the band where per-site likelihoods are
    subnormal, fresh model, one evaluation, against an extended-range reference;
(b) explicit-state search per model instance: state = (rescale flag, kind of the previous
    evaluation); operations = evaluate at {large, band, under, batched[large,under],
    batched[band,large]} through the public parameter interface; every reachable state is
    expanded with every operation and every returned value is compared with the reference;
    a freshly built model forced to rescale from the start must agree wherever both are
    representable;
(c) the same search (operations band, under, large) on balanced trees of 4096-8192 tips, where
    the switch happens under mild underflow and later evaluations are an order of magnitude
    deeper."""
import math

import numpy as np

from mc.builders import likelihood as lb
from mc.builders import trees as tb
from mc.env import tt
from mc.explore import enumerate as en
from mc.oracle import phylo as oph
from mc.oracle import ratematrix as orm
from mc.runner import jdump, pmap

LEVEL = "model_checking"
RTOL = 1e-8
MODELS = (("JC69", 0, "constant"), ("HKY", 0, "weibull4_inv"), ("GTR", 1, "weibull4"))
OPS = ("large", "band", "under", "batch_large_under", "batch_band_large")
LOG_BAND = -320.0 * math.log(10.0)  # smallest site likelihood ~1e-320 (a few thousand ulps)
EDGE_LOGS = (-702.0, -706.0, -709.5)  # around the smallest normal double (e^-708.4)


def shape_top(shape, n):
    labels = [f"t{i}" for i in range(n)]
    if shape == "cherries":
        # caterpillar of cherries
        pairs = [(labels[i], labels[i + 1]) for i in range(0, n - 1, 2)]
        if n % 2:
            pairs.append(labels[-1])
        t = pairs[0]
        for p_ in pairs[1:]:
            t = (t, p_)
        return labels, t
    return labels, en.shapes(shape, n, labels)


def sequences(labels):
    """3 site patterns: constant; nearly constant (three tips differ); constant with one
    ambiguity code and one gap.  With short branches all are likely (L ~ 0.25), with
    saturated branches L ~ 0.25^n for each."""
    seqs = {}
    n = len(labels)
    for i, lab in enumerate(labels):
        s = "A" + ("C" if i in (1, n // 2, n - 2) else "A") + "A"
        if i == 3:
            s = "AAR"
        if i == 5:
            s = "AA-"
        seqs[lab] = s
    return seqs


class Instance:
    def __init__(self, case):
        self.case = case
        n = case["n"]
        self.labels, self.top = shape_top(case["shape"], n)
        subst, pidx, site = MODELS[case["model"]]
        self.sspec, sref = lb.subst_spec(subst, lb.SUBST_POINTS[subst][pidx])
        self.site = site
        self.seqs = sequences(self.labels)
        self.tips_mode = case["tips"]
        self.r_ref, self.p_ref = lb.site_ref(site)
        dic = self.build()
        Q, pi = sref(dic["subst"])
        self.pi = np.asarray(pi, dtype=float)
        self.Qn = orm.normalise(np.asarray(Q), self.pi)
        self.pm = en.parent_map(self.top)
        cl = tb.index_clades(dic["tree"], self.labels)
        if set(cl[i] for i in range(n, 2 * n - 1)) != set(en.clades(self.top)):
            raise RuntimeError("topology mismatch")
        self.zero_clade = cl[2 * n - 3]
        from torchtree.evolution.site_pattern import compress

        patterns, weights = compress(dic["aln"])
        self.w = np.array(weights.tolist(), dtype=float)
        mode = "missing"
        self.tips = {lab: np.array([oph.nuc_vector(patterns[lab][j], mode) for j in range(len(self.w))])
                     for lab in self.labels}
        self._ref_cache = {}

    def build(self):
        n = self.case["n"]
        tspec = tb.unrooted_tree(self.top, self.labels, [0.01] * (2 * n - 3))
        aln = lb.alignment_spec(self.labels, [self.seqs[l] for l in self.labels], "nucleotide")
        like = lb.likelihood_spec(tspec, self.sspec, lb.site_spec(self.site), aln, self.tips_mode)
        return tt.load([like])

    def ref(self, s):
        """reference (total log-likelihood, minimum per-site log-likelihood) with all branch
        lengths equal to s"""
        key = round(s, 14)
        if key not in self._ref_cache:
            bl = {c: s for c in self.pm}
            bl[self.zero_clade] = 0.0
            ll = oph.log_site_likelihoods_extended(self.top, bl, self.Qn, self.pi, self.r_ref,
                                                   self.p_ref, self.tips)
            self._ref_cache[key] = (float(np.sum(self.w * ll)), float(ll.min()))
        return self._ref_cache[key]

    def band_length(self, target=None):
        """branch length at which the smallest site likelihood is exp(target) (default ~1e-320; bisection
        on the reference); None when even saturated branches do not reach it"""
        target = LOG_BAND if target is None else target
        lo, hi = 0.01, 20.0
        if self.ref(hi)[1] > target:
            return None
        for _ in range(60 if target == LOG_BAND else 28):
            mid = 0.5 * (lo + hi)
            if self.ref(mid)[1] > target:
                lo = mid
            else:
                hi = mid
        return hi


def setting(inst, op, sband):
    m = {"large": [0.01], "band": [sband], "under": [20.0],
         "batch_large_under": [0.01, 20.0], "batch_band_large": [sband, 0.01]}[op]
    return m


def evaluate(inst, dic, op, sband):
    """apply one operation to the live model; returns list of (name, detail)"""
    import torch

    n = inst.case["n"]
    model = dic["like"]
    vals = setting(inst, op, sband)
    if len(vals) == 1:
        t = torch.full((2 * n - 3,), vals[0])
    else:
        t = torch.stack([torch.full((2 * n - 3,), v) for v in vals])
    dic["tree.blens"].tensor = t
    got = model().detach().numpy().reshape(-1)
    bad = []
    if got.shape[0] != len(vals):
        return [("shape", f"{op}: returned shape {got.shape}")]
    for g, v in zip(got, vals):
        ref, mn = inst.ref(v)
        if not np.isfinite(g):
            bad.append(("not_finite", f"{op} (branch length {v}): returned {g!r}, reference {ref!r}"))
        elif not abs(g - ref) <= RTOL * abs(ref):
            bad.append(("inaccurate", f"{op} (branch length {v}, smallest site likelihood "
                                      f"e^{mn:.1f}): returned {g!r}, reference {ref!r}, rel "
                                      f"{abs(g - ref) / abs(ref):.2e}"))
    return bad


def explore(case):
    """explicit-state search over (rescale flag, previous op)"""
    inst = Instance(case)
    sband = inst.band_length()
    ops = [o for o in case.get("ops", OPS) if sband is not None or "band" not in o]
    viols = []
    visited = set()
    state_of = {(): (False, None)}
    frontier = [[]]
    ntrans = 0
    maxdepth = 0
    while frontier:
        hist = frontier.pop(0)
        for op in ops:
            dic = inst.build()
            h = hist + [op]
            flag = None
            try:
                bad = []
                for k, o in enumerate(h):
                    b = evaluate(inst, dic, o, sband)
                    if k == len(h) - 1:
                        bad = b
                flag = bool(dic["like"].rescale)
            except Exception as e:
                bad = [("raises", f"{type(e).__name__}: {str(e)[:160]}")]
            ntrans += 1
            for name, detail in bad:
                viols.append({"case": dict(case, history=h),
                              "detail": f"{case} after {h}: {name}: {detail}",
                              "sig": {"check": name, "op": op, "site": inst.site,
                                      "family": "big" if case["n"] >= 4096 else "window",
                                      "rescale_before": bool(state_of[tuple(hist)][0])}})
            key = (flag, op)
            state_of[tuple(h)] = key
            if key not in visited:
                visited.add(key)
                maxdepth = max(maxdepth, len(h))
                if len(h) < case["depth"] and flag is not None:
                    frontier.append(h)
    # rescaled from the start vs plain, wherever both are representable
    try:
        for op in ("large", "band") if sband is not None else ("large",):
            d1 = inst.build()
            d2 = inst.build()
            d2["like"].rescale = True
            b1 = evaluate(inst, d1, op, sband)
            b2 = evaluate(inst, d2, op, sband)
            ntrans += 2
            for name, detail in b2:
                viols.append({"case": dict(case, history=["force_rescale", op]),
                              "detail": f"{case} rescaled from the start, {op}: {name}: {detail}",
                              "sig": {"check": name, "op": op, "site": inst.site,
                                      "family": "big" if case["n"] >= 4096 else "window",
                                      "rescale_before": True}})
    except Exception as e:
        viols.append({"case": dict(case, history=["force_rescale"]), "detail": f"{type(e).__name__}: {e}",
                      "sig": {"check": "raises", "op": "force_rescale", "rescale_before": True}})
    states = len(visited) + 1
    return viols, states, ntrans, maxdepth, sband


def sweep(case):
    """fresh model, saturated branches (length 5), one evaluation"""
    inst = Instance(case)
    dic = inst.build()
    import torch

    n = case["n"]
    bad = []
    try:
        dic["tree.blens"].tensor = torch.full((2 * n - 3,), 5.0)
        g = float(dic["like"]())
        ref, mn = inst.ref(5.0)
        flag = bool(dic["like"].rescale)
        if not np.isfinite(g):
            bad.append(("not_finite", f"returned {g!r}, reference {ref!r}"))
        elif not abs(g - ref) <= RTOL * abs(ref):
            bad.append(("inaccurate", f"n={n}: smallest site likelihood e^{mn:.1f} "
                                      f"(= {math.exp(mn):.3e}); returned {g!r}, reference {ref!r}, "
                                      f"rel {abs(g - ref) / abs(ref):.2e}, rescale={flag}"))
    except Exception as e:
        bad.append(("raises", f"{type(e).__name__}: {str(e)[:160]}"))
    # the edge of the normal range: branch lengths (not saturated, so the root partials of a site differ
    # between states and categories) at which the smallest site likelihood is just above / around / just
    # below the smallest normal double e^-708.4; a fresh model each
    for target in EDGE_LOGS:
        try:
            s_edge = inst.band_length(target)
            if s_edge is None:
                continue
            d2 = inst.build()
            d2["tree.blens"].tensor = torch.full((2 * n - 3,), s_edge)
            g = float(d2["like"]())
            ref, mn = inst.ref(s_edge)
            if not np.isfinite(g):
                bad.append(("not_finite", f"edge e^{target}: returned {g!r}, reference {ref!r}"))
            elif not abs(g - ref) <= RTOL * abs(ref):
                bad.append(("inaccurate", f"n={n}, branch length {s_edge!r}: smallest site likelihood e^{mn:.1f}; "
                                          f"returned {g!r}, reference {ref!r}, rel {abs(g - ref) / abs(ref):.2e}, "
                                          f"rescale={bool(d2['like'].rescale)}"))
        except Exception as e:
            bad.append(("raises", f"edge e^{target}: {type(e).__name__}: {str(e)[:160]}"))
    seen = set()
    bad = [b for b in bad if not (b[0] in seen or seen.add(b[0]))]
    return [{"case": case, "detail": f"{case}: {name}: {d}",
             "sig": {"check": name, "op": "sweep", "rescale_before": False}} for name, d in bad]


def _work(item):
    kind, case = item
    if kind == "sweep":
        return ("sweep", case, sweep(case), 1, 1, 0, None)
    v, st, tr, md, sb = explore(case)
    return ("explore", case, v, st, tr, md, sb)


def mp_selftest():
    """extended-range numpy reference vs mpmath (60 digits) on a 530-taxon caterpillar"""
    import mpmath as mp

    case = {"n": 530, "shape": "caterpillar", "model": 0, "tips": "missing", "depth": 1}
    inst = Instance(case)
    s = 5.0
    ref_total, _ = inst.ref(s)
    with mp.workdps(60):
        e = mp.exp(mp.mpf(-4) / 3 * s)
        P = [[(mp.mpf(1) / 4 + mp.mpf(3) / 4 * e) if i == j else (mp.mpf(1) / 4 - e / 4)
              for j in range(4)] for i in range(4)]
        I4 = [[mp.mpf(1) if i == j else mp.mpf(0) for j in range(4)] for i in range(4)]
        npat = len(inst.w)
        total = mp.mpf(0)
        for j in range(npat):
            stack = [(inst.top, False)]
            vals = []
            while stack:
                node, done = stack.pop()
                if not isinstance(node, tuple):
                    vals.append(([mp.mpf(x) for x in inst.tips[node][j]], frozenset([node])))
                    continue
                if not done:
                    stack.append((node, True))
                    stack.append((node[1], False))
                    stack.append((node[0], False))
                else:
                    b, cb = vals.pop()
                    a, ca = vals.pop()
                    Pa = I4 if ca == inst.zero_clade else P
                    Pb = I4 if cb == inst.zero_clade else P
                    pa = [sum(Pa[x][y] * a[y] for y in range(4)) for x in range(4)]
                    pb = [sum(Pb[x][y] * b[y] for y in range(4)) for x in range(4)]
                    vals.append(([pa[x] * pb[x] for x in range(4)], ca | cb))
            part, _ = vals.pop()
            total += inst.w[j] * mp.log(sum(part) / 4)
        d = abs(float(total) - ref_total) / abs(ref_total)
    if d > 1e-12:
        raise RuntimeError(f"extended-range reference disagrees with mpmath: {d:.2e}")
    return d


def run(run):
    tt.boot()
    mp_selftest()
    quick = run.tier == "quick"
    shapes = ("caterpillar", "balanced") if quick else ("caterpillar", "balanced", "cherries")
    items = []
    # (a) size sweep through the band, every size (quick: every second)
    for n in range(500, 561, 2 if quick else 1):
        for shape in shapes:
            for mi in range(len(MODELS)):
                for tips in ("missing", "states"):
                    items.append(("sweep", {"n": n, "shape": shape, "model": mi, "tips": tips}))
    # (b) state machine
    sizes = (520, 560, 600, 700) if quick else (505, 520, 535, 550, 565, 580, 600, 650, 700, 800)
    for n in sizes:
        for shape in shapes:
            for mi in range(len(MODELS)):
                for tips in ("missing", "states"):
                    items.append(("explore", {"n": n, "shape": shape, "model": mi, "tips": tips,
                                              "depth": 3 if quick else 4}))
    # (c) trees far larger than the window: the switch happens under mild underflow at short
    # branches (most subtrees still representable), later evaluations are 8-14 times deeper
    big = [(8192, 0, "missing"), (8192, 0, "states"), (8192, 1, "missing")] if quick else [
        (n, mi, tips) for n in (4096, 6000, 8192) for mi in range(len(MODELS))
        for tips in ("missing", "states")]
    for n, mi, tips in big:
        items.append(("explore", {"n": n, "shape": "balanced", "model": mi, "tips": tips,
                                  "depth": 2 if quick else 3, "ops": ["band", "under", "large"]}))
    items.sort(key=lambda it: (it[0] != "explore", -it[1]["n"]))
    res = pmap(_work, items)
    states = trans = 0
    in_band = 0
    maxdepth = 0
    samples = []
    for kind, case, viols, st, tr, md, sb in res:
        states += st
        trans += tr
        maxdepth = max(maxdepth, md)
        if kind == "explore" and sb is not None:
            in_band += 1
            if len(samples) < 3:
                samples.append({"case": case, "band_branch_length": sb, "ops": list(OPS)})
        run.absorb(viols)
    samples.append({"sweep_case": items[-1][1]})
    cov = {
        "states": states,
        "transitions": trans,
        "traces_validated_against_impl": trans,
        "samples": samples,
        "exhaustive": True,
        "bound": f"state = (rescale flag, previous operation); every reachable state expanded with every "
                 f"operation up to history depth {3 if quick else 4} (closure reached at depth {maxdepth}); "
                 f"sizes {list(sizes)}; sweep sizes 500..560 step {2 if quick else 1}",
        "instances_with_band_setting": in_band,
        "sweep_evaluations": sum(1 for it in items if it[0] == "sweep"),
        "rtol": RTOL,
    }
    return run.finish(cov, assumptions=[
        "three tree shape families, uniform branch lengths; per-site likelihood magnitudes controlled by the branch length",
        "the model's future depends only on its rescale flag and parameter values (states are merged on (flag, previous op))",
        "reference: log-domain pruning in float64 verified against mpmath at 60 digits on a 530-taxon tree each run",
    ])


def replay(case):
    if "history" not in case:
        return sweep(case)
    inst = Instance(case)
    sband = inst.band_length()
    dic = inst.build()
    out = []
    for o in case["history"]:
        if o == "force_rescale":
            dic["like"].rescale = True
            continue
        before = bool(dic["like"].rescale)
        for name, detail in evaluate(inst, dic, o, sband):
            out.append({"case": case, "detail": f"{name}: {detail}",
                        "sig": {"check": name, "op": o, "rescale_before": before}})
    return out
