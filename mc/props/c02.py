"""C02 – the likelihood is invariant to how the same tree and data are written down.

For every labelled rooted topology: all permutations of the taxa list, all permutations
of the sequence list (full product for n <= 4), all child orientations of the Newick, all
permutations and all duplications of the alignment columns, tip-state vs tip-partial
representation, and (reversible models, unrooted tree) all 2n-3 root placements.  The
oracle is differential: the value of the canonical specification of the same tree."""
import itertools

import numpy as np

from mc.builders import likelihood as lb
from mc.builders import trees as tb
from mc.env import tt
from mc.explore import enumerate as en
from mc.runner import chunked, jdump, pmap

LEVEL = "exploration"
RTOL = 1e-10
MODELS = (("JC69", 0, "constant"), ("HKY", 0, "invariant"), ("GTR", 1, "weibull4"))
# generic data: 8 columns with ambiguity codes / gaps; row i belongs to taxon t<i>
DATA = ["ACGTRN-A", "CCGTAYGA", "ATGAR-TC", "GCTTACNG", "TAG-CCGT", "ACTNGRAA"]
COLS5 = ["ACGTA", "CAGTN", "ATRAC", "GC-TG", "TAGCC", "AYTNG"]
# "twin" columns: columns 0-3 agree on every unambiguous tip and differ only in the symbol of t2
# (G / R / N / -): identical under the missing-data reading of a code, different under the union reading
COLS5B = ["AAAAC", "CCCCA", "GRN-G", "TTTTT", "AAAAG", "CCCCY"]


def lengths(top, seed):
    """generic distinct branch length for every non-root clade"""
    rng = np.random.default_rng(31 * seed + 5)
    out = {}
    for i, c in enumerate(sorted(en.parent_map(top), key=lambda c: (len(c), sorted(c)))):
        out[c] = float((0.04 + 0.063 * i) * (1 + 0.2 * rng.uniform(-1, 1)))
    return out


def nwk(t, bl):
    def rec(x):
        if isinstance(x, tuple):
            s = "(" + rec(x[0]) + "," + rec(x[1]) + ")"
        else:
            s = str(x)
        c = frozenset(en.leaves(x))
        if c in bl:
            s += ":" + repr(bl[c])
        return s
    return rec(t) + ";"


def ultrametric(top, ages, seed):
    """node heights (shifts generic) -> branch lengths in time for a dated tree"""
    labels = en.leaves(top)
    shifts = {c: 0.2 + 0.17 * i for i, c in enumerate(en.clades(top))}
    h = tb.oracle_shift_heights(top, ages, shifts)
    hh = dict(h)
    for lab, a in ages.items():
        hh[frozenset([lab])] = a
    return {c: hh[p] - hh[c] for c, p in en.parent_map(top).items()}


def spec(top, taxa_order, seq_order, model, tree_kind, tips, bl, data, ages=None, newick=None):
    subst, pidx, site = model
    sspec, _ = lb.subst_spec(subst, lb.SUBST_POINTS[subst][pidx])
    n = len(taxa_order)
    if tree_kind == "unrooted":
        tspec = tb.unrooted_tree(top, taxa_order, [0.1] * (2 * n - 3),
                                 newick=newick if newick is not None else nwk(top, bl), keep=True)
        clock = None
    else:
        dates = [ages[l] for l in taxa_order]
        tspec = {"id": "tree", "type": "TimeTreeModel", "newick": nwk(top, bl),
                 "taxa": tb.taxa_spec(taxa_order, dates), "keep_branch_lengths": True,
                 "internal_heights": lb.P("tree.heights", [1.0] * (n - 1))}
        clock = {"id": "clock", "type": "StrictClockModel", "tree_model": "tree",
                 "rate": lb.P("clock.rate", [0.13])}
    aln = lb.alignment_spec(seq_order, [data[l] for l in seq_order], "nucleotide")
    return lb.likelihood_spec(tspec, sspec, lb.site_spec(site), aln, tips, clock=clock)


def value(sp):
    return float(tt.load(sp)["like"]())


def rerootings(top, bl):
    """all 2n-3 rooted versions (nested tuples + lengths) of the unrooted tree behind
    (top, bl); the rooted branch is split 30/70."""
    # adjacency of the unrooted tree: nodes are clades of `top`; root removed
    pm = en.parent_map(top)
    root = frozenset(en.leaves(top))
    kids = {}
    for c, p in pm.items():
        kids.setdefault(p, []).append(c)
    adj = {}

    def link(u, v, w):
        adj.setdefault(u, {})[v] = w
        adj.setdefault(v, {})[u] = w

    a, b = kids[root]
    link(a, b, bl[a] + bl[b])
    for c, p in pm.items():
        if p != root:
            link(c, p, bl[c])
    edges = sorted({tuple(sorted((u, v), key=lambda s: (len(s), sorted(s)))) for u in adj for v in adj[u]},
                   key=lambda e: [(len(s), sorted(s)) for s in e])
    out = []

    def subtree(node, frm, lens):
        """nested tuple of the part of the tree seen from `node` away from `frm`"""
        nbrs = [x for x in adj[node] if x != frm]
        if not nbrs:  # leaf
            (lab,) = tuple(node)
            return lab
        subs = []
        for x in nbrs:
            t = subtree(x, node, lens)
            lens[frozenset(en.leaves(t)) if isinstance(t, tuple) else frozenset([t])] = adj[node][x]
            subs.append(t)
        assert len(subs) == 2
        return (subs[0], subs[1])

    for u, v in edges:
        lens = {}
        tu = subtree(u, v, lens)
        tv = subtree(v, u, lens)
        w = adj[u][v]
        lens[frozenset(en.leaves(tu)) if isinstance(tu, tuple) else frozenset([tu])] = 0.3 * w
        lens[frozenset(en.leaves(tv)) if isinstance(tv, tuple) else frozenset([tv])] = 0.7 * w
        out.append(((tu, tv), lens))
    return out


POLYTOMIES = {
    4: [(("t0", "t1", "t2"), "t3")],
    5: [(("t0", "t1", "t2"), ("t3", "t4")), (("t0", "t1", "t2", "t3"), "t4"), ((("t0", "t1", "t2"), "t3"), "t4"),
        (("t0", ("t1", "t2", "t3")), "t4")],
}


def _leaves(x):
    return [x] if not isinstance(x, tuple) else [l for c in x for l in _leaves(c)]


def _nwk_multi(t, bl):
    """Newick of a tree whose nodes may have more than two children; bl: clade -> length"""
    def rec(x):
        s = "(" + ",".join(rec(c) for c in x) + ")" if isinstance(x, tuple) else str(x)
        c = frozenset(_leaves(x))
        return s + (":" + repr(bl[c]) if c in bl else "")
    return rec(t) + ";"


def _variants(t):
    """(kind, tree, extra zero-length clades): every order of the children of every multifurcating
    node, and every resolution of one multifurcation into a ladder of zero-length branches"""
    out = []

    def rebuild(x, target, repl):
        if x is target:
            return repl
        if isinstance(x, tuple):
            return tuple(rebuild(c, target, repl) for c in x)
        return x

    def nodes(x):
        if isinstance(x, tuple):
            yield x
            for c in x:
                yield from nodes(c)

    for nd in nodes(t):
        if len(nd) > 2:
            for perm in itertools.permutations(nd):
                out.append(("children_order", rebuild(t, nd, tuple(perm)), []))
                lad, zero = perm[-1], []
                for c in reversed(perm[1:-1]):
                    lad = (c, lad)
                    zero.append(frozenset(_leaves(lad)))
                out.append(("polytomy_resolution", rebuild(t, nd, (perm[0], lad)), zero))
    return out


def check_polytomy(item):
    """a node with more than two children: every order of its children and every resolution into
    zero-length branches is the same tree"""
    n, seed = item["n"], item["seed"]
    t = POLYTOMIES[n][item["top"]]
    labels = [f"t{i}" for i in range(n)]
    data = {l: DATA[i] for i, l in enumerate(labels)}
    bl = {}

    def assign(x, depth=0):
        c = frozenset(_leaves(x))
        if len(c) < n:
            bl[c] = 0.05 + 0.041 * len(bl) + 0.013 * (seed % 7)
        if isinstance(x, tuple):
            for ch in x:
                assign(ch)

    assign(t)
    bad, nev = [], 0
    for model in MODELS:
        for tips in ("missing", "states", "union"):
            def val(tree, zero):
                b = dict(bl)
                for z in zero:
                    b[z] = 0.0
                sp = spec(None, labels, labels, model, "unrooted", tips, None, data, newick=_nwk_multi(tree, b))
                return value(sp)
            try:
                ref = val(t, [])
                nev += 1
            except Exception as e:
                bad.append(("polytomy", f"{_nwk_multi(t, bl)}: {type(e).__name__}: {str(e)[:150]}"))
                continue
            for kind, tree, zero in _variants(t):
                nev += 1
                try:
                    v = val(tree, zero)
                except Exception as e:
                    bad.append((kind, f"{model[0]}/{tips} {_nwk_multi(tree, bl)}: {type(e).__name__}: {str(e)[:120]}"))
                    return bad, nev
                if not abs(v - ref) <= RTOL * max(1.0, abs(ref)):
                    bad.append((kind, f"{model[0]}/{tips}: {_nwk_multi(tree, {**bl, **{z: 0.0 for z in zero}})} gives "
                                      f"{v!r}, {_nwk_multi(t, bl)} gives {ref!r}"))
                    return bad, nev
    return bad, nev


def check_item(item):
    if item["part"] == "polytomy":
        return check_polytomy(item)
    n, ti, seed, part = item["n"], item["top"], item["seed"], item["part"]
    # "numeric": the taxa are called 1..n (names that look like positions in the taxa list)
    labels = [str(i + 1) for i in range(n)] if item.get("numeric") else [f"t{i}" for i in range(n)]
    top = en.rooted_topologies(labels)[ti]
    data = {l: DATA[i] for i, l in enumerate(labels)}
    ages = {l: (0.0 if i % 2 == 0 else 0.4 + 0.1 * i) for i, l in enumerate(labels)}
    bad = []
    nev = 0

    def compare(ref, sp, what, name):
        nonlocal nev
        nev += 1
        try:
            v = value(sp)
        except Exception as e:
            bad.append((name, f"{what}: {type(e).__name__}: {str(e)[:150]}"))
            return
        if not abs(v - ref) <= RTOL * max(1.0, abs(ref)):
            bad.append((name, f"{what}: {v!r} vs canonical {ref!r}"))

    models = MODELS
    if item.get("lean"):
        models = MODELS[2:]  # quick tier, n = 5: the most generic model only
    for model in models:
        for tree_kind in ("unrooted", "time"):
            bl = lengths(top, seed) if tree_kind == "unrooted" else ultrametric(top, ages, seed)
            for tips in ("missing", "states"):
                try:
                    ref = value(spec(top, labels, labels, model, tree_kind, tips, bl, data, ages))
                    nev += 1
                except Exception as e:
                    bad.append(("canonical", f"{type(e).__name__}: {str(e)[:150]}"))
                    continue
                tag = f"{model[0]}/{tree_kind}/{tips}"
                if part == "taxa_seq":
                    perms = list(itertools.permutations(labels))
                    if n <= 4:
                        pairs = itertools.product(perms, perms)
                    else:
                        pairs = [(p, tuple(labels)) for p in perms] + [(tuple(labels), p) for p in perms]
                    for tp, sq in pairs:
                        compare(ref, spec(top, list(tp), list(sq), model, tree_kind, tips, bl, data, ages),
                                f"{tag} taxa order {tp} sequence order {sq}", "taxa_or_sequence_order")
                        if bad:
                            return bad, nev
                elif part == "children":
                    for o in en.orientations(top):
                        compare(ref, spec(o, labels, labels, model, tree_kind, tips, bl, data, ages),
                                f"{tag} newick {nwk(o, {})}", "child_order")
                        if bad:
                            return bad, nev
            if part == "representation":
                try:
                    a = value(spec(top, labels, labels, model, tree_kind, "missing", bl, data, ages))
                    b = value(spec(top, labels, labels, model, tree_kind, "states", bl, data, ages))
                    nev += 2
                    if not abs(a - b) <= RTOL * max(1.0, abs(a)):
                        bad.append(("tip_states_vs_partials", f"{model[0]}/{tree_kind}: partials {a!r} states {b!r}"))
                except Exception as e:
                    bad.append(("tip_states_vs_partials", f"{type(e).__name__}: {str(e)[:150]}"))
            if part == "reroot" and tree_kind == "unrooted":
                ref = value(spec(top, labels, labels, model, "unrooted", "missing", bl, data))
                for rt, lens in rerootings(top, bl):
                    for o in (rt, (rt[1], rt[0])):
                        compare(ref, spec(o, labels, labels, model, "unrooted", "missing", lens, data),
                                f"{model[0]} rooted as {nwk(o, lens)}", "root_placement")
                        if bad:
                            return bad, nev
        if part == "columns":
            bl = lengths(top, seed)
            for cname, cols in (("generic", COLS5), ("twins", COLS5B)):
                cdata = {l: cols[i] for i, l in enumerate(labels)}
                for tips in ("missing", "states", "union"):
                    try:
                        ref = value(spec(top, labels, labels, model, "unrooted", tips, bl, cdata))
                        single = []
                        for j in range(5):
                            single.append(value(spec(top, labels, labels, model, "unrooted", tips, bl,
                                                     {l: cdata[l][j] for l in labels})))
                        nev += 6
                    except Exception as e:
                        bad.append(("columns", f"{type(e).__name__}: {str(e)[:150]}"))
                        continue
                    if not abs(sum(single) - ref) <= RTOL * max(1.0, abs(ref)):
                        bad.append(("column_sum", f"{model[0]}/{tips}/{cname}: sum of single-column values "
                                                  f"{sum(single)!r} vs {ref!r}"))
                    for perm in itertools.permutations(range(5)):
                        d = {l: "".join(cdata[l][j] for j in perm) for l in labels}
                        compare(ref, spec(top, labels, labels, model, "unrooted", tips, bl, d),
                                f"{model[0]}/{tips}/{cname} column order {perm}", "column_order")
                        if bad:
                            return bad, nev
                    if cname != "generic":
                        continue
                    for mult in itertools.product((1, 2, 3), repeat=5):
                        order = [j for m in (1, 2, 3) for j in range(5) if mult[j] >= m]
                        d = {l: "".join(cdata[l][j] for j in order) for l in labels}
                        exp = sum(m * s for m, s in zip(mult, single))
                        compare(exp, spec(top, labels, labels, model, "unrooted", tips, bl, d),
                                f"{model[0]}/{tips} column multiplicities {mult}", "column_duplication")
                        if bad:
                            return bad, nev
    return bad, nev


def items(tier, seed):
    ns = (3, 4, 5) if tier == "quick" else (3, 4, 5, 6)
    out = []
    for n in ns:
        for ti in range(en.n_rooted(n)):
            for part in ("taxa_seq", "children", "representation", "reroot", "columns"):
                if part == "columns" and ((n > 4 and ti % 7) or (tier == "quick" and (n > 4 or (n == 4 and ti % 5)))):
                    continue  # column handling does not depend on the topology: sub-sample large n
                if n == 6 and part == "taxa_seq" and ti % 5:
                    continue
                it = {"n": n, "top": ti, "seed": seed, "part": part}
                if tier == "quick" and n == 5 and part in ("taxa_seq", "children"):
                    it["lean"] = True
                out.append(it)
    for ti in range(en.n_rooted(4)):
        out.append({"n": 4, "top": ti, "seed": seed, "part": "taxa_seq", "numeric": True, "lean": True})
    for n, trees in POLYTOMIES.items():
        for k in range(len(trees)):
            out.append({"n": n, "top": k, "seed": seed, "part": "polytomy"})
    return out


def _work(chunk):
    return [(it,) + tuple(check_item(it)) for it in chunk]


def sig(it, name):
    return {"part": it["part"], "check": name}


def run(run):
    its = items(run.tier, run.seed)
    order = {"taxa_seq": 0, "columns": 1, "reroot": 2, "children": 3, "representation": 4, "polytomy": 5}
    its.sort(key=lambda it: (-it["n"], order[it["part"]]))
    res = pmap(_work, [its[i::128] for i in range(128)])
    evals = 0
    per = {}
    for chunk in res:
        for it, bad, nev in chunk:
            evals += nev
            per[it["part"]] = per.get(it["part"], 0) + nev
            seen = set()
            for name, detail in bad:
                if name in seen:
                    continue
                seen.add(name)
                run.violation(it, f"{it}: {name}: {detail}", sig(it, name))
    cov = {
        "evaluations": evals,
        "distinct_nontrivial": evals - len(its),
        "rule": "per topology: all n! x n! (n<=4) or 2 n! (n>=5) taxa/sequence orders, all 2^(n-1) child "
                "orientations, all 120 column orders and 243 multiplicity patterns of a 5-column alignment, "
                "tip states vs partials, all 2n-3 root placements x both child orders; x 3 models x "
                "{unrooted, dated+strict clock} x tip representations; non-trivial = a specification other "
                "than the canonical one",
        "samples": [its[0], its[len(its) // 2], its[-1]],
        "exhaustive": True,
        "evaluations_per_part": per,
        "topologies": {n: en.n_rooted(n) for n in sorted({it["n"] for it in its})},
        "rtol": RTOL,
    }
    return run.finish(cov, assumptions=[
        "for n >= 5 the product of taxa and sequence permutations is not enumerated (each group is, with the other fixed)",
        "re-rooting is checked for the reversible models JC69, HKY, GTR only, as the property states",
        "the canonical value itself is tied to the brute-force oracle by C01",
    ])


def replay(case):
    bad, _ = check_item(case)
    return [{"case": case, "detail": f"{n}: {d}", "sig": sig(case, n)} for n, d in bad]
