"""C12 - gradients are the derivatives of the reported densities.

Space: every (callable density m, base parameter element p[i]) pair of every model graph of a
declared finite family, at three generic interior points (the values in the specification and
two displaced points) and at the "neutral" points (one parameter at a time at its natural
default: 1 for a positive quantity, 1/2 for a probability, the uniform simplex, 0 for an
unconstrained value - where value-based short cuts and symmetric special cases live), with and
without rescaling forced on for the tree likelihoods.  The family is

  * the committed CLI-generated graphs (mc/builders/graphs/*.json),
  * for every labelled rooted topology on 3 and 4 (thorough: 5) tips with pairwise distinct
    sampling dates x {ratio, shift} node-height parameterisation: one graph with all tree priors
    (node-height Jacobian, constant / exponential / skyride / skygrid / soft skygrid /
    piecewise-linear / integrated coalescent, three BDSK configurations, time-aware GMRF with and
    without rescaling, integrated GMRF, a joint) and one with the tree likelihoods (strict clock
    + HKY + Weibull+I+mu with partials; per-branch rescaled-rate clock + JC69 with tip states;
    CTMC scale, horseshoe prior on log rate differences, Poisson likelihood, joints),
  * every unrooted topology on 4 (thorough: 5) tips (GTR+W4+I likelihood with ambiguities, HKY
    with tip states, gamma-Dirichlet prior, joint),
  * substitution model x site model x tip representation likelihoods on a fixed tree, including
    the symmetric interior points (equal frequencies, kappa = 1, equal exchangeabilities),
  * a 540-taxon likelihood whose site likelihoods underflow (rescaling switches itself on),
  * every shipped transform behind a TransformedParameter (its log-Jacobian and a prior on the
    transformed value), GMRF variants, scale mixtures, Bayesian bridge, multivariate normal,
    torchtree's own distributions, view / concatenated parameters, joint models.

Oracle: central finite differences of the value of m().sum() (two step sizes, Richardson
combined); EVERY function evaluation is a graph freshly built from its JSON specification
holding the perturbed base values, so no cached state of the implementation is relied on.
The autograd gradient is read from parameter.grad after m().sum().backward() on a fresh graph
(one graph per density) whose base parameters were created with requires_grad; it is then read
again on one graph after the histories the optimisation loop produces (evaluation under no_grad,
change notification, backward; notification and backward again at the same values) and must be
reproduced.  A pair is judged
only where the value function is smooth at the point: the two step sizes must agree and the
one-sided slopes must behave like those of a differentiable function (a kink or cusp exactly
at the point, e.g. |x| at 0, is not a point where a derivative exists)."""
import copy
import math

import numpy as np

from mc.builders import likelihood as lb
from mc.builders import trees as tb
from mc.env import tt
from mc.explore import enumerate as en
from mc.explore import graphstate as gs
from mc.runner import pmap

LEVEL = "exploration"
TOL = 1e-5          # |g_ad - g_fd| <= TOL * max(1, |g_fd|)
MISSING = 1e-6      # |g_fd| above this: the gradient must exist and be non-zero
H1 = 1e-3           # finite-difference steps, relative to max(1, |x|) (to |x| for positive parameters)
H2 = 5e-4
GUARD = 1e-4        # |D(h1) - D(h2)| <= GUARD * max(1, |D|), else the pair is not judged
MIN_GAP = 0.05      # minimal distance between two event times at an evaluation point
CHUNK = 10          # parameter elements per work unit
STOCHASTIC = ("ELBO", "SELBO", "KLpq", "KLpqImportance", "VR", "CUBO")


def P(id_, v, **kw):
    d = {"id": id_, "type": "Parameter", "tensor": v}
    d.update(kw)
    return d


# ================================================================================================
# generic differentiation of a model graph
# ================================================================================================

def spec_with(spec, values, grad=()):
    """copy of the specification with the tensors of the named Parameters replaced (and created
    with requires_grad for the ids in `grad`)"""
    spec = copy.deepcopy(spec)
    grad = set(grad)

    def rec(o):
        if isinstance(o, dict):
            if o.get("type") in ("Parameter", "torchtree.Parameter", "torchtree.core.parameter.Parameter") \
                    and o.get("id") in values:
                for k in list(o):
                    if k not in ("id", "type", "dtype", "nn"):
                        del o[k]
                o["tensor"] = values[o["id"]].tolist()
                if o["id"] in grad:
                    o["requires_grad"] = True
            else:
                for v in o.values():
                    rec(v)
        elif isinstance(o, list):
            for v in o:
                rec(v)

    rec(spec)
    return spec


def density_names(dic):
    from torchtree.core.model import CallableModel
    from torchtree.core.parameter import TransformedParameter

    out = []
    for k in dic:
        o = dic[k]
        if isinstance(o, CallableModel):
            if type(o).__name__ in STOCHASTIC or type(o).__module__.startswith(
                    ("torchtree.variational", "torchtree.nf", "torchtree.nn")):
                continue
            out.append(k)
        elif isinstance(o, TransformedParameter):
            out.append(k)
    return out


def density_class(o):
    name = type(o).__name__
    if name == "TransformedParameter":
        return "TransformedParameter:" + type(o.transform).__name__
    if name == "Distribution":
        return "Distribution:" + o.dist.__name__
    if name == "ReparameterizedTimeTreeModel":
        return "ReparameterizedTimeTreeModel:" + type(o.transform).__name__
    if getattr(o, "temperature", None) is not None:
        return name + ":temperature"
    return name


def force(dic, rescale):
    if rescale:
        for o in dic.values():
            if type(o).__name__ == "TreeLikelihoodModel":
                o.rescale = True


def has_likelihood(dic):
    return any(type(o).__name__ == "TreeLikelihoodModel" for o in dic.values())


def values_of(spec, vals, rescale, names):
    """value of m().sum() for every density of a fresh graph; a float, or ('raises', text)"""
    dic = tt.load(spec_with(spec, vals))
    force(dic, rescale)
    out = {}
    for name in names:
        try:
            v = dic[name]()
            out[name] = float(v.sum())
        except Exception as e:  # the implementation failed: decided by the caller
            out[name] = ("raises", f"{type(e).__name__}: {str(e)[:160]}")
    return out


def ad_of(spec, vals, rescale, name, params):
    """parameter.grad after m().sum().backward() on a fresh graph; returns (status, grads, text)
    status: ok | detached | value_raises | backward_raises"""
    dic = tt.load(spec_with(spec, vals, grad=params))
    force(dic, rescale)
    try:
        s = dic[name]().sum()
    except Exception as e:
        return "value_raises", {}, f"{type(e).__name__}: {str(e)[:200]}"
    if not s.requires_grad:
        return "detached", {}, "the returned value does not require grad (no path to any parameter)"
    try:
        s.backward()
    except Exception as e:
        return "backward_raises", {}, f"{type(e).__name__}: {str(e)[:200]}"
    grads = {}
    for p in params:
        g = dic[p].grad
        grads[p] = None if g is None else g.detach().clone().reshape(-1).tolist()
    return "ok", grads, ""


def ad_history_of(spec, vals, rescale, name, params, grads0):
    """the gradient read again on one graph after the histories the optimisation loop produces:
    (a) an evaluation under no_grad (convergence monitor / logger), the change notification, then
    value + backward; (b) the notification and value + backward once more at the same values.
    Both must reproduce the gradient of the single evaluation on a fresh graph.
    Returns None or a text."""
    import torch

    def close(a, b):
        if a is None or b is None:
            return a is None and b is None
        for x, y in zip(a, b):
            if math.isnan(x) or math.isnan(y):
                if not (math.isnan(x) and math.isnan(y)):
                    return False
            elif abs(x - y) > 1e-9 * max(1.0, abs(x), abs(y)):
                return False
        return len(a) == len(b)

    dic = tt.load(spec_with(spec, vals, grad=params))
    force(dic, rescale)
    step = "evaluation under no_grad"
    try:
        with torch.no_grad():
            dic[name]()
        for k, label in enumerate(("no_grad evaluation, notification, backward",
                                   "... notification, second backward at the same values")):
            step = label
            for p in params:
                dic[p].fire_parameter_changed()
                dic[p].tensor.grad = None
            s = dic[name]().sum()
            if not s.requires_grad:
                return f"after [{label}] the value does not require grad"
            s.backward()
            for p in params:
                g = dic[p].grad
                g = None if g is None else g.detach().reshape(-1).tolist()
                if not close(g, grads0.get(p)):
                    return (f"after [{label}] the gradient w.r.t. {p} is {g}, the single evaluation on a "
                            f"fresh graph gives {grads0.get(p)}")
    except Exception as e:
        return f"[{step}] raises {type(e).__name__}: {str(e)[:160]}"
    return None


def dependents(spec, vals, rescale, names, base, p, rel):
    """the densities whose value changes when all elements of p are moved together by generic
    amounts (one fresh graph); a density that raises or is not finite counts as dependent"""
    import torch

    x = vals[p]
    d = torch.tensor([0.013 + 0.0017 * ((5 * i) % 7) for i in range(x.numel())]).reshape(x.shape).to(x.dtype)
    v = dict(vals)
    v[p] = x * (1.0 + d) if rel else x + d * torch.clamp(x.abs(), min=1.0)
    moved = values_of(spec, v, rescale, names)
    return [n for n in names if isinstance(moved[n], tuple) or isinstance(base[n], tuple)
            or not (moved[n] == base[n])]


def fd_of(spec, vals, rescale, names, p, i, rel=False, allnames=None, base=None):
    """Richardson-combined central difference of every density w.r.t. element i of parameter p.
    returns name -> (status, value, d1, d2); status ok | unreliable | unavailable.  Densities in
    allnames but not in names do not depend on p: their derivative is 0 without evaluation."""
    x = float(vals[p].reshape(-1)[i])
    sc = abs(x) if rel else max(1.0, abs(x))
    ev = {}
    for h in (H1 * sc, H2 * sc):
        for sgn in (1.0, -1.0):
            v = {k: t.clone() for k, t in vals.items()}
            flat = v[p].reshape(-1)
            flat[i] = x + sgn * h
            v[p] = flat.reshape(vals[p].shape)
            ev[(h, sgn)] = values_of(spec, v, rescale, names) if names else {}
    h1, h2 = H1 * sc, H2 * sc
    out = {n: ("ok", 0.0, 0.0, 0.0) for n in (allnames or ()) if n not in names}
    for name in names:
        vs = [ev[(h1, 1.0)][name], ev[(h1, -1.0)][name], ev[(h2, 1.0)][name], ev[(h2, -1.0)][name]]
        if any(isinstance(v, tuple) or not math.isfinite(v) for v in vs):
            out[name] = ("unavailable", None, None, None)
            continue
        d1 = (vs[0] - vs[1]) / (2 * h1)
        d2 = (vs[2] - vs[3]) / (2 * h2)
        r = (H1 / H2) ** 2
        d = (r * d2 - d1) / (r - 1.0)
        ok = abs(d1 - d2) <= GUARD * max(1.0, abs(d))
        if ok and base is not None:
            # one-sided slopes: forward minus backward difference is h f'' for a smooth function
            # (so s(h1) = (h1/h2) s(h2)); a kink or cusp exactly at x breaks that proportionality
            f0 = base[name]
            s1 = (vs[0] - 2.0 * f0 + vs[1]) / h1
            s2 = (vs[2] - 2.0 * f0 + vs[3]) / h2
            ok = abs(s1 - (H1 / H2) * s2) <= GUARD * max(1.0, abs(d))
        out[name] = ("ok" if ok else "unreliable", d, d1, d2)
    return out


def judge(fd, ad_status, g):
    """fd: Richardson derivative; g: autograd entry (float or None).  returns None or (check, text)"""
    if ad_status == "detached" or g is None:
        if abs(fd) > MISSING:
            return "missing", f"no gradient reaches the parameter, numerical derivative {fd!r}"
        return None
    if not math.isfinite(g):
        return "nonfinite", f"autograd gradient {g!r}, numerical derivative {fd!r}"
    if g == 0.0 and abs(fd) > MISSING:
        return "missing", f"autograd gradient is exactly zero, numerical derivative {fd!r}"
    if abs(g - fd) > TOL * max(1.0, abs(fd)):
        return "mismatch", f"autograd gradient {g!r}, numerical derivative {fd!r}"
    return None


# ================================================================================================
# evaluation points
# ================================================================================================

def kind_of(pid, x, kinds):
    if pid in kinds:
        return kinds[pid]
    if pid.endswith((".unres", ".log", ".unshifted")) or bool((x < 0).any()):
        return "real"
    if x.numel() > 1 and abs(float(x.sum()) - 1.0) < 1e-9 and bool((x > 0).all()):
        return "simplex"
    if bool((x > 0).all()):
        return "unit" if bool((x < 1).all()) and ("pinv" in pid or "prob" in pid or pid.endswith((".s", ".rho"))) \
            else "pos"
    return "real"


def offsets(n, j, seed, salt, pid):
    """generic pairwise distinct offsets in about [-0.25, 0.25]; the seed moves them"""
    h = sum(ord(c) * (k + 1) for k, c in enumerate(pid)) % 97
    rng = np.random.default_rng(1000003 * seed + 7919 * salt + 101 * j + h)
    base = np.array([(((5 * i + 3 * j + h + 4 * salt) % 11) - 5) * 0.04 for i in range(n)])
    amp = 1.0 + 0.5 * min(salt // 20, 6)  # later attempts move further
    return amp * (base + 0.03 * rng.uniform(-1, 1, size=n))


def displaced(x0, kind, j, seed, salt, pid):
    import torch

    if j == 0 or kind == "fixed":
        return x0.clone()
    d = torch.tensor(offsets(x0.numel(), j, seed, salt, pid)).reshape(x0.shape).to(x0.dtype)
    if kind == "real":
        return x0 + d
    if kind == "pos":
        return x0 * torch.exp(d)
    if kind == "unit":
        return torch.sigmoid(torch.logit(x0) + d)
    if kind == "simplex":
        y = x0 * torch.exp(d)
        return y / y.sum(-1, keepdim=True)
    raise ValueError(kind)


def event_gap(dic):
    """smallest distance between two event times that some density of the graph compares
    (internal node heights, sampling times, grid points, skyline change times); ties between
    two sampling times are data, not points of the parameter domain, and are not counted.
    inf if the graph has no event times"""
    gap = math.inf

    def mingap(tips, others):
        ev = sorted([(float(t), 0) for t in tips] + [(float(t), 1) for t in others])
        g = math.inf
        for (a, ka), (b, kb) in zip(ev, ev[1:]):
            if ka == 0 and kb == 0:
                continue
            g = min(g, b - a)
        # a tip and a later event separated by further tips
        for t, k in ev:
            if k == 1:
                for u in tips:
                    g = min(g, abs(t - float(u)))
        return g

    for o in dic.values():
        cls = type(o).__name__
        if cls in ("TimeTreeModel", "ReparameterizedTimeTreeModel", "FlexibleTimeTreeModel"):
            n = o.taxa_count
            hs = o.node_heights.detach().reshape(-1).tolist()
            gap = min(gap, mingap(hs[:n], hs[n:]))
        tree = getattr(o, "tree_model", None)
        if tree is None or not hasattr(tree, "taxa_count") or not hasattr(tree, "node_heights"):
            continue
        n = tree.taxa_count
        hs = tree.node_heights.detach().reshape(-1).tolist()
        if getattr(o, "grid", None) is not None:
            grid = o.grid.tensor.detach().reshape(-1).tolist()
            gap = min(gap, mingap(hs[:n], hs[n:] + grid))
        if cls == "BDSKModel":
            m = o.R.tensor.shape[-1]
            origin = float(o.origin.tensor.reshape(-1)[0]) if o.origin is not None else max(hs)
            if o.origin is not None and o.origin_is_root_edge:
                origin += max(hs)
            if o.times is None:
                times = [origin * k / m for k in range(1, m)]
            else:
                t = o.times.tensor.detach().reshape(-1).tolist()
                times = ([x * origin for x in t] if o.relative_times else t)[1:]
            # in forward time: tips at origin - h, nodes at origin - h, change times, the origin itself
            gap = min(gap, mingap([origin - h for h in hs[:n]], [origin - h for h in hs[n:]] + times))
            gap = min(gap, origin - max(hs))
    return gap


def point(spec, kinds, j, seed, fixture=False):
    """base values of evaluation point j (0 = the values in the specification); the offsets are
    re-drawn (salt) until no two event times are closer than MIN_GAP"""
    import torch

    dic0 = tt.load(spec)
    x0 = gs.base_values(dic0)
    if fixture:
        big = {k: x for k, x in x0.items() if kind_of(k, x, kinds) == "real" and bool((x.abs() > 100).any())}
        if big:
            for k, x in big.items():
                x0[k] = torch.where(x.abs() > 100, -torch.sign(x) * (1.0 + 0.37 * torch.arange(x.numel()).reshape(x.shape)), x)
            dic0 = tt.load(spec_with(spec, x0))
    if j == 0:
        g = event_gap(dic0)
        if g >= MIN_GAP:
            return x0, g
        j = 3  # the initial point sits on a tie between event times: a third displaced point instead
    for salt in range(400):
        vals = {k: displaced(x, kind_of(k, x, kinds), j, seed, salt, k) for k, x in x0.items()}
        try:
            dic = tt.load(spec_with(spec, vals))
            g = event_gap(dic)
        except Exception:
            continue
        if g >= MIN_GAP:
            return vals, g
    raise RuntimeError("no generic point found")


# ================================================================================================
# the family of graphs
# ================================================================================================

TT = "torchtree.distributions.transforms."
TD = "torch.distributions."
SEQS = ["ACGTACGTAC-TGGA", "ACGTTCGAACGTGCA", "AAGTACCTGCGAGGA", "GCGAACGTACTTGGC", "ACTTACGTCCGRTGA"]
AA_SEQS = ["ARNDCQEGHI", "ARNECQEGHL", "SRNDCQKGHI", "ARDDCHEGYI"]
CODON_SEQS = ["ATGGCTAAACCCGGGTTT", "ATGGCAAAACCTGGGTTC", "ATGTCTAAGCCCGGATTT", "CTGGCTAAACCCGGGTAT"]
DATES = {0: [0.0, 0.7, 1.6, 2.9, 4.3], 1: [2011.3, 2009.1, 2012.0, 2006.4, 2010.2]}
GRID = [1.13, 3.4, 6.2]


def labels_of(n):
    return [f"t{i}" for i in range(n)]


def gen(n, a, b, k=3, m=7):
    """n pairwise distinct generic values in [a, b]"""
    return [a + (b - a) * (((k * i + 2) % m) + 0.5 + 0.07 * i) / (m + 0.5) for i in range(n)]


def dist(id_, name, x, **params):
    d = {"id": id_, "type": "Distribution", "distribution": name, "x": x}
    if params:
        d["parameters"] = params
    return d


def tp(id_, transform, x, **params):
    d = {"id": id_, "type": "TransformedParameter", "transform": transform, "x": x}
    if params:
        d["parameters"] = params
    return d


def joint(id_, members):
    return {"id": id_, "type": "JointDistributionModel", "distributions": members}


def time_tree(n, ti, di, kind):
    labels = labels_of(n)
    top = en.rooted_topologies(labels)[ti]
    dates = DATES[di][:n]
    heights = tb.sampling_heights(dates)
    if kind == "ratio":
        tree = tb.ratio_tree(top, labels, dates, gen(n - 2, 0.25, 0.75), [max(heights) + 1.7])
        kinds = {"tree.ratios": "unit", "tree.root_height": "real"}
    else:
        tree = tb.shift_tree(top, labels, dates, gen(n - 1, 0.4, 1.4, k=2, m=5))
        kinds = {"tree.shifts": "pos"}
    return labels, tree, kinds


def tree_graph(n, ti, di, kind):
    """all tree priors and the node-height Jacobian on one time tree"""
    labels, tree, kinds = time_tree(n, ti, di, kind)
    growth = 0.3 if di == 0 else -0.4
    spec = [
        tree,
        {"id": "coal.constant", "type": "ConstantCoalescentModel", "theta": P("theta.c", [2.1]), "tree_model": "tree"},
        {"id": "coal.exp", "type": "ExponentialCoalescentModel", "theta": P("theta.e", [3.3]),
         "growth": P("growth.e", [growth]), "tree_model": "tree"},
        {"id": "coal.skyride", "type": "PiecewiseConstantCoalescentModel",
         "theta": P("theta.sr", gen(n - 1, 0.9, 3.7)), "tree_model": "tree"},
        {"id": "coal.skygrid", "type": "PiecewiseConstantCoalescentGridModel",
         "theta": P("theta.sg", gen(4, 1.1, 4.2, k=2)), "grid": GRID, "tree_model": "tree"},
        {"id": "coal.soft", "type": "PiecewiseConstantCoalescentGridModel", "temperature": 0.1,
         "theta": P("theta.soft", gen(4, 1.1, 4.2, k=5)), "grid": GRID, "tree_model": "tree"},
        {"id": "coal.linear", "type": "PiecewiseLinearCoalescentGridModel",
         "theta": P("theta.lin", gen(4, 0.8, 3.9, k=4)), "grid": GRID, "tree_model": "tree"},
        {"id": "coal.pexp", "type": "PiecewiseExponentialCoalescentGridModel",
         "theta": P("theta.pe", gen(4, 1.2, 3.1)), "growth": P("growth.pe", gen(4, -0.3, 0.4)),
         "grid": GRID, "tree_model": "tree"},
        {"id": "coal.integrated", "type": "ConstantCoalescentIntegratedModel", "alpha": 2.0, "beta": 1.5,
         "tree_model": "tree"},
        {"id": "bdsk.1", "type": "BDSKModel", "tree_model": "tree", "R": P("R.1", [1.8]), "delta": P("delta.1", [0.9]),
         "s": P("s.1", [0.35]), "rho": P("rho.1", [0.4]), "origin": P("origin.1", [1.3]),
         "origin_is_root_edge": True},
        {"id": "bdsk.2", "type": "BDSKModel", "tree_model": "tree", "R": P("R.2", [1.8, 1.2]),
         "delta": P("delta.2", [0.9, 1.4]), "s": P("s.2", [0.35, 0.2]), "rho": P("rho.2", [0.4]),
         "origin": P("origin.2", [1.1]), "origin_is_root_edge": True},
        {"id": "bdsk.3", "type": "BDSKModel", "tree_model": "tree", "R": P("R.3", [2.2, 0.8]),
         "delta": P("delta.3", [1.3, 0.6]), "s": P("s.3", [0.15, 0.45]), "rho": P("rho.3", [0.5]),
         "origin": P("origin.3", [0.8]), "origin_is_root_edge": True, "survival": False,
         "times": P("times.3", [0.0, 2.35])},
        {"id": "bd", "type": "BirthDeathModel", "tree_model": "tree", "lambda": P("lambda.b", [1.6]),
         "mu": P("mu.b", [0.5]), "psi": P("psi.b", [0.3]), "rho": P("rho.b", [0.4]), "origin": P("origin.b", [12.0])},
        {"id": "gmrf.tree", "type": "GMRF", "x": P("field.g", gen(n - 1, -0.8, 1.1)), "precision": P("prec.g", [1.7]),
         "tree_model": "tree"},
        {"id": "gmrf.tree.nr", "type": "GMRF", "x": "field.g", "precision": "prec.g", "tree_model": "tree",
         "rescale": False},
        {"id": "gmrf.int.tree", "type": "GMRFGammaIntegrated", "x": "field.g", "shape": 1.5, "rate": 0.8,
         "tree_model": "tree"},
    ]
    spec.append(joint("joint", ["coal.skygrid", "gmrf.tree", "tree", "bdsk.2"]))
    for pid in ("theta.c", "theta.e", "theta.sr", "theta.sg", "theta.soft", "theta.lin", "theta.pe", "R.1", "delta.1",
                "origin.1", "R.2", "delta.2", "origin.2", "R.3", "delta.3", "origin.3", "lambda.b", "mu.b", "psi.b",
                "origin.b", "prec.g"):
        kinds[pid] = "pos"
    for pid in ("s.1", "rho.1", "s.2", "rho.2", "s.3", "rho.3", "rho.b"):
        kinds[pid] = "unit"
    for pid in ("growth.e", "growth.pe", "field.g"):
        kinds[pid] = "real"
    kinds["times.3"] = "fixed"
    return spec, kinds, {}


def treelike_graph(n, ti, di, kind):
    """tree likelihoods with a strict and a per-branch (rescaled-rate) clock on one time tree, the
    priors that depend on branch lengths, and their joint"""
    labels, tree, kinds = time_tree(n, ti, di, kind)
    nb = 2 * n - 2
    spec = [
        tree, lb.alignment_spec(labels, SEQS[:n], "nucleotide"),
        {"id": "like.a", "type": "TreeLikelihoodModel", "tree_model": "tree",
         "site_model": lb.site_spec("weibull3_inv_mu", "site.a"),
         "substitution_model": {"id": "subst.a", "type": "HKY", "kappa": P("kappa.a", [2.7]),
                                "frequencies": P("freqs.a", lb.PI1)},
         "site_pattern": {"id": "sp.a", "type": "SitePattern", "alignment": "aln"},
         "branch_model": {"id": "clock.a", "type": "StrictClockModel", "tree_model": "tree",
                          "rate": P("clock.rate", [0.05])}},
        {"id": "ctmc", "type": "CTMCScale", "x": "clock.rate", "tree_model": "tree"},
        {"id": "like.b", "type": "TreeLikelihoodModel", "tree_model": "tree", "use_tip_states": True,
         "site_model": {"id": "site.b", "type": "ConstantSiteModel"},
         "substitution_model": {"id": "subst.b", "type": "JC69"},
         "site_pattern": {"id": "sp.b", "type": "SitePattern", "alignment": "aln"},
         "branch_model": {"id": "clock.b", "type": "SimpleClockModel", "tree_model": "tree",
                          "rate": tp("rates.b", "RescaledRateTransform", P("rates.b.unscaled", gen(nb, 0.5, 1.9)),
                                     tree_model="tree", rate="clock.rate")}},
        {"id": "horseshoe", "type": "ScaleMixtureNormal",
         "x": tp("rates.b.logdiff", "LogDifferenceRateTransform", "rates.b.unscaled", tree_model="tree"),
         "loc": 0.0, "global_scale": P("hs.global", [0.8]), "local_scale": P("hs.local", gen(nb, 0.6, 1.8, k=5)),
         "slab": P("hs.slab", [1.9])},
        {"id": "poisson", "type": "PoissonTreeLikelihood", "tree_model": "tree", "branch_model": "clock.a",
         "edge_lengths": [(3 * i + 1) % 4 for i in range(nb)], "length": 1},
        {"id": "coal", "type": "ConstantCoalescentModel", "theta": P("theta.c", [2.1]), "tree_model": "tree"},
    ]
    spec.append(joint("joint", ["like.a", "coal", "ctmc", "tree"]))
    spec.append(joint("joint.b", ["like.b", "horseshoe", "rates.b.logdiff"]))
    for pid in ("theta.c", "kappa.a", "site.a.shape", "site.a.mu", "clock.rate", "rates.b.unscaled",
                "hs.global", "hs.local", "hs.slab"):
        kinds[pid] = "pos"
    kinds["site.a.pinv"] = "unit"
    kinds["freqs.a"] = "simplex"
    return spec, kinds, {}


def unrooted_graph(n, ti):
    labels = labels_of(n)
    top = (labels[0], en.rooted_topologies(labels[1:])[ti])
    spec = [
        tb.unrooted_tree(top, labels, gen(2 * n - 3, 0.04, 0.33)),
        lb.alignment_spec(labels, SEQS[:n], "nucleotide"),
        {"id": "like.u", "type": "TreeLikelihoodModel", "tree_model": "tree", "use_ambiguities": True,
         "site_model": lb.site_spec("weibull4_inv", "site.u"),
         "substitution_model": {"id": "subst.u", "type": "GTR", "rates": P("rates.u", [0.7, 2.3, 0.4, 1.1, 3.7, 1.0]),
                                "frequencies": P("freqs.u", lb.PI2)},
         "site_pattern": {"id": "sp.u", "type": "SitePattern", "alignment": "aln"}},
        {"id": "like.us", "type": "TreeLikelihoodModel", "tree_model": "tree", "use_tip_states": True,
         "site_model": lb.site_spec("constant_mu", "site.us"),
         "substitution_model": {"id": "subst.us", "type": "HKY", "kappa": P("kappa.us", [0.4]),
                                "frequencies": P("freqs.us", lb.PI1)},
         "site_pattern": {"id": "sp.us", "type": "SitePattern", "alignment": "aln"}},
        {"id": "gammadir", "type": "CompoundGammaDirichletPrior", "tree_model": "tree", "alpha": P("alpha.g", [1.3]),
         "c": P("c.g", [0.7]), "shape": P("shape.g", [2.1]), "rate": P("rate.g", [1.7])},
    ]
    spec.append(joint("joint.u", ["like.u", "gammadir"]))
    kinds = {k: "pos" for k in ("tree.blens", "rates.u", "kappa.us", "alpha.g", "c.g", "shape.g", "rate.g",
                                "site.u.shape", "site.us.mu")}
    kinds.update({"freqs.u": "simplex", "freqs.us": "simplex", "site.u.pinv": "unit"})
    return spec, kinds, {}


SUBST = {
    "JC69": ("JC69", {}, False),
    "HKY": ("HKY", {"kappa": 2.7, "pi": lb.PI1}, False),
    "HKY@K80": ("HKY", {"kappa": 2.7, "pi": [0.25] * 4}, True),
    "HKY@JC": ("HKY", {"kappa": 1.0, "pi": [0.25] * 4}, True),
    "GTR": ("GTR", {"rates": [3.1, 0.2, 1.9, 0.6, 0.9, 2.2], "pi": lb.PI2}, False),
    "GTR@JC": ("GTR", {"rates": [1.0] * 6, "pi": [0.25] * 4}, True),
    "GeneralJC69": ("GeneralJC69", {}, False),
    "GeneralSymHKY": ("GeneralSymHKY", {"rates": [0.8, 3.3], "pi": lb.PI2}, False),
    "GeneralSymId": ("GeneralSymId", {"rates": [0.7, 2.3, 0.4, 1.1, 3.7, 1.0], "pi": lb.PI1}, False),
    "GeneralNonSym": ("GeneralNonSym", {"rates": [0.3 + 0.37 * i for i in range(12)], "pi": lb.PI1}, False),
    "LG": ("LG", {}, False),
    "WAG": ("WAG", {}, False),
    "MG94": ("MG94", {"alpha": 0.6, "beta": 0.15, "kappa": 2.2}, False),
    "MG94@equal": ("MG94", {"alpha": 1.0, "beta": 1.0, "kappa": 1.0, "equal": True}, True),
}


def subst_graph(model, site, tips):
    name, pt, symmetric = SUBST[model]
    labels = labels_of(4)
    top = ((labels[0], labels[1]), (labels[2], labels[3]))
    sspec, _ = lb.subst_spec(name, pt)
    kind = lb.DATATYPE.get(name, "nuc")
    seqs = {"nuc": SEQS[:4], "general": [s.replace("-", "A").replace("R", "G") for s in SEQS[:4]],
            "aa": AA_SEQS, "codon": CODON_SEQS}[kind]
    dt = lb.datatype_spec(kind)
    if pt.get("equal"):
        k = len(sspec["frequencies"]["tensor"])
        sspec["frequencies"]["tensor"] = [1.0 / k] * k
    spec = [tb.unrooted_tree(top, labels, [0.11, 0.25, 0.07, 0.31, 0.12])]
    if isinstance(dt, dict):
        spec.append(dt)
        dt = dt["id"]
    spec.append(lb.alignment_spec(labels, seqs, dt))
    spec.append(lb.likelihood_spec("tree", sspec, lb.site_spec(site), "aln", tips))
    kinds = {"tree.blens": "pos", "site.shape": "pos", "site.mu": "pos", "site.pinv": "unit", "subst.kappa": "pos",
             "subst.rates": "pos", "subst.alpha": "pos", "subst.beta": "pos", "subst.freqs": "simplex"}
    opts = {"points": [0]} if symmetric else {}
    return spec, kinds, opts


def subst_ids(tier):
    out = []
    if tier == "quick":
        for m in SUBST:
            out.append((m, "weibull3_inv_mu", "missing"))
        for s in lb.SITE:
            if s != "weibull3_inv_mu":
                out.append(("HKY", s, "missing"))
        out += [("HKY", "weibull4_inv", "states"), ("GTR", "invariant", "union"), ("MG94", "constant", "states"),
                ("GeneralNonSym", "weibull2", "states")]
    else:
        for m in SUBST:
            for s in lb.SITE:
                out.append((m, s, "missing"))
        for m in ("HKY", "GTR", "GeneralNonSym", "MG94", "LG"):
            for s in lb.SITE:
                for t in ("states", "union"):
                    if t == "union" and m in ("MG94", "LG"):
                        continue
                    out.append((m, s, t))
    return out


def underflow_graph(variant):
    """540-taxon caterpillar with long branches: the site likelihoods underflow, so the implementation
    switches rescaling on by itself (the third likelihood code path).  Only the parameters shared by
    all branches are differentiated (the 1077 branch lengths are held fixed)."""
    n = 540
    labels = labels_of(n)
    top = en.shapes("caterpillar", n, labels)
    seqs = ["A" + ("C" if i in (1, n // 2, n - 2) else "A") + "ACGT"[i % 4] for i in range(n)]
    tree = tb.unrooted_tree(top, labels, None)
    tree["branch_lengths"] = tp("tree.blens", TD + "ExpTransform",
                                P("tree.blens.log", [math.log(0.5) + 0.1 * ((3 * i) % 7) for i in range(2 * n - 3)]))
    subst = {"id": "subst", "type": "HKY", "kappa": P("subst.kappa", [2.7]), "frequencies": P("subst.freqs", lb.PI1)}
    site = lb.site_spec("weibull2" if variant == "states" else "constant_mu")
    spec = [tree, lb.alignment_spec(labels, seqs, "nucleotide"), lb.likelihood_spec("tree", subst, site, "aln", variant)]
    kinds = {"tree.blens.log": "fixed", "subst.kappa": "pos", "subst.freqs": "simplex", "site.shape": "pos",
             "site.mu": "pos", "site.pinv": "unit"}
    return spec, kinds, {"expect_self_rescale": True}


TRANSFORMS = {
    # name: (path, parameters, domain of x, codomain)
    "CumSumTransform": (TT + "CumSumTransform", None, "real", "real"),
    "CumSumExpTransform": (TT + "CumSumExpTransform", None, "real", "pos"),
    "SoftPlusTransform": (TT + "SoftPlusTransform", None, "real", "pos"),
    "CumSumSoftPlusTransform": (TT + "CumSumSoftPlusTransform", None, "real", "pos"),
    "LogTransform": (TT + "LogTransform", None, "pos", "real"),
    "ExpTransform": (TD + "ExpTransform", None, "real", "pos"),
    "SigmoidTransform": (TD + "SigmoidTransform", None, "real", "unit"),
    "AffineTransform": (TD + "AffineTransform", {"loc": P("loc", [1.5]), "scale": 2.5}, "real", "real"),
    "StickBreakingTransform": (TD + "StickBreakingTransform", None, "real", "simplex"),
    "ConvexCombinationTransform": (TT + "ConvexCombinationTransform", "weights", "pos", "pos"),
}


def transform_graph(name, d):
    path, params, dom, cod = TRANSFORMS[name]
    x = gen(d, -1.1, 1.3) if dom == "real" else gen(d, 0.3, 2.4)
    kinds = {"x": dom, "loc": "real"}
    kw = {}
    if params == "weights":
        w = gen(d, 1.0, 3.0, k=2)
        kw = {"weights": P("w", [v / sum(w) for v in w])}
        kinds["w"] = "simplex"
    elif params:
        kw = copy.deepcopy(params)
    t = tp("tp", path, P("x", x), **kw)
    if cod == "real":
        prior = dist("prior", TD + "Normal", "tp", loc=0.3, scale=P("prior.scale", [1.2]))
    elif cod == "pos":
        prior = dist("prior", TD + "Gamma", "tp", concentration=P("prior.shape", [2.0]), rate=1.5)
    elif cod == "unit":
        prior = dist("prior", TD + "Beta", "tp", concentration1=2.0, concentration0=P("prior.b", [3.0]))
    else:
        prior = dist("prior", TD + "Dirichlet", "tp", concentration=P("prior.conc", gen(d + 1, 0.8, 2.9)))
    kinds.update({"prior.scale": "pos", "prior.shape": "pos", "prior.b": "pos", "prior.conc": "pos"})
    return [t, joint("joint", [prior, "tp"])], kinds, {}


def gmrf_graph(variant, d):
    field = P("field", gen(d, -0.9, 1.4))
    prec = P("prec", [1.7])
    kinds = {"field": "real", "prec": "pos", "weights": "pos", "beta": "real"}
    if variant == "plain":
        spec = [{"id": "gmrf", "type": "GMRF", "x": field, "precision": prec}]
    elif variant == "weights":
        spec = [{"id": "gmrf", "type": "GMRF", "x": field, "precision": prec,
                 "weights": P("weights", gen(d - 1, 0.5, 2.2))}]
    elif variant == "integrated":
        spec = [{"id": "gmrf", "type": "GMRFGammaIntegrated", "x": field, "shape": 1.5, "rate": 0.8}]
    elif variant == "integrated_weights":
        spec = [{"id": "gmrf", "type": "GMRFGammaIntegrated", "x": field, "shape": 1.5, "rate": 0.8,
                 "weights": P("weights", gen(d - 1, 0.5, 2.2))}]
    elif variant == "covariate":
        cov = [[0.3 * ((2 * i + j) % 5) - 0.4 for j in range(2)] for i in range(d)]
        spec = [{"id": "gmrf", "type": "GMRFCovariate", "field": field, "precision": prec, "covariates": cov,
                 "beta": P("beta", [0.7, -0.4])}]
    elif variant == "exp_field":
        # the usual composition: log population sizes, prior on their exponentials' logs
        spec = [{"id": "gmrf", "type": "GMRF", "x": tp("field.log", TT + "LogTransform",
                                                          tp("theta", TD + "ExpTransform", field)),
                 "precision": tp("prec.t", TD + "ExpTransform", P("prec.unres", [0.4]))}]
        kinds["prec.unres"] = "real"
    else:
        raise ValueError(variant)
    return spec, kinds, {}


def misc_graph(variant):
    kinds = {}
    if variant == "scale_mixture":
        x = P("x", gen(4, -1.2, 1.5))
        spec = [
            {"id": "sm.plain", "type": "ScaleMixtureNormal", "x": x, "loc": 0.3, "global_scale": P("g", [0.8]),
             "local_scale": P("l", gen(4, 0.5, 1.9))},
            {"id": "sm.slab", "type": "ScaleMixtureNormal", "x": "x", "loc": P("loc", [0.2]), "global_scale": "g",
             "local_scale": "l", "slab": P("slab", [1.9])},
            joint("joint", ["sm.plain", "sm.slab"]),
        ]
        kinds = {"x": "real", "g": "pos", "l": "pos", "loc": "real", "slab": "pos"}
    elif variant == "bridge":
        x = P("x", gen(4, -1.2, 1.5))
        spec = [
            {"id": "bb.alpha", "type": "BayesianBridge", "x": x, "scale": P("scale", [0.8]), "alpha": P("alpha", [0.6])},
            {"id": "bb.local", "type": "BayesianBridge", "x": "x", "scale": "scale", "local_scale": P("l", gen(4, 0.5, 1.9)),
             "slab": P("slab", [1.9])},
            {"id": "bb.number", "type": "BayesianBridge", "x": "x", "scale": 0.7, "alpha": 0.4},
        ]
        kinds = {"x": "real", "scale": "pos", "alpha": "pos", "l": "pos", "slab": "pos"}
    elif variant == "mvn":
        x = P("x", gen(3, -1.2, 1.5))
        cov = [[1.3, 0.2, -0.1], [0.2, 0.9, 0.3], [-0.1, 0.3, 1.7]]
        spec = [
            {"id": "mvn.cov", "type": "MultivariateNormal", "x": x,
             "parameters": {"loc": P("loc", gen(3, -0.3, 0.4)), "covariance_matrix": P("cov", cov)}},
            {"id": "mvn.prec", "type": "MultivariateNormal", "x": "x",
             "parameters": {"loc": "loc", "precision_matrix": P("precm", cov)}},
            {"id": "mvn.tril", "type": "MultivariateNormal", "x": "x",
             "parameters": {"loc": "loc", "scale_tril": tp("tril", TT + "TrilExpDiagonalTransform",
                                                           P("tril.unres", gen(6, -0.5, 0.7)))}},
        ]
        kinds = {"x": "real", "loc": "real", "cov": "fixed", "precm": "fixed", "tril.unres": "real"}
    elif variant == "dists":
        spec = [
            dist("ln.scale", "torchtree.distributions.log_normal.LogNormal", P("y", gen(3, 0.4, 2.6)),
                 mean=P("ln.mean", [1.4]), scale=P("ln.scale.p", [0.7])),
            dist("ln.stdev", "torchtree.distributions.log_normal.LogNormal", "y", mean="ln.mean",
                 stdev=P("ln.stdev.p", [0.9])),
            dist("n.prec", "torchtree.distributions.normal.Normal", P("z", gen(3, -1.0, 1.2)), loc=P("n.loc", [0.2]),
                 precision=P("n.precision", [2.3])),
            dist("ig", "torchtree.distributions.inverse_gamma.InverseGamma", "y", concentration=P("ig.c", [2.5]),
                 rate=P("ig.r", [1.1])),
            dist("oneonx", "OneOnX", "y"),
            dist("view", TD + "Gamma", {"id": "y.view", "type": "ViewParameter", "parameter": "y", "indices": "1:"},
                 concentration=2.0, rate=P("view.rate", [1.5])),
            dist("cat", TD + "Normal", {"id": "yz", "type": "CatParameter", "parameters": ["y", "z"], "dim": -1},
                 loc=0.1, scale=P("cat.scale", [1.3])),
            dist("dir", TD + "Dirichlet",
                 tp("simplex", TD + "StickBreakingTransform", P("simplex.unres", gen(3, -0.7, 0.9))),
                 concentration=P("dir.conc", gen(4, 0.8, 2.9))),
        ]
        spec.append(joint("joint", ["ln.scale", "ln.stdev", "n.prec", "ig", "oneonx", "view", "cat", "dir", "simplex"]))
        kinds = {k: "pos" for k in ("y", "ln.mean", "ln.scale.p", "ln.stdev.p", "n.precision", "ig.c", "ig.r",
                                    "view.rate", "cat.scale", "dir.conc")}
        kinds.update({"z": "real", "n.loc": "real", "simplex.unres": "real"})
    else:
        raise ValueError(variant)
    return spec, kinds, {}


def graph(gid, seed=0):
    """gid -> (spec, kinds, opts).  kinds: parameter id -> real | pos | unit | simplex | fixed (how a
    displaced point is derived and how the finite-difference step is scaled; inferred from the
    id / value when absent); opts: points (default 0, 1, 2)"""
    fam, _, rest = gid.partition(":")
    a = rest.split(":")
    if fam == "fixture":
        return gs.load_fixture(rest), {}, {"fixture": True}
    if fam in ("tree", "treelike"):
        f = tree_graph if fam == "tree" else treelike_graph
        spec, kinds, opts = f(int(a[0]), int(a[1]), int(a[2]), a[3])
        if len(a) > 4 and a[4] == "nn":
            opts = dict(opts, neutral=False)  # the neutral points of these densities are taken on smaller trees
        if len(a) > 4 and a[4] == "tp":
            # the larger trees: only the node-height parameters are differentiated (what depends on the
            # topology is how a density depends on them), no neutral points
            opts = dict(opts, neutral=False, elements="tree.")
        return spec, kinds, opts
    if fam == "unrooted":
        return unrooted_graph(int(a[0]), int(a[1]))
    if fam == "subst":
        return subst_graph(a[0], a[1], a[2])
    if fam == "underflow":
        return underflow_graph(a[0])
    if fam == "transform":
        return transform_graph(a[0], int(a[1]))
    if fam == "gmrf":
        return gmrf_graph(a[0], int(a[1]))
    if fam == "misc":
        return misc_graph(a[0])
    raise ValueError(gid)


def graph_ids(tier):
    thorough = tier == "thorough"
    out = ["fixture:" + n for n in gs.fixtures()]
    for n in ((3, 4, 5) if thorough else (3, 4)):
        ntop = en.n_rooted(n)
        assert len(en.rooted_topologies(labels_of(n))) == ntop
        for ti in range(ntop):
            for kind in ("ratio", "shift"):
                for di in ((0, 1) if (thorough and n < 5) or n == 3 else ((ti + (kind == "shift")) % 2,)):
                    nn = ":tp" if n >= 5 else ":nn" if n >= 4 else ""
                    out.append(f"tree:{n}:{ti}:{di}:{kind}{nn}")
                    out.append(f"treelike:{n}:{ti}:{di}:{kind}{nn}")
    for n in ((4, 5) if thorough else (4,)):
        for ti in range(en.n_rooted(n - 1)):
            out.append(f"unrooted:{n}:{ti}")
    out += ["subst:%s:%s:%s" % t for t in subst_ids(tier)]
    out += ["underflow:missing", "underflow:states"]
    for name in TRANSFORMS:
        for d in ((1, 2, 3, 4, 5, 6) if thorough else (1, 2, 3, 4)):
            if name == "ConvexCombinationTransform" and d == 1:
                continue
            out.append(f"transform:{name}:{d}")
    for v in ("plain", "weights", "integrated", "integrated_weights", "covariate", "exp_field"):
        for d in ((3, 4, 5, 6) if thorough else (3, 4)):
            out.append(f"gmrf:{v}:{d}")
    out += ["misc:scale_mixture", "misc:bridge", "misc:mvn", "misc:dists"]
    assert len(out) == len(set(out))
    return out


# ================================================================================================
# work units
# ================================================================================================

_CACHE = {}


def neutral_value(x, kind):
    """the 'natural default' of a parameter: 1 for a positive quantity, 1/2 for a probability, the
    uniform point of a simplex, 0 for an unconstrained one"""
    import torch

    if kind == "pos":
        return torch.ones_like(x)
    if kind == "unit":
        return torch.full_like(x, 0.5)
    if kind == "simplex":
        return torch.full_like(x, 1.0 / x.shape[-1])
    if kind == "real":
        return torch.zeros_like(x)
    return None


def prepared(gid, seed, j):
    """(spec, kinds, opts, base values of point j, event gap) - cached per process.  j = 0, 1, 2 or
    'n:<parameter>' = point 0 with that parameter at its neutral value (values None when that
    point cannot be built or puts two event times on top of each other)"""
    key = (gid, seed)
    if key not in _CACHE:
        _CACHE.clear()
        spec, kinds, opts = graph(gid, seed)
        _CACHE[key] = {"g": (spec, kinds, opts), "pts": {}}
    c = _CACHE[key]
    spec, kinds, opts = c["g"]
    if j not in c["pts"]:
        if isinstance(j, str):
            _, _, _, v0, _ = prepared(gid, seed, 0)
            pid = j[2:]
            vals = {k: t.clone() for k, t in v0.items()}
            vals[pid] = neutral_value(v0[pid], kind_of(pid, v0[pid], kinds))
            try:
                g = event_gap(tt.load(spec_with(spec, vals)))
            except Exception:
                g = -1.0
            c["pts"][j] = (vals, g) if g >= MIN_GAP else (None, g)
        else:
            c["pts"][j] = point(spec, kinds, j, seed, fixture=bool(opts.get("fixture")))
    vals, gap = c["pts"][j]
    return spec, kinds, opts, vals, gap


def members(dic, name):
    """ids of the densities nested (recursively) in a joint density"""
    o = dic[name]
    out = []
    if type(o).__name__ == "JointDistributionModel":
        for d in o._distributions.callables():
            if d.id is not None and d.id in dic:
                out.append(d.id)
                out += members(dic, d.id)
    return out


def degenerate_spectrum(like):
    """label only: does the symmetrised rate matrix of an eigh-based model have a repeated
    eigenvalue at this point"""
    import torch

    sm = like.subst_model
    from torchtree.evolution.substitution_model.abstract import (NonSymmetricSubstitutionModel,
                                                                  SymmetricSubstitutionModel)

    if not isinstance(sm, SymmetricSubstitutionModel) or isinstance(sm, NonSymmetricSubstitutionModel):
        return False
    try:
        with torch.no_grad():
            q = sm.q().detach().double().reshape(sm.q().shape[-2:]).numpy()
            pi = sm.frequencies.detach().double().reshape(-1).numpy()
        q = q / -(np.diag(q) * pi).sum()
        s = np.sqrt(pi)[:, None] * q / np.sqrt(pi)[None, :]
        ev = np.sort(np.linalg.eigvalsh((s + s.T) / 2))
        return bool(np.min(np.diff(ev)) < 1e-9)
    except Exception:  # only a label of the signature
        return False


def plan(gid, seed):
    """phase-1 work units of one graph"""
    import torch

    spec, kinds, opts, v0, _ = prepared(gid, seed, 0)
    dic = tt.load(spec)
    base = [p for p in gs.base_parameters(dic) if kinds.get(p) != "fixed"]
    elems = [(p, i) for p in base for i in range(dic[p].tensor.numel())
             if p.startswith(opts.get("elements", ""))]
    rescales = (False, True) if has_likelihood(dic) else (False,)
    units = []
    for j in opts.get("points", (0, 1, 2)):
        for rs in rescales:
            units.append({"kind": "ad", "graph": gid, "point": j, "rescale": rs, "seed": seed})
        for k in range(0, len(elems), CHUNK):
            units.append({"kind": "fd", "graph": gid, "point": j, "rescale": False, "seed": seed,
                          "elems": elems[k:k + CHUNK]})
    if 0 in opts.get("points", (0, 1, 2)) and opts.get("neutral", True):
        # neutral points: one parameter at a time at its natural default; only that parameter's elements
        for p in base:
            nv = neutral_value(v0[p], kind_of(p, v0[p], kinds))
            if nv is None or torch.equal(nv, v0[p]):
                continue
            j = "n:" + p
            own = [(q, i) for q, i in elems if q == p]
            for rs in rescales:
                units.append({"kind": "ad", "graph": gid, "point": j, "rescale": rs, "seed": seed, "focus": p})
            for k in range(0, len(own), CHUNK):
                units.append({"kind": "fd", "graph": gid, "point": j, "rescale": False, "seed": seed,
                              "elems": own[k:k + CHUNK]})
    return units


def ad_unit(u):
    gid, j, rs, seed = u["graph"], u["point"], u["rescale"], u["seed"]
    spec, kinds, opts, vals, gap = prepared(gid, seed, j)
    if vals is None:
        return {"kind": "ad", "key": (gid, j, rs), "no_point": True, "builds": 1}
    dic = tt.load(spec_with(spec, vals))
    names = density_names(dic)
    force(dic, rs)
    base = {}
    for n in names:
        try:
            base[n] = float(dic[n]().sum())
        except Exception as e:
            base[n] = ("raises", f"{type(e).__name__}: {str(e)[:160]}")
    likes = [n for n in names if type(dic[n]).__name__ == "TreeLikelihoodModel"]
    self_rescaled = [n for n in likes if not rs and dic[n].rescale]
    info = {}
    for n in names:
        mem = members(dic, n)
        inner = [m for m in [n] + mem if m in likes]
        info[n] = {"class": density_class(dic[n]), "members": mem,
                   "has_like": bool(inner),
                   "degenerate": any(degenerate_spectrum(dic[m]) for m in inner),
                   "subst": "+".join(sorted({type(dic[m].subst_model).__name__ for m in inner}))}
    skipped = [n for n in names if isinstance(base[n], tuple) or not math.isfinite(base[n])]
    allp = [p for p in gs.base_parameters(dic) if kinds.get(p) != "fixed"]
    ad = {}
    focus = None
    if u.get("focus"):
        # a neutral point: only the densities that depend on the parameter in focus
        fp = u["focus"]
        live = [n for n in names if n not in skipped]
        rel = kind_of(fp, vals[fp], kinds) in ("pos", "unit", "simplex")
        focus = set(dependents(spec, vals, rs, live, base, fp, rel))
    for n in names:
        if n in skipped or (rs and not info[n]["has_like"]) or (focus is not None and n not in focus):
            continue
        st, grads, text = ad_of(spec, vals, rs, n, allp)
        if st in ("value_raises", "backward_raises"):
            # which single parameter requiring grad triggers the failure
            per = {}
            for p in allp:
                per[p] = ad_of(spec, vals, rs, n, [p])
            ad[n] = {"mode": "per", "per": per, "text": text}
        else:
            ad[n] = {"mode": "all", "status": st, "grads": grads, "text": text}
            if st == "ok":
                ad[n]["hist"] = ad_history_of(spec, vals, rs, n, allp, grads)
    return {"kind": "ad", "key": (gid, j, rs), "base": base, "info": info, "skipped": skipped, "ad": ad,
            "gap": gap, "self_rescaled": self_rescaled, "builds": 1 + len(ad)}


def fd_unit(u):
    gid, j, rs, seed = u["graph"], u["point"], u["rescale"], u["seed"]
    spec, kinds, opts, vals, gap = prepared(gid, seed, j)
    if vals is None:
        return {"kind": "fd", "key": (gid, j, rs), "no_point": True, "fd": {}, "builds": 0}
    dic = tt.load(spec_with(spec, vals))
    names = u.get("names") or density_names(dic)
    base = values_of(spec, vals, rs, names)
    names = [n for n in names if not isinstance(base[n], tuple) and math.isfinite(base[n])]
    out = {}
    deps = {}
    builds = 2
    for p, i in u["elems"]:
        rel = kind_of(p, vals[p], kinds) in ("pos", "unit", "simplex")
        if p not in deps:
            deps[p] = dependents(spec, vals, rs, names, base, p, rel)
            builds += 1
        out[(p, i)] = fd_of(spec, vals, rs, deps[p], p, i, rel, allnames=names, base=base)
        builds += 4 if deps[p] else 0
    return {"kind": "fd", "key": (gid, j, rs), "fd": out, "builds": builds}


def _work(units):
    import contextlib
    import io

    tt.boot()
    out = []
    with contextlib.redirect_stdout(io.StringIO()):
        for u in units:
            out.append(ad_unit(u) if u["kind"] == "ad" else fd_unit(u))
    return out


def _plan(gids_seed):
    import contextlib
    import io

    tt.boot()
    out = []
    with contextlib.redirect_stdout(io.StringIO()):
        for gid, seed in gids_seed:
            out += plan(gid, seed)
    return out


def keyorder(item):
    (gid, j, rs), _ = item
    return (gid, str(j), rs)


def phase2(ads, fds, seed):
    """finite differences with rescaling forced on: only the densities that contain a tree
    likelihood, only the parameter elements on which one of them depends"""
    units = []
    for (gid, j, rs), a in sorted(ads.items(), key=keyorder):
        if not rs or a.get("no_point") or (gid, j, False) not in fds:
            continue
        names = [n for n in a["info"] if a["info"][n]["has_like"] and n not in a["skipped"]]
        elems = []
        for (p, i), byname in sorted(fds[(gid, j, False)].items()):
            if any(byname[n][0] != "ok" or byname[n][1] != 0.0 for n in names if n in byname):
                elems.append((p, i))
        for k in range(0, len(elems), CHUNK):
            units.append({"kind": "fd", "graph": gid, "point": j, "rescale": True, "seed": seed,
                          "elems": elems[k:k + CHUNK], "names": names})
    return units


def judge_all(ads, fds, seed):
    """compare every (graph, point, rescale, density, element); returns violations and totals"""
    viol = []
    tot = {"evals": 0, "nontrivial": 0, "unavailable": 0, "maxerr": 0.0, "unreliable": [], "skipped": {},
           "mingap": math.inf, "self_rescaled": 0, "builds": 0, "per_family": {}, "densities": {}, "worst": []}
    carry = {}  # failures without rescaling, for the root-cause label of the rescaled evaluations
    for key in sorted(fds, key=lambda k: keyorder((k, None))):
        gid, j, rs = key
        a = ads[key]
        if a.get("no_point"):
            continue
        fam = gid.split(":")[0]
        tot["mingap"] = min(tot["mingap"], a["gap"])
        tot["self_rescaled"] += len(a["self_rescaled"])
        if not rs:
            for n in a["info"]:
                cl = a["info"][n]["class"]
                rec = tot["skipped"].setdefault(cl, {"points": 0, "not_evaluable": 0, "example": None})
                rec["points"] += 1
                if n in a["skipped"]:
                    rec["not_evaluable"] += 1
                    rec["example"] = rec["example"] or f"{gid} point {j}: {str(a['base'][n])[:140]}"
        failing = dict(carry.get((gid, j), {})) if rs else {}
        local = []
        for (p, i), byname in sorted(fds[key].items()):
            for n, (st, fd, d1, d2) in sorted(byname.items()):
                if n not in a["ad"]:
                    continue
                if st == "unavailable":
                    tot["unavailable"] += 1
                    continue
                if st == "unreliable":
                    tot["unreliable"].append([gid, j, n, p, i, d1, d2])
                    continue
                ad = a["ad"][n]
                if ad["mode"] == "all":
                    ast, grads, text = ad["status"], ad["grads"], ad["text"]
                else:
                    ast, grads, text = ad["per"][p]
                tot["evals"] += 1
                cl = a["info"][n]["class"]
                tot["densities"][cl] = tot["densities"].get(cl, 0) + 1
                tot["per_family"][fam] = tot["per_family"].get(fam, 0) + 1
                if abs(fd) > MISSING:
                    tot["nontrivial"] += 1
                bad = None
                if ast in ("value_raises", "backward_raises"):
                    if abs(fd) > MISSING:
                        bad = (ast, text)
                else:
                    g = None
                    if ast == "ok":
                        gl = grads.get(p)
                        g = None if gl is None else gl[i]
                    bad = judge(fd, ast, g)
                    if bad is None and g is not None:
                        err = abs(g - fd) / max(1.0, abs(fd))
                        tot["maxerr"] = max(tot["maxerr"], err)
                        if err > 1e-8:
                            tot["worst"].append([err, gid, j, rs, n, p, i, g, fd])
                            tot["worst"] = sorted(tot["worst"], reverse=True)[:8]
                if bad:
                    failing[(p, i, n)] = bad[0]
                    local.append((n, p, i, bad))
        if not rs:
            carry[(gid, j)] = failing
        for n in sorted(a["ad"]):
            h = a["ad"][n].get("hist")
            if h and not any(n == n_ for n_, _, _, _ in local):
                info = a["info"][n]
                sig = {"check": "history", "density": info["class"], "root_cause": info["class"], "family": fam,
                       "rescale": rs, "point_kind": "neutral" if isinstance(j, str) else "generic"}
                if info["has_like"]:
                    sig["subst_model"] = info["subst"]
                    sig["degenerate_spectrum"] = info["degenerate"]
                viol.append({"case": {"graph": gid, "point": j, "rescale": rs, "seed": seed, "density": n,
                                      "history": True},
                             "detail": f"{gid} point {j} rescale={rs}: gradient of {n}().sum() ({info['class']}) "
                                       f"depends on the evaluation history: {h}", "sig": sig})
        for n, p, i, bad in local:
            info = a["info"][n]
            roots = sorted({a["info"][m]["class"] for m in info["members"]
                            if (p, i, m) in failing
                            and a["info"][m]["class"] != "JointDistributionModel"})
            root = "+".join(roots) if roots else info["class"]
            sig = {"check": bad[0], "density": info["class"], "root_cause": root, "family": fam, "rescale": rs,
                   "point_kind": "neutral" if isinstance(j, str) else "generic"}
            if info["has_like"]:
                sig["subst_model"] = info["subst"]
                sig["degenerate_spectrum"] = info["degenerate"]
            case = {"graph": gid, "point": j, "rescale": rs, "seed": seed, "density": n, "param": p, "index": i}
            detail = (f"{gid} point {j} rescale={rs}: d {n}().sum() / d {p}[{i}] ({info['class']}, value "
                      f"{a['base'][n]!r}): {bad[0]}: {bad[1]}")
            viol.append({"case": case, "detail": detail, "sig": sig})
    return viol, tot


def replay(case):
    import contextlib
    import io

    tt.boot()
    key = (case["graph"], case["point"], case["rescale"])
    u = {"graph": case["graph"], "point": case["point"], "rescale": case["rescale"], "seed": case["seed"]}
    if isinstance(case["point"], str):
        u["focus"] = case["point"][2:]
    with contextlib.redirect_stdout(io.StringIO()):
        a = ad_unit(dict(u, kind="ad"))
        f = fd_unit(dict(u, kind="fd", elems=[] if case.get("history") else [(case["param"], case["index"])]))
    viol, _ = judge_all({key: a}, {key: f["fd"]}, case["seed"])
    return [v for v in viol if v["case"]["density"] == case["density"]]


def run_units(units):
    # expensive first, dealt round-robin to many small batches
    units = sorted(units, key=lambda u: (-(len(u.get("elems", ())) or 3), u["graph"], str(u["point"])))
    nb = 96
    res = pmap(_work, [units[k::nb] for k in range(nb) if units[k::nb]])
    return [r for chunk in res for r in chunk]


def run(run):
    tt.boot()
    gids = graph_ids(run.tier)
    pairs = [(g, run.seed) for g in gids]
    units = [u for chunk in pmap(_plan, [pairs[k::32] for k in range(32) if pairs[k::32]]) for u in chunk]
    ads, fds = {}, {}
    builds = 0

    def absorb(results):
        nonlocal builds
        for r in results:
            builds += r["builds"]
            if r["kind"] == "ad":
                ads[r["key"]] = r
            elif not r.get("no_point"):
                fds.setdefault(r["key"], {}).update(r["fd"])

    absorb(run_units(units))
    units2 = phase2(ads, fds, run.seed)
    absorb(run_units(units2))
    viols, tot = judge_all(ads, fds, run.seed)
    for v in viols:
        run.violation(v["case"], v["detail"], v["sig"])
    expect = [g for g in gids if g.startswith("underflow:")]
    if expect and tot["self_rescaled"] == 0:
        raise RuntimeError("the underflow graphs did not make the likelihood switch rescaling on")
    neutral = [k for k in ads if isinstance(k[1], str) and not k[2]]
    nfam = {}
    for g in gids:
        nfam[g.split(":")[0]] = nfam.get(g.split(":")[0], 0) + 1
    cov = {
        "evaluations": tot["evals"],
        "distinct_nontrivial": tot["nontrivial"],
        "rule": "one evaluation = one (graph, point, rescale flag, density, parameter element): the autograd "
                "gradient read from parameter.grad is compared with a Richardson central difference built from 4 "
                "fresh graphs; all are distinct by construction; non-trivial = the numerical derivative exceeds "
                "1e-6 in magnitude (the density really depends on the element)",
        "samples": [units[0], units[len(units) // 2], units[-1]] + units2[:1],
        "exhaustive": True,
        "graphs": len(gids),
        "graphs_per_family": nfam,
        "evaluations_per_family": tot["per_family"],
        "evaluations_per_density_class": tot["densities"],
        "evaluation_points": len({(k[0], k[1]) for k in ads}),
        "neutral_points": len(neutral),
        "neutral_points_not_usable": sum(1 for k in neutral if ads[k].get("no_point")),
        "work_units": len(units) + len(units2),
        "fresh_graphs_built": builds,
        "fd_unavailable_pairs": tot["unavailable"],
        "fd_unreliable_pairs": len(tot["unreliable"]),
        "fd_unreliable_examples": tot["unreliable"][:6],
        "densities_not_evaluable_on_a_fresh_graph": {k: v for k, v in tot["skipped"].items() if v["not_evaluable"]},
        "likelihood_evaluations_that_switched_rescaling_on_by_themselves": tot["self_rescaled"],
        "max_observed_relative_discrepancy_on_passing_pairs": tot["maxerr"],
        "largest_discrepancies_on_passing_pairs": tot["worst"],
        "min_event_gap": tot["mingap"] if math.isfinite(tot["mingap"]) else None,
        "tolerance": TOL, "fd_steps_relative": [H1, H2], "missing_threshold": MISSING, "fd_guard": GUARD,
    }
    return run.finish(cov, assumptions=ASSUMPTIONS)


ASSUMPTIONS = [
    "float64; the numerical derivative is a Richardson combination of central differences with relative steps "
    "1e-3 and 5e-4 (relative to |x| for positive / simplex parameters, to max(1,|x|) otherwise); every function "
    "value comes from a graph freshly built from JSON, so the oracle shares no state with the graph that is "
    "differentiated",
    "tolerance |g_ad - g_fd| <= 1e-5 * max(1, |g_fd|) (DESIGN figure); the largest discrepancy observed on the "
    "unchanged code is recorded in coverage (about 1e-7: head-room 100x; it comes from the MG94 frequencies)",
    "a pair is judged only where the value is smooth: the two step sizes must agree to 1e-4 relative and the "
    "forward-minus-backward slopes of the two steps must be in the ratio of the steps (otherwise there is a kink or "
    "cusp at or next to the point); such pairs are counted in fd_unreliable_pairs; a pair whose perturbed value "
    "cannot be evaluated is counted in fd_unavailable_pairs",
    "evaluation points: the values in the specification plus two displaced generic points (offsets moved by "
    "VERIF_SEED); points are re-drawn until no two event times (node heights, sampling times, grid points, skyline "
    "change times) are closer than 0.05; an initial point that sits on such a tie is replaced by a third displaced "
    "point; ties between two sampling times are not used (all dates distinct in the hand-written graphs)",
    "neutral points: point 0 with ONE parameter at its natural default (all its elements: 1 / 0.5 / uniform / 0), "
    "only that parameter's elements and the densities that depend on it; a neutral point that cannot be built or "
    "creates a tie between event times is not used (neutral_points_not_usable); the neutral points of the tree "
    "graphs are taken on the 3-taxon topologies only (they are properties of parameter values, not of topologies)",
    "the symmetric interior points (equal frequencies, kappa = 1, equal exchangeabilities, equal population sizes) "
    "are part of the space: they are interior points of the domain and the CLI starts every run there",
    "densities that cannot be evaluated on a fresh graph (they raise or return a non-finite value) are skipped and "
    "listed with the number of evaluation points concerned (densities_not_evaluable_on_a_fresh_graph): BirthDeathModel, "
    "the piecewise-exponential coalescent and the transforms without a log-Jacobian never evaluate (findings of "
    "C07/C08/C09, not of this property); the exponential coalescent returns NaN at growth = 0 (its neutral point)",
    "parameters of a simplex are perturbed one coordinate at a time (the formula of the density is differentiated "
    "as written, like autograd does)",
    "unconstrained values of a CLI fixture beyond +-100 (a saturated transform, e.g. s = sigmoid(-708) = 2e-308) are "
    "numerically on the boundary of the domain and are replaced by generic values of magnitude about 1 (1, 1.37, ...)",
    "a parameter is taken to influence a density when moving all its elements by generic amounts changes the value "
    "(one fresh graph); for the other (density, parameter) pairs the derivative is 0 without further evaluations and "
    "the autograd gradient must be absent or 0",
    "stochastic variational objectives (ELBO, ...) and neural modules are not densities in the sense of the property",
    "on the n = 5 topologies (thorough) only the node-height parameters are differentiated (all densities); the "
    "other parameters of the same densities are differentiated on every 3- and 4-taxon topology",
]
