"""C20 - smoothing / integrated priors and sufficient statistics match their densities.

Four parts, each a complete enumeration of a declared finite space:

 gmrf  GMRF() against the Gaussian quadratic form built from the matrix returned by
       precision_matrix() of the same object: field length N x field lattice x precision x
       {plain, weighted (JSON parameter / tensor given to the constructor), time-aware (every
       interleaving x 2 tree shapes x sampling ties x rescale omitted/true/false)} x {single,
       field+precision batched, field batched, tree batched (second row: other heights on the
       same tree, internal nodes in a different rank order whenever the tree allows it)}.
 gint  GMRFGammaIntegrated() against log of the integral over the precision of
       Gamma(precision; shape, rate) x [the shipped GMRF density of the same variant],
       same variants, (shape, rate) in {0.001, 0.5, 2}^2, single, field-batched, tree-batched.
 cint  ConstantCoalescentIntegrated against log of the integral over the population size of
       InvGamma(theta; alpha, beta) x [the shipped ConstantCoalescent density], every
       interleaving x sampling ties x (alpha, beta) menu x {distribution on ordered / shuffled
       heights, model over a tree (2 shapes), batched distribution / batched tree with EVERY
       interleaving of the same tips as second row}.
 ss    -sum ss_i/theta_i - sum c_i log(theta_i) == log_prob and sum c_i == n-1 for the skyride
       (PiecewiseConstantCoalescent) and the skygrid (PiecewiseConstantCoalescentGrid) on
       every interleaving x sampling ties x every placement of G grid points in the gaps
       between events / beyond the root (+ regular grids from a cut-off) x 2 theta vectors x
       {distribution on ordered / shuffled heights, model over a tree, model from
       times/events, batched theta / heights / both / tree - the height-batched ones with
       every interleaving of the same tips as second row, so that the sorted event lists of
       the rows differ}.

The gamma / inverse-gamma densities are the ones written in the two docstrings, computed
with math.lgamma; the integrals are log-domain trapezoid sums over log(scale) with step h and
h/2 that must agree (otherwise the harness fails), cross-checked with mpmath on every run.
"""
import itertools
import math

import numpy as np

from mc.builders import genealogy as gen
from mc.builders import trees as tb
from mc.env import tt
from mc.explore import enumerate as en
from mc.oracle import gmrf as ref
from mc.runner import chunked, jdump, pmap

LEVEL = "exploration"

# tolerances (see `assumptions` in the evidence)
TOL_Q = 1e-9      # GMRF() vs quadratic form, relative to max(1, |value|)
TOL_INT = 1e-8    # integrated priors vs quadrature (figure of the design / statement)
TOL_SS = 1e-12    # sufficient statistics identity, relative to the sum of |terms|
TOL_ROW = 1e-12   # batched evaluation of a shipped density used by the quadrature vs single

LATTICE = (-1.0, 0.5, 2.0)
PRECISIONS = (0.1, 1.0, 10.0)
SHAPE_RATE = tuple(itertools.product((0.001, 0.5, 2.0), repeat=2))
ALPHA_BETA = tuple(itertools.product((0.001, 0.5, 2.0, 3.0), (0.003, 0.5, 2.0)))

# quadrature grids over u = log(scale parameter)
H_THETA = 0.125
U_THETA = ref.grid(-60.0, 130.0, H_THETA)   # population size: right tail like exp(-(alpha+n-1) u)
_TAU_GRIDS = {}


def tau_grid(N):
    """Abscissae u = log(precision) for a field of length N.  The integrand behaves like
    exp(a u - b exp(u)) with a = shape + (N-1)/2 in [0.001 + (N-1)/2, 2 + (N-1)/2]: its width
    in u is ~ 1/sqrt(a) (the step follows it) and its left tail decays like exp(a u) (the
    range follows it).  Both choices are verified a posteriori by log_integral()."""
    if N not in _TAU_GRIDS:
        a_min = 0.001 + (N - 1) / 2.0
        a_max = 2.0 + (N - 1) / 2.0
        h = 0.25 / math.ceil(0.25 / (0.5 / math.sqrt(a_max)))
        lo = -12.0 - 90.0 / a_min
        lo = -math.ceil(-lo / h) * h
        _TAU_GRIDS[N] = (ref.grid(lo, 50.0, h), h)
    return _TAU_GRIDS[N]


def P(id_, v):
    return {"id": id_, "type": "Parameter", "tensor": v}


def _np(t):
    return t.detach().numpy().astype(float)


def _err(e):
    return f"{type(e).__name__}: {str(e)[:160]}"


_ERR = {}


def close(a, b, tol, scale=None, part=None):
    """|a - b| <= tol * max(1, |b| or scale); the largest error among the comparisons
    that pass is remembered per part (reported in the evidence: calibration of tolerances)"""
    s = max(1.0, abs(b)) if scale is None else max(1.0, scale)
    ok = math.isfinite(a) and abs(a - b) <= tol * s
    if ok and part is not None:
        _ERR[part] = max(_ERR.get(part, 0.0), abs(a - b) / s)
    return ok


# ---------------------------------------------------------------------------------------
# enumeration of the discrete space
# ---------------------------------------------------------------------------------------

def bounds(tier):
    if tier == "quick":
        return {"Ns": [2, 3, 4, 5, 6, 7, 8], "lattice_max": 5, "gint_lattice_max": 3,
                "time_n": [3, 4, 5], "coal_n": [2, 3, 4, 5, 6], "ss_n": [2, 3, 4, 5], "G": [1, 2, 3],
                "G_big": {}, "pair_G": {2: 3, 3: 3, 4: 3, 5: 1}}
    return {"Ns": [2, 3, 4, 5, 6, 7, 8, 10, 15, 20, 30, 40, 50], "lattice_max": 7,
            "gint_lattice_max": 4, "time_n": [3, 4, 5, 6], "coal_n": [2, 3, 4, 5, 6, 7],
            "ss_n": [2, 3, 4, 5, 6], "G": [1, 2, 3], "G_big": {7: [1, 2]},
            "pair_G": {2: 3, 3: 3, 4: 3, 5: 3, 6: 1, 7: 0}}


def fields_for(N, lattice_max, seed):
    if N <= lattice_max:
        return [list(p) for p in itertools.product(LATTICE, repeat=N)]
    return [gen.generic(N, seed, -2.0, 3.0, salt=10 + k) for k in range(5)]


def tie_modes(inter):
    return ["none", "samp"] if gen.has_sampling_run(inter) else ["none"]


def time_variants(ns):
    out = []
    for n in ns:
        inters = en.interleavings(n)
        assert len(inters) == math.comb(2 * (n - 1), n - 1) // n, "interleaving count"
        for inter in inters:
            for rule in ("front", "last"):
                for ties in tie_modes(inter):
                    for rescale in (None, True, False):
                        out.append({"kind": "time", "inter": inter, "rule": rule, "ties": ties,
                                    "rescale": rescale})
    return out


def variants_for(N, b, seed):
    """GMRF variants available for a field of length N"""
    out = [{"kind": "plain"}]
    # weights as a JSON Parameter, and as a plain tensor handed to the constructor
    out.append({"kind": "weighted", "weights": gen.generic(N - 1, seed, 0.2, 3.0, salt=20)})
    out.append({"kind": "weighted", "weights": gen.generic(N - 1, seed, 0.2, 3.0, salt=21), "ctor": True})
    if N + 1 in b["time_n"]:
        out += time_variants([N + 1])
    return out


def gmrf_items(tier, seed):
    b = bounds(tier)
    items = []
    for N in b["Ns"]:
        for var in variants_for(N, b, seed):
            modes = ["none", "both", "field"] + (["tree"] if var["kind"] == "time" else [])
            for mode in modes:
                items.append(("gmrf", {"N": N, "var": var, "batch": mode, "seed": seed,
                                       "lattice_max": b["lattice_max"]}))
    return items


def gint_items(tier, seed):
    b = bounds(tier)
    items = []
    for N in b["Ns"]:
        for var in variants_for(N, b, seed):
            items.append(("gint", {"N": N, "var": var, "seed": seed,
                                   "lattice_max": b["gint_lattice_max"]}))
    return items


def coal_configs(ns):
    out = []
    for n in ns:
        for inter in en.interleavings(n):
            for ties in tie_modes(inter):
                out.append({"n": n, "inter": inter, "ties": ties})
    return out


def cint_items(tier, seed):
    return [("cint", dict(c, seed=seed)) for c in coal_configs(bounds(tier)["coal_n"])]


def ss_items(tier, seed):
    b = bounds(tier)
    items = []
    ns = list(b["ss_n"]) + sorted(b["G_big"])
    for c in coal_configs(ns):
        Gs = b["G_big"].get(c["n"], b["G"])
        c = dict(c, seed=seed, pair_G=b["pair_G"][c["n"]])
        items.append(("ss", dict(c, model="skyride")))
        items.append(("ss", dict(c, model="skygrid_cutoff")))
        items.append(("ss", dict(c, model="skygrid_onevent", G=1)))
        for G in Gs:
            items.append(("ss", dict(c, model="skygrid", G=G)))
    return items


# ---------------------------------------------------------------------------------------
# building blocks
# ---------------------------------------------------------------------------------------

class Genealogy:
    """times, tree and node-height vectors of one (interleaving A, ties, seed).

    Second batch rows are *different* genealogies over the same sampling times:
      * `realise(B)`  - coalescent times that realise another interleaving B of the same tips
        (the sorted event list then differs between the batch rows),
      * `alt_bottom_up(rule)` - heights drawn bottom-up on the tree itself, so that the rank
        order of the internal nodes differs from row 0 whenever the tree allows it."""

    def __init__(self, inter, ties, seed):
        self.inter = inter
        self.ties = ties
        self.seed = seed
        self.n = inter.count("s")
        self.times = gen.event_times(inter, seed, ties)
        self.s, self.c = gen.sampling_and_coalescent_times(inter, self.times)
        self._top = {}

    # -- rows --------------------------------------------------------------------------
    def heights(self, c=None, shuffled=False):
        """node-height vector [sampling..., coalescent...]; shuffled: both blocks reversed
        (the distributions must not depend on the order inside a block)"""
        s = list(self.s)
        c = list(self.c if c is None else c)
        if shuffled:
            s, c = s[::-1], c[::-1]
        return s + c

    def realise(self, inter_b, avoid=()):
        """sorted coalescent times realising interleaving `inter_b` on THIS genealogy's
        sampling times, or None when tied sampling times make it impossible"""
        if inter_b.count("s") != self.n:
            raise ValueError("interleavings of different size")
        groups = [0] * self.n  # coalescences after the k-th sampling (before the next one)
        k = -1
        for e in inter_b:
            if e == "s":
                k += 1
            else:
                groups[k] += 1
        fr = gen.generic(self.n - 1, self.seed, 0.0, 1.0, salt=5)
        taken = set(avoid) | set(self.s)
        out = []
        for k, m in enumerate(groups):
            if m == 0:
                continue
            lo = self.s[k]
            hi = self.s[k + 1] if k + 1 < self.n else None
            if hi is not None and not hi > lo:
                return None
            t = lo
            for j in range(m):
                f = fr[len(out)]
                t = round(lo + (hi - lo) * (j + f) / m, 6) if hi is not None else round(t + 0.2 + 1.1 * f, 6)
                while t in taken:
                    t = round(t + 1e-4, 6)
                if hi is not None and not t < hi:
                    raise RuntimeError("harness: could not place a coalescent time")
                taken.add(t)
                out.append(t)
        if out != sorted(out) or len(out) != self.n - 1:
            raise RuntimeError("harness: realise() produced unordered times")
        # self-check: the merged event list spells inter_b
        ev = sorted([(t, 0, "s") for t in self.s] + [(t, 1, "c") for t in out])
        if "".join(e for _, _, e in ev) != inter_b:
            raise RuntimeError("harness: realise() does not realise the interleaving")
        return out

    # -- tree --------------------------------------------------------------------------
    def topology(self, rule):
        if rule not in self._top:
            self._top[rule] = gen.tree_of(self.inter, rule)
        return self._top[rule]

    def by_order(self, rule, c):
        """clade -> height: the k-th coalescent time (sorted) goes to the node created by the
        k-th coalescence of A.  With rule 'front' (caterpillar over the sampling order) this is
        a valid tree for every interleaving over the same sampling times."""
        _, _, order = self.topology(rule)
        return dict(zip(order, c))

    def alt_bottom_up(self, rule):
        """clade -> height, drawn bottom-up (parent = max(children) + generic increment); among
        a few generic draws the first whose rank order of internal nodes differs from row 0"""
        top, labels, order = self.topology(rule)
        tip = dict(zip(labels, self.s))
        post = en.clades(top)
        base = self.by_order(rule, self.c)
        rank0 = sorted(post, key=lambda c: base[c])
        last = None
        for salt in range(40, 52):
            inc = iter(gen.generic(self.n - 1, self.seed, 0.15, 1.6, salt))
            hs = {}

            def rec(x):
                if not isinstance(x, tuple):
                    return tip[x]
                h = round(max(rec(x[0]), rec(x[1])) + next(inc), 6)
                hs[frozenset(en.leaves(x))] = h
                return h

            rec(top)
            if len(set(hs.values())) != len(hs):
                continue
            last = hs
            if sorted(post, key=lambda c: hs[c]) != rank0:
                return hs
        if last is None:
            raise RuntimeError("harness: no tie-free alternative heights")
        return last

    def tree_spec(self, rule, rows):
        """TimeTreeModel JSON; `rows`: list of {clade: height} (one -> unbatched); internal
        heights follow the post-order of the Newick string"""
        top, labels, _ = self.topology(rule)
        post = en.clades(top)
        vals = [[r[x] for x in post] for r in rows]
        return tb.time_tree(top, labels, list(self.s), vals if len(vals) > 1 else vals[0]), labels

    def load_tree(self, rule, rows=None):
        """loads the tree and verifies (harness self-check) that the loaded node heights are
        the wanted ones, node by node"""
        rows = rows if rows is not None else [self.by_order(rule, self.c)]
        spec, labels = self.tree_spec(rule, rows)
        dic = tt.load(spec)
        model = dic["tree"]
        nh = _np(model.node_heights).reshape(-1, 2 * self.n - 1)
        cl = tb.index_clades(model, labels)
        if nh.shape[0] != len(rows):
            raise RuntimeError("harness: batch size of the loaded tree")
        for r, want in zip(nh, rows):
            for i in range(self.n):
                if r[i] != self.s[i]:
                    raise RuntimeError(f"harness: tip {i} loaded at {r[i]}, wanted {self.s[i]}")
            for i in range(self.n, 2 * self.n - 1):
                if r[i] != want[cl[i]]:
                    raise RuntimeError(f"harness: node {i} loaded at {r[i]}, wanted {want[cl[i]]}")
        top, _, _ = self.topology(rule)
        tipc = {frozenset([lab]): t for lab, t in zip(labels, self.s)}
        for want in rows:
            for child, parent in en.parent_map(top).items():
                if not want[parent] > (want[child] if child in want else tipc[child]):
                    raise RuntimeError("harness: built an invalid tree (parent not above child)")
        return dic


def var_tag(var):
    if var["kind"] != "time":
        return var["kind"]
    return "time"


def gmrf_spec(var, field, precision=None, integrated=None, id_="gmrf"):
    """JSON of a GMRF (precision given) or a GMRFGammaIntegrated (integrated=(shape, rate))"""
    spec = {"id": id_, "x": P(id_ + ".field", field)}
    if integrated is None:
        spec["type"] = "GMRF"
        spec["precision"] = P(id_ + ".precision", precision)
    else:
        spec["type"] = "GMRFGammaIntegrated"
        spec["shape"], spec["rate"] = integrated
    if var["kind"] == "weighted":
        spec["weights"] = P(id_ + ".weights", var["weights"])
    elif var["kind"] == "time":
        spec["tree_model"] = "tree"
        if var["rescale"] is not None:
            spec["rescale"] = var["rescale"]
    return spec


def make_model(base, var, field, precision=None, integrated=None):
    """the GMRF / GMRFGammaIntegrated of a variant: from JSON, or (variant flag 'ctor')
    through the class constructor with the weights as a plain tensor"""
    if not var.get("ctor"):
        return load_in(base, gmrf_spec(var, field, precision, integrated))
    import torch
    from torchtree import Parameter
    from torchtree.distributions.gmrf import GMRF
    from torchtree.distributions.gmrf_integrated import GMRFGammaIntegrated

    x = Parameter(None, torch.tensor(field))
    w = torch.tensor(var["weights"])
    if integrated is None:
        return GMRF(None, x, Parameter(None, torch.tensor(precision)), weights=w)
    return GMRFGammaIntegrated(None, x, integrated[0], integrated[1], weights=w)


def base_dic(var, seed, which="a"):
    """objects a variant needs besides the GMRF itself: the tree of a time-aware variant
    with row 'a' (the genealogy), 'b' (alternative heights on the same tree) or both"""
    if var["kind"] != "time":
        return {}
    g = Genealogy(var["inter"], var["ties"], seed)
    ra = g.by_order(var["rule"], g.c)
    rb = g.alt_bottom_up(var["rule"])
    return g.load_tree(var["rule"], {"a": [ra], "b": [rb], "ab": [ra, rb]}[which])


def load_in(base, spec):
    """process a freshly built JSON object (no comments, no plates: the deep copy /
    remove_comments / expand_plates passes of tt.load are skipped, they dominate the cost
    for the long precision vectors of the quadrature) into a copy of `base`"""
    from torchtree.core.utils import process_objects

    dic = dict(base)
    process_objects(spec, dic)
    return dic[spec["id"]]


# ---------------------------------------------------------------------------------------
# part gmrf
# ---------------------------------------------------------------------------------------

def gmrf_points(cfg):
    """(field, precision) points of one configuration, in enumeration order.  Unbatched:
    field is a vector, precision a float.  Batched: two consecutive lattice fields and,
    for 'both'/'tree', two different precisions."""
    fields = fields_for(cfg["N"], cfg["lattice_max"], cfg["seed"])
    L = len(fields)
    pts = []
    for i in range(L):
        for k, tau in enumerate(PRECISIONS):
            if cfg["batch"] == "none":
                pts.append((fields[i], tau))
            elif cfg["batch"] == "field":
                pts.append(([fields[i], fields[(i + 1) % L]], tau))
            else:
                pts.append(([fields[i], fields[(i + 1) % L]], [tau, PRECISIONS[(k + 1) % 3]]))
    return pts


def gmrf_sig(cfg, check):
    return {"part": "gmrf", "variant": var_tag(cfg["var"]), "check": check,
            "batched": cfg["batch"] != "none"}


def check_gmrf_point(cfg, field, precision, base=None):
    """returns list of (check name, detail)"""
    var, mode = cfg["var"], cfg["batch"]
    N = cfg["N"]
    if base is None:
        base = base_dic(var, cfg["seed"], "ab" if mode == "tree" else "a")
    batched = mode != "none"
    rows_x = field if batched else [field]
    B = len(rows_x)
    if mode in ("both", "tree"):
        ptensor = [[t] for t in precision]
        taus = list(precision)
    else:
        ptensor = [precision]
        taus = [precision] * B
    try:
        g = make_model(base, var, field, ptensor)
        lp = _np(g())
        Q = _np(g.precision_matrix())
    except Exception as e:
        if mode == "field":
            return []  # mixed shapes failing loudly is allowed
        return [("raises", f"GMRF()/precision_matrix() raised {_err(e)}")]
    if lp.size != B or Q.size != B * N * N:
        return [("shape", f"GMRF() has shape {lp.shape}, precision_matrix() {Q.shape} for "
                          f"{B} field(s) of length {N}")]
    lp = lp.reshape(B)
    Q = Q.reshape(B, N, N)
    bad = []
    for r in range(B):
        qf = ref.quadratic_form(Q[r], rows_x[r])
        want = 0.5 * (N - 1) * math.log(taus[r]) - 0.5 * qf - 0.5 * (N - 1) * ref.LOG_2PI
        if not close(float(lp[r]), want, TOL_Q, part="gmrf"):
            # what quadratic form does the density itself use?  (diagnostic only)
            used = -2.0 * (float(lp[r]) - 0.5 * (N - 1) * (math.log(taus[r]) - ref.LOG_2PI))
            bad.append(("density_vs_precision_matrix",
                        f"row {r}: GMRF() = {float(lp[r])!r} but (N-1)/2 log(tau) - x'Qx/2 - (N-1)/2 "
                        f"log(2pi) with the published Q = {want!r}  (x'Qx published {qf!r}, "
                        f"used by the density {used!r}; x={rows_x[r]}, tau={taus[r]}, "
                        f"Q diag={np.diag(Q[r]).tolist()}, off={np.diag(Q[r], 1).tolist()})"))
            break
    return bad


def check_gmrf_history(cfg):
    """evaluate the density, change what the scaling depends on (tree heights / weights)
    through the public parameter interface, then read the precision matrix BEFORE the
    density (the order the block-update operator uses): the published matrix must be the
    one of the current state"""
    import torch

    var, mode = cfg["var"], cfg["batch"]
    if mode != "none" or var.get("ctor") or var["kind"] not in ("time", "weighted"):
        return []
    N = cfg["N"]
    field = fields_for(N, cfg["lattice_max"], cfg["seed"])[-1]
    tau = PRECISIONS[0]
    try:
        base = base_dic(var, cfg["seed"], "a")
        g = make_model(base, var, field, [tau])
        g()
        g.precision_matrix()
        if var["kind"] == "time":
            hp = base["tree.heights"]
            hp.tensor = hp.tensor * 1.37
        else:
            w = g.weights
            if not hasattr(w, "tensor"):
                return []
            w.tensor = w.tensor * 1.61
        Q = _np(g.precision_matrix()).reshape(N, N)
        lp = float(_np(g()).reshape(-1)[0])
    except Exception as e:
        return [("raises", f"history (evaluate, update, matrix, density) raised {_err(e)}")]
    qf = ref.quadratic_form(Q, field)
    want = 0.5 * (N - 1) * math.log(tau) - 0.5 * qf - 0.5 * (N - 1) * ref.LOG_2PI
    if not close(lp, want, TOL_Q, part="gmrf"):
        return [("density_vs_precision_matrix_after_update",
                 f"after evaluating, changing the {'tree heights' if var['kind'] == 'time' else 'weights'} "
                 f"and reading precision_matrix() before the density: GMRF() = {lp!r} but the published "
                 f"matrix gives {want!r} (x={field}, tau={tau})")]
    return []


def work_gmrf(cfg):
    var, mode = cfg["var"], cfg["batch"]
    base = base_dic(var, cfg["seed"], "ab" if mode == "tree" else "a")
    out = {"n": 0, "nontrivial": 0, "viol": {}, "nviol": 0, "maxerr": 0.0}
    for name, detail in check_gmrf_history(cfg):
        out["nviol"] += 1
        out["viol"][name] = ({"part": "gmrf_history", "cfg": cfg}, detail, gmrf_sig(cfg, name))
    for field, precision in gmrf_points(cfg):
        bad = check_gmrf_point(cfg, field, precision, base)
        out["n"] += 1
        rows = field if mode != "none" else [field]
        if any(len(set(r)) > 1 for r in rows):
            out["nontrivial"] += 1
        for name, detail in bad:
            out["nviol"] += 1
            if name not in out["viol"]:
                out["viol"][name] = ({"part": "gmrf", "cfg": cfg, "field": field,
                                      "precision": precision}, detail, gmrf_sig(cfg, name))
    return out


# ---------------------------------------------------------------------------------------
# part gint
# ---------------------------------------------------------------------------------------

def shipped_on_grid(make, U, what):
    """Evaluate a shipped density on the whole quadrature grid in one batched call
    (`make(values)` -> numpy array, `values` a list of floats or one float) and confirm on
    three nodes that the batched rows are what single evaluations give."""
    vals = np.exp(U)
    v = make(vals.tolist())
    if v.size != U.size:
        return None, ("batched_over_parameter_shape",
                      f"{what}: {U.size} parameter values gave a result of shape {v.shape}")
    v = v.reshape(-1)
    if np.any(np.isnan(v)) or np.any(v == np.inf):
        k = int(np.where(np.isnan(v) | (v == np.inf))[0][0])
        return None, ("density_not_finite", f"{what}: value {v[k]!r} at parameter {vals[k]!r}")
    fin = np.where(np.isfinite(v))[0]
    k0 = int(fin[np.argmax(v[fin])]) if fin.size else 0
    for k in sorted({k0, max(0, k0 - 37), min(U.size - 1, k0 + 11)}):
        one = make(float(vals[k])).reshape(-1)
        if one.size != 1 or not close(float(v[k]), float(one[0]), TOL_ROW, part="rows"):
            return None, ("batched_over_parameter_inconsistent",
                          f"{what}: row {k} of the batched evaluation is {float(v[k])!r}, the "
                          f"single evaluation at the same parameter {vals[k]!r} gives {one.tolist()}")
    return v, None


def gint_reference(var, base, field):
    """{(shape, rate): log integral} for one field, or an error tuple"""
    def make(taus):
        pt = [[t] for t in taus] if isinstance(taus, list) else [taus]
        g = make_model(base, var, field, pt)
        return _np(g())

    U, h = tau_grid(len(field))
    v, err = shipped_on_grid(make, U, "GMRF over precisions")
    if err:
        return None, err
    out = {}
    for a, b in SHAPE_RATE:
        out[(a, b)] = ref.log_integral(U, v + ref.log_gamma_pdf(U, a, b) + U, h)
    return out, None


def gint_sig(cfg, check, batch):
    return {"part": "gint", "variant": var_tag(cfg["var"]), "check": check, "batched": batch != "none"}


def check_gint_point(cfg, field, batch, bases=None, refs=None):
    """field: vector (batch 'none') or two vectors ('field', 'tree').  All nine
    (shape, rate) pairs are evaluated.  returns (list of (name, detail), evaluations)"""
    var = cfg["var"]
    if bases is None:
        bases = {w: base_dic(var, cfg["seed"], w) for w in (("a", "b", "ab") if batch == "tree" else ("a",))}
    rows = [field] if batch == "none" else field
    wants = []
    for r, x in enumerate(rows):
        key = (jdump(x), "b" if (batch == "tree" and r == 1) else "a")
        if refs is not None and key in refs:
            got = refs[key]
        else:
            got = gint_reference(var, bases[key[1]], x)
            if refs is not None:
                refs[key] = got
        if got[1]:
            return [got[1]], 0
        wants.append(got[0])
    bad = []
    nev = 0
    for a, b in SHAPE_RATE:
        nev += 1
        try:
            m = make_model(bases["ab" if batch == "tree" else "a"], var, field, integrated=(a, b))
            v = _np(m())
        except Exception as e:
            bad.append(("raises", f"GMRFGammaIntegrated(shape={a}, rate={b}) raised {_err(e)}"))
            break
        if v.size != len(rows):
            bad.append(("shape", f"GMRFGammaIntegrated() has shape {v.shape} for {len(rows)} field(s)"))
            break
        v = v.reshape(-1)
        for r in range(len(rows)):
            if not close(float(v[r]), wants[r][(a, b)], TOL_INT, part="gint"):
                bad.append(("integrated_vs_quadrature",
                            f"row {r}: GMRFGammaIntegrated(shape={a}, rate={b}) = {float(v[r])!r}, log "
                            f"integral of Gamma(tau) x GMRF(x | tau) d tau = {wants[r][(a, b)]!r} "
                            f"(x={rows[r]})"))
                break
        if bad:
            break
    return bad, nev


def gint_points(cfg):
    fields = fields_for(cfg["N"], cfg["lattice_max"], cfg["seed"])
    L = len(fields)
    pts = [(fields[i], "none") for i in range(L)]
    pts += [([fields[i], fields[(i + 1) % L]], "field") for i in range(L)]
    if cfg["var"]["kind"] == "time":
        pts += [([fields[i], fields[(i + 1) % L]], "tree") for i in range(L)]
    return pts


def work_gint(cfg):
    var = cfg["var"]
    bases = {w: base_dic(var, cfg["seed"], w) for w in (("a", "b", "ab") if var["kind"] == "time" else ("a",))}
    refs = {}
    out = {"n": 0, "nontrivial": 0, "viol": {}, "nviol": 0}
    for field, batch in gint_points(cfg):
        bad, nev = check_gint_point(cfg, field, batch, bases, refs)
        out["n"] += nev
        rows = [field] if batch == "none" else field
        if any(len(set(r)) > 1 for r in rows):
            out["nontrivial"] += nev
        for name, detail in bad:
            out["nviol"] += 1
            key = (name, batch)
            if key not in out["viol"]:
                out["viol"][key] = ({"part": "gint", "cfg": cfg, "field": field, "batch": batch},
                                    detail, gint_sig(cfg, name, batch))
    return out


# ---------------------------------------------------------------------------------------
# part cint
# ---------------------------------------------------------------------------------------

_CINT_REFS = {}


def cint_reference(heights):
    key = tuple(heights)
    if key not in _CINT_REFS:
        if len(_CINT_REFS) > 20000:
            _CINT_REFS.clear()
        _CINT_REFS[key] = _cint_reference(heights)
    return _CINT_REFS[key]


def _cint_reference(heights):
    import torch
    from torchtree.evolution.coalescent import ConstantCoalescent

    nh = torch.tensor(heights)

    def make(thetas):
        th = torch.tensor([[t] for t in thetas]) if isinstance(thetas, list) else torch.tensor([thetas])
        return _np(ConstantCoalescent(th).log_prob(nh))

    v, err = shipped_on_grid(make, U_THETA, "ConstantCoalescent over population sizes")
    if err:
        return None, err
    out = {}
    for a, b in ALPHA_BETA:
        out[(a, b)] = ref.log_integral(U_THETA, v + ref.log_invgamma_pdf(U_THETA, a, b) + U_THETA, H_THETA)
    return out, None


CINT_ROUTES = ("dist", "dist_shuffled", "tree_front", "tree_last", "dist_batched", "tree_batched")


def cint_value(g, route, a, b, c_b=None):
    """value(s) of the integrated coalescent through one construction route"""
    import torch
    from torchtree.evolution.coalescent import ConstantCoalescentIntegrated

    if route in ("dist", "dist_shuffled"):
        nh = torch.tensor(g.heights(shuffled=route == "dist_shuffled"))
        return _np(ConstantCoalescentIntegrated(a, b).log_prob(nh))
    if route == "dist_batched":
        nh = torch.tensor([g.heights(), g.heights(c_b, shuffled=True)])
        return _np(ConstantCoalescentIntegrated(a, b).log_prob(nh))
    if route == "tree_batched":
        dic = g.load_tree("front", [g.by_order("front", g.c), g.by_order("front", c_b)])
    else:
        dic = g.load_tree("last" if route == "tree_last" else "front")
    tt.load({"id": "coal", "type": "ConstantCoalescentIntegratedModel", "tree_model": "tree",
             "alpha": a, "beta": b}, dic)
    return _np(dic["coal"]())


def check_cint(cfg, routes=None, only_b=None):
    """all routes; the batched ones once per interleaving B of the same tips (second row)"""
    g = Genealogy(cfg["inter"], cfg["ties"], cfg["seed"])
    ref_a, err = cint_reference(g.heights())
    if err:
        return [(err[0], err[1], "reference", None)], 0, 0
    bad = []
    nev = 0
    skipped = 0
    for route in (routes or CINT_ROUTES):
        batched = route.endswith("batched")
        for inter_b in ((only_b,) if only_b else en.interleavings(g.n)) if batched else (None,):
            c_b = None
            refs = [ref_a]
            if batched:
                c_b = g.realise(inter_b)
                if c_b is None:
                    skipped += 1
                    continue
                ref_b, err = cint_reference(g.heights(c_b))
                if err:
                    return [(err[0], err[1], "reference", inter_b)], nev, skipped
                refs.append(ref_b)
            hit = False
            for a, b in ALPHA_BETA:
                nev += 1
                try:
                    v = cint_value(g, route, a, b, c_b)
                except Exception as e:
                    bad.append(("raises", f"route {route} alpha={a} beta={b}: {_err(e)}", route, inter_b))
                    hit = True
                    break
                if v.size != len(refs):
                    bad.append(("shape", f"route {route}: result of shape {v.shape} for {len(refs)} tree(s)",
                                route, inter_b))
                    hit = True
                    break
                v = v.reshape(-1)
                for r, want in enumerate(refs):
                    if not close(float(v[r]), want[(a, b)], TOL_INT, part="cint"):
                        bad.append(("integrated_vs_quadrature",
                                    f"route {route} row {r}: ConstantCoalescentIntegrated(alpha={a}, beta={b}) = "
                                    f"{float(v[r])!r}, log integral of InvGamma(theta) x ConstantCoalescent"
                                    f"(T | theta) d theta = {want[(a, b)]!r}  (heights "
                                    f"{g.heights(c_b if r else None)})", route, inter_b))
                        hit = True
                        break
                if hit:
                    break
            if hit:
                break
    return bad, nev, skipped


def cint_sig(name, route):
    return {"part": "cint", "check": name, "batched": route.endswith("batched")}


def work_cint(cfg):
    bad, nev, skipped = check_cint(cfg)
    out = {"n": nev, "nontrivial": nev if nontrivial_inter(cfg["inter"]) else 0, "viol": {},
           "nviol": len(bad), "pairs_infeasible": skipped}
    for name, detail, route, inter_b in bad:
        key = (name, route)
        if key not in out["viol"]:
            out["viol"][key] = ({"part": "cint", "cfg": cfg, "route": route, "inter_b": inter_b}, detail,
                                cint_sig(name, route))
    return out


def nontrivial_inter(inter):
    """at least two coalescences (several intervals with different lineage counts)"""
    return inter.count("c") >= 2


# ---------------------------------------------------------------------------------------
# part ss
# ---------------------------------------------------------------------------------------

def ss_thetas(K, seed):
    return [gen.generic(K, seed, 0.3, 4.0, salt=30), gen.generic(K, seed, 0.3, 4.0, salt=31)[::-1]]


SS_ROUTES = ("dist", "dist_shuffled", "tree", "data", "b_theta", "b_both", "b_heights", "b_tree")


def ss_eval(cfg, g, grid, route, thetas, c_b):
    """returns (ss, counts, log_prob, theta rows, n rows) as numpy arrays; raises what the
    implementation raises.  c_b: coalescent times of the second batch row"""
    import torch
    from torchtree.evolution.coalescent import PiecewiseConstantCoalescent, PiecewiseConstantCoalescentGrid

    sky = cfg["model"] == "skyride"
    th_a, th_b = thetas
    if route in ("dist", "dist_shuffled", "b_theta", "b_both", "b_heights"):
        if route in ("b_both", "b_heights"):
            nh = torch.tensor([g.heights(), g.heights(c_b, shuffled=True)])
        else:
            nh = torch.tensor(g.heights(shuffled=route == "dist_shuffled"))
        if route in ("b_theta", "b_both"):
            th = torch.tensor([th_a, th_b])
        else:
            th = torch.tensor(th_a)
        d = PiecewiseConstantCoalescent(th) if sky else PiecewiseConstantCoalescentGrid(th, torch.tensor(grid))
        lp = d.log_prob(nh)
        ss, c = d.sufficient_statistics(nh)
    else:
        th = [th_a, th_b] if route == "b_tree" else th_a
        spec = {"id": "coal", "theta": P("theta", th),
                "type": "PiecewiseConstantCoalescentModel" if sky else "PiecewiseConstantCoalescentGridModel"}
        if cfg["model"] == "skygrid_cutoff":
            spec["cutoff"] = grid["cutoff"]
        elif not sky:
            spec["grid"] = list(grid)
        if route == "data":
            spec["times"] = list(g.times)
            spec["events"] = [1 if e == "s" else 0 for e in g.inter]
            dic = tt.load(spec)
        else:
            if route == "b_tree":
                dic = g.load_tree("front", [g.by_order("front", g.c), g.by_order("front", c_b)])
            else:
                dic = g.load_tree("last")
            spec["tree_model"] = "tree"
            tt.load(spec, dic)
        m = dic["coal"]
        lp = m()
        ss, c = m.distribution().sufficient_statistics(m.tree_model.node_heights)
    th_rows = np.array([th_a, th_b]) if route in ("b_theta", "b_both", "b_tree") else np.array([th_a])
    nrows = 2 if route.startswith("b_") else 1
    th_rows = np.broadcast_to(th_rows, (nrows, th_rows.shape[1]))
    return _np(ss), _np(c), _np(lp), th_rows, nrows


PAIR_ROUTES = ("b_both", "b_heights", "b_tree")


def check_ss_case(cfg, placement, route, inter_b=None):
    """one (interleaving, ties, model, grid placement, route[, interleaving of the second
    batch row]); both theta vectors for the unbatched routes.
    returns (list of (name, detail), evaluations, nontrivial?, status)"""
    g = Genealogy(cfg["inter"], cfg["ties"], cfg["seed"])
    n = g.n
    sky = cfg["model"] == "skyride"
    if cfg["model"] == "skygrid_cutoff":
        # regular grid built by the model itself from a cut-off: placement = (K, factor)
        K, factor = placement
        # factor 1: the cut-off is the root height itself (last grid point exactly on the last event)
        grid = {"cutoff": g.times[-1] if factor == 1.0 else round(factor * g.times[-1], 6)}
        pts = set(np.linspace(0.0, grid["cutoff"], K)[1:].tolist())
        if route not in ("tree", "data", "b_tree"):
            return [], 0, False, "n/a"
    elif cfg["model"] == "skygrid_onevent":
        # grid points exactly on event times (sampling or coalescent): only the identities between the
        # statistics, the counts and log_prob of the same object are demanded, whatever the tie convention
        grid = sorted({g.times[j] for j in placement})
        pts = set()
        K = len(grid) + 1
    else:
        grid = None if sky else gen.grid_of(g.times, tuple(placement), cfg["seed"])
        pts = set(grid or [])
        K = n - 1 if sky else len(grid) + 1
    c_b = None
    if route in PAIR_ROUTES:
        c_b = g.realise(inter_b or g.inter, avoid=pts)
        if c_b is None:
            return [], 0, False, "infeasible"
    if cfg["model"] == "skygrid" and pts & set(g.times + (c_b or [])):
        raise RuntimeError("harness: grid point on an event")
    th = ss_thetas(K, cfg["seed"])
    tsets = [th] if route.startswith("b_") else [th, th[::-1]]
    bad = []
    nev = 0
    nontriv = False
    for thetas in tsets:
        nev += 1
        try:
            ss, c, lp, th_rows, nrows = ss_eval(cfg, g, grid, route, thetas, c_b)
        except Exception as e:
            if route.startswith("b_"):
                return [], nev, False, "raised"  # batched shapes failing loudly is allowed
            return [("raises", f"{_err(e)}")], nev, False, "raised"
        if ss.size != nrows * K or lp.size != nrows or c.size not in (K, nrows * K):
            bad.append(("batched_shape" if nrows > 1 else "shape",
                        f"sufficient_statistics returned shapes {ss.shape} / {c.shape}, log_prob "
                        f"{lp.shape}; expected {nrows} x {K} statistics  (ss={ss.reshape(-1).tolist()}, "
                        f"counts={c.reshape(-1).tolist()})"))
            break
        ss = ss.reshape(nrows, K)
        c = np.broadcast_to(c.reshape(-1, K), (nrows, K))
        lp = lp.reshape(nrows)
        for r in range(nrows):
            t1 = ss[r] / th_rows[r]
            t2 = c[r] * np.log(th_rows[r])
            val = -math.fsum(t1.tolist()) - math.fsum(t2.tolist())
            scale = math.fsum(np.abs(t1).tolist()) + math.fsum(np.abs(t2).tolist())
            if not close(val, float(lp[r]), TOL_SS, scale, part="ss"):
                bad.append(("density_from_statistics",
                            f"row {r}: -sum ss/theta - sum c log(theta) = {val!r}, log_prob = {float(lp[r])!r}  "
                            f"(ss={ss[r].tolist()}, counts={c[r].tolist()}, theta={th_rows[r].tolist()}, "
                            f"heights={g.heights(c_b if r else None)}, grid={grid})"))
                break
            if abs(float(np.sum(c[r])) - (n - 1)) > 0:
                bad.append(("count_total", f"row {r}: coalescent counts {c[r].tolist()} sum to "
                                           f"{float(np.sum(c[r]))}, tree has {n - 1} coalescences"))
                break
            if np.count_nonzero(ss[r]) >= 2:
                nontriv = True
        if bad:
            break
    return bad, nev, nontriv, "ok"


def ss_sig(cfg, route, name):
    return {"part": "ss", "model": cfg["model"].split("_")[0], "check": name,
            "batched": route.startswith("b_")}


def ss_placements(cfg):
    if cfg["model"] == "skyride":
        return [()]
    if cfg["model"] == "skygrid_cutoff":
        return [(K, f) for K in (2, 3, 5) for f in (0.6, 1.0, 1.4)]
    if cfg["model"] == "skygrid_onevent":
        g = Genealogy(cfg["inter"], cfg["ties"], cfg["seed"])
        pos = sorted({j for j, t in enumerate(g.times) if t > 0 and g.times.index(t) == j})
        return [(j,) for j in pos] + [(j, k) for j in pos for k in pos if j < k]
    g = Genealogy(cfg["inter"], cfg["ties"], cfg["seed"])
    pl = gen.grid_placements(g.times, cfg["G"])
    assert len(pl) == gen.n_multisets(len(gen.positive_gaps(g.times)), cfg["G"]), "placement count"
    return pl


def ss_second_rows(cfg):
    """interleavings used for the second batch row: every interleaving of the same tips when
    (n, G) is inside the pair bound, else only the interleaving of the first row"""
    G = cfg.get("G", 0)
    if G <= cfg["pair_G"]:
        return en.interleavings(cfg["n"])
    return [cfg["inter"]]


def work_ss(cfg):
    out = {"n": 0, "nontrivial": 0, "viol": {}, "nviol": 0, "raised": {}, "placements": 0,
           "pairs": 0, "pairs_infeasible": 0}
    seconds = ss_second_rows(cfg)
    for placement in ss_placements(cfg):
        out["placements"] += 1
        for route in SS_ROUTES:
            for inter_b in (seconds if route in PAIR_ROUTES else (None,)):
                bad, nev, nontriv, status = check_ss_case(cfg, placement, route, inter_b)
                out["n"] += nev
                if nontriv:
                    out["nontrivial"] += nev
                if inter_b is not None and status != "n/a":
                    out["pairs" if status != "infeasible" else "pairs_infeasible"] += 1
                if status == "raised":
                    out["raised"][route] = out["raised"].get(route, 0) + 1
                for name, detail in bad:
                    out["nviol"] += 1
                    key = (name, route)
                    if key not in out["viol"]:
                        out["viol"][key] = ({"part": "ss", "cfg": cfg, "placement": list(placement),
                                             "route": route, "inter_b": inter_b}, detail,
                                            ss_sig(cfg, route, name))
    return out


# ---------------------------------------------------------------------------------------
# driver
# ---------------------------------------------------------------------------------------

WORK = {"gmrf": work_gmrf, "gint": work_gint, "cint": work_cint, "ss": work_ss}


def _work(chunk):
    _ERR.clear()
    res = [(kind, cfg, WORK[kind](cfg)) for kind, cfg in chunk]
    return res, dict(_ERR)


def self_test():
    """the quadrature against mpmath on closed-form integrands (harness check)"""
    worst = 0.0
    for n, ssq, a, b in ((2, 0.0, 0.001, 0.001), (2, 2.25, 0.001, 2.0), (5, 13.5, 0.5, 0.5),
                         (8, 40.0, 2.0, 0.001), (50, 300.0, 0.001, 0.5)):
        U, h = tau_grid(n)
        v = 0.5 * (n - 1) * U - 0.5 * ssq * np.exp(U) - 0.5 * (n - 1) * ref.LOG_2PI
        mine = ref.log_integral(U, v + ref.log_gamma_pdf(U, a, b) + U, h)
        theirs = ref.mp_log_integral_gamma_gmrf(ssq, n, a, b)
        worst = max(worst, abs(mine - theirs) / max(1.0, abs(theirs)))
    for k, tot, a, b in ((1, 0.3, 0.001, 0.003), (1, 5.0, 3.0, 2.0), (4, 17.0, 0.5, 0.5), (6, 120.0, 2.0, 0.003)):
        v = -k * U_THETA - tot * np.exp(-U_THETA)
        mine = ref.log_integral(U_THETA, v + ref.log_invgamma_pdf(U_THETA, a, b) + U_THETA, H_THETA)
        theirs = ref.mp_log_integral_invgamma_coalescent(tot, k, a, b)
        worst = max(worst, abs(mine - theirs) / max(1.0, abs(theirs)))
    if worst > 1e-11:
        raise RuntimeError(f"harness: trapezoid quadrature and mpmath disagree ({worst:.2e})")
    return worst


def run(run):
    qerr = self_test()
    seed = run.seed
    items = gmrf_items(run.tier, seed) + gint_items(run.tier, seed) + cint_items(run.tier, seed) \
        + ss_items(run.tier, seed)
    # interleave cheap and expensive items for balance
    order = sorted(range(len(items)), key=lambda i: (i * 7919) % len(items))
    items = [items[i] for i in order]
    res = pmap(_work, chunked(items, 16 * 12))
    per = {k: {"items": 0, "evaluations": 0, "nontrivial": 0, "failing": 0} for k in WORK}
    raised = {}
    placements = 0
    pairs = {"explored": 0, "infeasible_because_of_tied_samplings": 0}
    samples = {}
    maxerr = {}
    for chunk, errs in res:
        for k, v in errs.items():
            maxerr[k] = max(maxerr.get(k, 0.0), v)
        for kind, cfg, out in chunk:
            p = per[kind]
            p["items"] += 1
            p["evaluations"] += out["n"]
            p["nontrivial"] += out["nontrivial"]
            p["failing"] += out["nviol"]
            placements += out.get("placements", 0)
            pairs["explored"] += out.get("pairs", 0)
            pairs["infeasible_because_of_tied_samplings"] += out.get("pairs_infeasible", 0)
            for r, k in out.get("raised", {}).items():
                raised[r] = raised.get(r, 0) + k
            samples.setdefault(kind, cfg)
            for case, detail, sig in out["viol"].values():
                run.violation(case, detail, sig)
    b = bounds(run.tier)
    # closed-form size of the gmrf part: sum over N, variants, modes of |fields| x 3
    expect = 0
    for kind, cfg in items:
        if kind == "gmrf":
            L = 3 ** cfg["N"] if cfg["N"] <= cfg["lattice_max"] else 5
            expect += 3 * L
    if expect != per["gmrf"]["evaluations"]:
        raise RuntimeError(f"harness: gmrf part evaluated {per['gmrf']['evaluations']} points, space has {expect}")
    cov = {
        "evaluations": sum(p["evaluations"] for p in per.values()),
        "distinct_nontrivial": sum(p["nontrivial"] for p in per.values()),
        "rule": "gmrf: every (N, variant, batch mode) x field lattice {-1,0.5,2}^N (N<=lattice_max, else 5 "
                "generic fields) x precision {0.1,1,10}; gint: same variants x fields x 9 (shape,rate) x "
                "{single, field-batched, tree-batched (second row: other heights on the same tree)}; cint: every "
                "interleaving x sampling-tie mode x 12 (alpha,beta) x 6 construction routes, the batched ones "
                "with EVERY interleaving of the same tips as second row; ss: every interleaving x tie mode x "
                "every multiset placement of G grid points in the gaps/beyond the root (+9 cut-off grids incl. cut-off = root height, + grids with 1 or 2 points exactly on event times) x 8 "
                "routes x theta vectors, the height-batched routes with every interleaving of the same tips "
                "as second row for G <= pair_G[n]. "
                "non-trivial = non-constant field (gmrf, gint), >= 2 coalescences (cint), >= 2 non-zero "
                "statistics (ss); each enumerated case is distinct by construction",
        "samples": [{"part": k, "cfg": samples[k]} for k in sorted(samples)],
        "exhaustive": True,
        "per_part": per,
        "grid_placements": placements,
        "batch_row_interleaving_pairs": pairs,
        "batched_routes_that_raised": raised,
        "bounds": b,
        "quadrature_vs_mpmath_max_rel": qerr,
        "max_error_among_passing_comparisons": maxerr,
        "tolerances": {"gmrf": TOL_Q, "integrated": TOL_INT, "sufficient_statistics": TOL_SS},
    }
    return run.finish(cov, assumptions=[
        "continuous values (fields, precisions, weights, event times, grid positions, thetas) on the stated "
        "lattices / generic points only; VERIF_SEED moves the generic points, never the discrete space",
        "field lengths above the listed N, genealogies above the listed tip counts are not explored",
        "normalisation of the GMRF is the documented one, (N-1)/2 log(tau) - (N-1)/2 log(2 pi), for all variants",
        "ties between a coalescent event and a grid point / sampling event are excluded (measure zero, order "
        "undefined); ties among sampling events are included",
        "a batched shape combination that raises is accepted (fails loudly); one that returns numbers must "
        "return the per-row values",
        f"tolerances: GMRF vs quadratic form {TOL_Q} (observed <= 1e-13), integrated priors {TOL_INT} "
        f"(observed <= 1e-12), sufficient statistics {TOL_SS} of the sum of |terms| (observed <= 1e-15)",
        "integrals: log-domain trapezoid rule over log(scale), step h and h/2 (h <= 0.25, following the width of "
        "the integrand) agreeing to 1e-11 and tails below e^-40 of the mode, otherwise the harness fails; "
        "cross-checked against mpmath.quad at 30 digits on closed-form integrands every run",
    ])


def replay(case):
    part = case["part"]
    out = []
    if part == "gmrf":
        for name, detail in check_gmrf_point(case["cfg"], case["field"], case["precision"]):
            out.append({"case": case, "detail": detail, "sig": gmrf_sig(case["cfg"], name)})
    elif part == "gmrf_history":
        for name, detail in check_gmrf_history(case["cfg"]):
            out.append({"case": case, "detail": detail, "sig": gmrf_sig(case["cfg"], name)})
    elif part == "gint":
        bad, _ = check_gint_point(case["cfg"], case["field"], case["batch"])
        for name, detail in bad:
            out.append({"case": case, "detail": detail, "sig": gint_sig(case["cfg"], name, case["batch"])})
    elif part == "cint":
        bad, _, _ = check_cint(case["cfg"], routes=[case["route"]] if case["route"] != "reference" else None,
                               only_b=case.get("inter_b"))
        for name, detail, route, _ in bad:
            out.append({"case": case, "detail": detail, "sig": cint_sig(name, route)})
    else:
        bad, _, _, _ = check_ss_case(case["cfg"], case["placement"], case["route"], case.get("inter_b"))
        for name, detail in bad:
            out.append({"case": case, "detail": detail, "sig": ss_sig(case["cfg"], case["route"], name)})
    return out
