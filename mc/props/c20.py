"""C20 - smoothing / integrated priors and sufficient statistics match their densities.

Four parts, each a complete enumeration of a declared finite space:

 gmrf  GMRF() against the Gaussian quadratic form built from the matrix returned by
       precision_matrix() of the same object: field length N x field lattice x precision x
       {plain, weighted, time-aware (every interleaving x 2 tree shapes x sampling ties x
       rescale omitted/true/false)} x {single, field+precision batched, field batched,
       tree batched}.
 gint  GMRFGammaIntegrated() against log of the integral over the precision of
       Gamma(precision; shape, rate) x [the shipped GMRF density of the same variant],
       same variants, (shape, rate) in {0.001, 0.5, 2}^2, single and batched.
 cint  ConstantCoalescentIntegrated against log of the integral over the population size of
       InvGamma(theta; alpha, beta) x [the shipped ConstantCoalescent density], every
       interleaving x sampling ties x (alpha, beta) menu x {distribution on shuffled heights,
       model over a tree (2 shapes), model from times/events, batched}.
 ss    -sum ss_i/theta_i - sum c_i log(theta_i) == log_prob and sum c_i == n-1 for the skyride
       (PiecewiseConstantCoalescent) and the skygrid (PiecewiseConstantCoalescentGrid) on
       every interleaving x sampling ties x every placement of G grid points in the gaps
       between events / beyond the root x 2 theta vectors x {distribution on shuffled
       heights, model over a tree, batched theta / heights / both}.

The gamma / inverse-gamma densities are the ones written in the two docstrings, computed
with math.lgamma; the integrals are log-domain trapezoid sums over log(scale) with step h and
h/2 that must agree (otherwise the harness fails), cross-checked with mpmath on every run.
"""
import itertools
import math

import numpy as np

from mc.builders import genealogy as gen
from mc.builders import trees as tb
from mc.env import tt
from mc.explore import enumerate as en
from mc.oracle import gmrf as ref
from mc.runner import chunked, jdump, pmap

LEVEL = "exploration"

# tolerances (see `assumptions` in the evidence)
TOL_Q = 1e-9      # GMRF() vs quadratic form, relative to max(1, |value|)
TOL_INT = 1e-8    # integrated priors vs quadrature (figure of the design / statement)
TOL_SS = 1e-12    # sufficient statistics identity, relative to the sum of |terms|
TOL_ROW = 1e-12   # batched evaluation of a shipped density used by the quadrature vs single

LATTICE = (-1.0, 0.5, 2.0)
PRECISIONS = (0.1, 1.0, 10.0)
SHAPE_RATE = tuple(itertools.product((0.001, 0.5, 2.0), repeat=2))
ALPHA_BETA = tuple(itertools.product((0.001, 0.5, 2.0, 3.0), (0.003, 0.5, 2.0)))

# quadrature grids over u = log(scale parameter)
H_THETA = 0.125
U_THETA = ref.grid(-60.0, 130.0, H_THETA)   # population size: right tail like exp(-(alpha+n-1) u)
_TAU_GRIDS = {}


def tau_grid(N):
    """Abscissae u = log(precision) for a field of length N.  The integrand behaves like
    exp(a u - b exp(u)) with a = shape + (N-1)/2 in [0.001 + (N-1)/2, 2 + (N-1)/2]: its width
    in u is ~ 1/sqrt(a) (the step follows it) and its left tail decays like exp(a u) (the
    range follows it).  Both choices are verified a posteriori by log_integral()."""
    if N not in _TAU_GRIDS:
        a_min = 0.001 + (N - 1) / 2.0
        a_max = 2.0 + (N - 1) / 2.0
        h = 0.25 / math.ceil(0.25 / (0.5 / math.sqrt(a_max)))
        lo = -12.0 - 90.0 / a_min
        lo = -math.ceil(-lo / h) * h
        _TAU_GRIDS[N] = (ref.grid(lo, 50.0, h), h)
    return _TAU_GRIDS[N]


def P(id_, v):
    return {"id": id_, "type": "Parameter", "tensor": v}


def _np(t):
    return t.detach().numpy().astype(float)


def _err(e):
    return f"{type(e).__name__}: {str(e)[:160]}"


_ERR = {}


def close(a, b, tol, scale=None, part=None):
    """|a - b| <= tol * max(1, |b| or scale); the largest error among the comparisons
    that pass is remembered per part (reported in the evidence: calibration of tolerances)"""
    s = max(1.0, abs(b)) if scale is None else max(1.0, scale)
    ok = math.isfinite(a) and abs(a - b) <= tol * s
    if ok and part is not None:
        _ERR[part] = max(_ERR.get(part, 0.0), abs(a - b) / s)
    return ok


# ---------------------------------------------------------------------------------------
# enumeration of the discrete space
# ---------------------------------------------------------------------------------------

def bounds(tier):
    if tier == "quick":
        return {"Ns": [2, 3, 4, 5, 6, 7, 8], "lattice_max": 5, "gint_lattice_max": 3,
                "time_n": [3, 4, 5], "coal_n": [2, 3, 4, 5, 6], "ss_n": [2, 3, 4, 5], "G": [1, 2, 3],
                "G_big": {}}
    return {"Ns": [2, 3, 4, 5, 6, 7, 8, 10, 15, 20, 30, 40, 50], "lattice_max": 7,
            "gint_lattice_max": 5, "time_n": [3, 4, 5, 6], "coal_n": [2, 3, 4, 5, 6, 7],
            "ss_n": [2, 3, 4, 5, 6], "G": [1, 2, 3], "G_big": {7: [1, 2]}}


def fields_for(N, lattice_max, seed):
    if N <= lattice_max:
        return [list(p) for p in itertools.product(LATTICE, repeat=N)]
    return [gen.generic(N, seed, -2.0, 3.0, salt=10 + k) for k in range(5)]


def tie_modes(inter):
    return ["none", "samp"] if gen.has_sampling_run(inter) else ["none"]


def time_variants(ns):
    out = []
    for n in ns:
        inters = en.interleavings(n)
        assert len(inters) == math.comb(2 * (n - 1), n - 1) // n, "interleaving count"
        for inter in inters:
            for rule in ("front", "last"):
                for ties in tie_modes(inter):
                    for rescale in (None, True, False):
                        out.append({"kind": "time", "inter": inter, "rule": rule, "ties": ties,
                                    "rescale": rescale})
    return out


def variants_for(N, b, seed):
    """GMRF variants available for a field of length N"""
    out = [{"kind": "plain"}]
    # weights as a JSON Parameter, and as a plain tensor handed to the constructor
    out.append({"kind": "weighted", "weights": gen.generic(N - 1, seed, 0.2, 3.0, salt=20)})
    out.append({"kind": "weighted", "weights": gen.generic(N - 1, seed, 0.2, 3.0, salt=21), "ctor": True})
    if N + 1 in b["time_n"]:
        out += time_variants([N + 1])
    return out


def gmrf_items(tier, seed):
    b = bounds(tier)
    items = []
    for N in b["Ns"]:
        for var in variants_for(N, b, seed):
            modes = ["none", "both", "field"] + (["tree"] if var["kind"] == "time" else [])
            for mode in modes:
                items.append(("gmrf", {"N": N, "var": var, "batch": mode, "seed": seed,
                                       "lattice_max": b["lattice_max"]}))
    return items


def gint_items(tier, seed):
    b = bounds(tier)
    items = []
    for N in b["Ns"]:
        for var in variants_for(N, b, seed):
            items.append(("gint", {"N": N, "var": var, "seed": seed,
                                   "lattice_max": b["gint_lattice_max"]}))
    return items


def coal_configs(ns):
    out = []
    for n in ns:
        for inter in en.interleavings(n):
            for ties in tie_modes(inter):
                out.append({"n": n, "inter": inter, "ties": ties})
    return out


def cint_items(tier, seed):
    return [("cint", dict(c, seed=seed)) for c in coal_configs(bounds(tier)["coal_n"])]


def ss_items(tier, seed):
    b = bounds(tier)
    items = []
    ns = list(b["ss_n"]) + sorted(b["G_big"])
    for c in coal_configs(ns):
        Gs = b["G_big"].get(c["n"], b["G"])
        items.append(("ss", dict(c, seed=seed, model="skyride")))
        items.append(("ss", dict(c, seed=seed, model="skygrid_cutoff")))
        for G in Gs:
            items.append(("ss", dict(c, seed=seed, model="skygrid", G=G)))
    return items


# ---------------------------------------------------------------------------------------
# building blocks
# ---------------------------------------------------------------------------------------

class Genealogy:
    """times, tree and node-height vectors of one (interleaving, ties, seed)"""

    def __init__(self, inter, ties, seed):
        self.inter = inter
        self.n = inter.count("s")
        self.times = gen.event_times(inter, seed, ties)
        self.times_b = gen.shifted_times(inter, self.times, seed)
        self.s, self.c = gen.sampling_and_coalescent_times(inter, self.times)
        _, self.c_b = gen.sampling_and_coalescent_times(inter, self.times_b)

    def heights(self, which="a", shuffled=False):
        """node-height vector [sampling..., coalescent...]; shuffled: both blocks reversed
        (the distributions must not depend on the order inside a block)"""
        c = self.c if which == "a" else self.c_b
        s = list(self.s)
        c = list(c)
        if shuffled:
            s, c = s[::-1], c[::-1]
        return s + c

    def tree_spec(self, rule, which="a"):
        """TimeTreeModel JSON; internal heights follow the post-order of the Newick string,
        `which` = 'a', 'b' or 'ab' (batched)"""
        top, labels, order = gen.tree_of(self.inter, rule)
        post = en.clades(top)
        rows = []
        for c in ([self.c] if which == "a" else [self.c_b] if which == "b" else [self.c, self.c_b]):
            tc = dict(zip(order, c))
            rows.append([tc[x] for x in post])
        spec = tb.time_tree(top, labels, list(self.s), rows if which == "ab" else rows[0])
        return spec, labels, order

    def load_tree(self, rule, which="a"):
        """loads the tree and verifies (harness self-check) that the loaded node heights are
        the event times of this genealogy"""
        spec, labels, order = self.tree_spec(rule, which)
        dic = tt.load(spec)
        model = dic["tree"]
        nh = _np(model.node_heights)
        cl = tb.index_clades(model, labels)
        rows = nh.reshape(-1, 2 * self.n - 1)
        cs = {"a": [self.c], "b": [self.c_b], "ab": [self.c, self.c_b]}[which]
        for r, c in zip(rows, cs):
            tc = dict(zip(order, c))
            for i in range(self.n):
                if r[i] != self.s[i]:
                    raise RuntimeError(f"harness: tip {i} loaded at {r[i]}, wanted {self.s[i]}")
            for i in range(self.n, 2 * self.n - 1):
                if r[i] != tc[cl[i]]:
                    raise RuntimeError(f"harness: node {i} loaded at {r[i]}, wanted {tc[cl[i]]}")
        return dic


def var_tag(var):
    if var["kind"] != "time":
        return var["kind"]
    return "time"


def gmrf_spec(var, field, precision=None, integrated=None, id_="gmrf"):
    """JSON of a GMRF (precision given) or a GMRFGammaIntegrated (integrated=(shape, rate))"""
    spec = {"id": id_, "x": P(id_ + ".field", field)}
    if integrated is None:
        spec["type"] = "GMRF"
        spec["precision"] = P(id_ + ".precision", precision)
    else:
        spec["type"] = "GMRFGammaIntegrated"
        spec["shape"], spec["rate"] = integrated
    if var["kind"] == "weighted":
        spec["weights"] = P(id_ + ".weights", var["weights"])
    elif var["kind"] == "time":
        spec["tree_model"] = "tree"
        if var["rescale"] is not None:
            spec["rescale"] = var["rescale"]
    return spec


def make_model(base, var, field, precision=None, integrated=None):
    """the GMRF / GMRFGammaIntegrated of a variant: from JSON, or (variant flag 'ctor')
    through the class constructor with the weights as a plain tensor"""
    if not var.get("ctor"):
        return load_in(base, gmrf_spec(var, field, precision, integrated))
    import torch
    from torchtree import Parameter
    from torchtree.distributions.gmrf import GMRF
    from torchtree.distributions.gmrf_integrated import GMRFGammaIntegrated

    x = Parameter(None, torch.tensor(field))
    w = torch.tensor(var["weights"])
    if integrated is None:
        return GMRF(None, x, Parameter(None, torch.tensor(precision)), weights=w)
    return GMRFGammaIntegrated(None, x, integrated[0], integrated[1], weights=w)


def base_dic(var, seed, which="a"):
    """objects a variant needs besides the GMRF itself (the tree of a time-aware variant)"""
    if var["kind"] != "time":
        return {}
    g = Genealogy(var["inter"], var["ties"], seed)
    return g.load_tree(var["rule"], which)


def load_in(base, spec):
    """process a freshly built JSON object (no comments, no plates: the deep copy /
    remove_comments / expand_plates passes of tt.load are skipped, they dominate the cost
    for the long precision vectors of the quadrature) into a copy of `base`"""
    from torchtree.core.utils import process_objects

    dic = dict(base)
    process_objects(spec, dic)
    return dic[spec["id"]]


# ---------------------------------------------------------------------------------------
# part gmrf
# ---------------------------------------------------------------------------------------

def gmrf_points(cfg):
    """(field, precision) points of one configuration, in enumeration order.  Unbatched:
    field is a vector, precision a float.  Batched: two consecutive lattice fields and,
    for 'both'/'tree', two different precisions."""
    fields = fields_for(cfg["N"], cfg["lattice_max"], cfg["seed"])
    L = len(fields)
    pts = []
    for i in range(L):
        for k, tau in enumerate(PRECISIONS):
            if cfg["batch"] == "none":
                pts.append((fields[i], tau))
            elif cfg["batch"] == "field":
                pts.append(([fields[i], fields[(i + 1) % L]], tau))
            else:
                pts.append(([fields[i], fields[(i + 1) % L]], [tau, PRECISIONS[(k + 1) % 3]]))
    return pts


def gmrf_sig(cfg, check):
    s = {"part": "gmrf", "variant": var_tag(cfg["var"]), "batch": cfg["batch"], "check": check}
    if cfg["var"]["kind"] == "time":
        s["rescale"] = cfg["var"]["rescale"]
    return s


def check_gmrf_point(cfg, field, precision, base=None):
    """returns list of (check name, detail)"""
    var, mode = cfg["var"], cfg["batch"]
    N = cfg["N"]
    if base is None:
        base = base_dic(var, cfg["seed"], "ab" if mode == "tree" else "a")
    batched = mode != "none"
    rows_x = field if batched else [field]
    B = len(rows_x)
    if mode in ("both", "tree"):
        ptensor = [[t] for t in precision]
        taus = list(precision)
    else:
        ptensor = [precision]
        taus = [precision] * B
    try:
        g = make_model(base, var, field, ptensor)
        lp = _np(g())
        Q = _np(g.precision_matrix())
    except Exception as e:
        if mode == "field":
            return []  # mixed shapes failing loudly is allowed
        return [("raises", f"GMRF()/precision_matrix() raised {_err(e)}")]
    if lp.size != B or Q.size != B * N * N:
        return [("shape", f"GMRF() has shape {lp.shape}, precision_matrix() {Q.shape} for "
                          f"{B} field(s) of length {N}")]
    lp = lp.reshape(B)
    Q = Q.reshape(B, N, N)
    bad = []
    for r in range(B):
        qf = ref.quadratic_form(Q[r], rows_x[r])
        want = 0.5 * (N - 1) * math.log(taus[r]) - 0.5 * qf - 0.5 * (N - 1) * ref.LOG_2PI
        if not close(float(lp[r]), want, TOL_Q, part="gmrf"):
            # what quadratic form does the density itself use?  (diagnostic only)
            used = -2.0 * (float(lp[r]) - 0.5 * (N - 1) * (math.log(taus[r]) - ref.LOG_2PI))
            bad.append(("density_vs_precision_matrix",
                        f"row {r}: GMRF() = {float(lp[r])!r} but (N-1)/2 log(tau) - x'Qx/2 - (N-1)/2 "
                        f"log(2pi) with the published Q = {want!r}  (x'Qx published {qf!r}, "
                        f"used by the density {used!r}; x={rows_x[r]}, tau={taus[r]}, "
                        f"Q diag={np.diag(Q[r]).tolist()}, off={np.diag(Q[r], 1).tolist()})"))
            break
    return bad


def work_gmrf(cfg):
    var, mode = cfg["var"], cfg["batch"]
    base = base_dic(var, cfg["seed"], "ab" if mode == "tree" else "a")
    out = {"n": 0, "nontrivial": 0, "viol": {}, "nviol": 0, "maxerr": 0.0}
    for field, precision in gmrf_points(cfg):
        bad = check_gmrf_point(cfg, field, precision, base)
        out["n"] += 1
        rows = field if mode != "none" else [field]
        if any(len(set(r)) > 1 for r in rows):
            out["nontrivial"] += 1
        for name, detail in bad:
            out["nviol"] += 1
            if name not in out["viol"]:
                out["viol"][name] = ({"part": "gmrf", "cfg": cfg, "field": field,
                                      "precision": precision}, detail, gmrf_sig(cfg, name))
    return out


# ---------------------------------------------------------------------------------------
# part gint
# ---------------------------------------------------------------------------------------

def shipped_on_grid(make, U, what):
    """Evaluate a shipped density on the whole quadrature grid in one batched call
    (`make(values)` -> numpy array, `values` a list of floats or one float) and confirm on
    three nodes that the batched rows are what single evaluations give."""
    vals = np.exp(U)
    v = make(vals.tolist())
    if v.size != U.size:
        return None, ("batched_over_parameter_shape",
                      f"{what}: {U.size} parameter values gave a result of shape {v.shape}")
    v = v.reshape(-1)
    if np.any(np.isnan(v)) or np.any(v == np.inf):
        k = int(np.where(np.isnan(v) | (v == np.inf))[0][0])
        return None, ("density_not_finite", f"{what}: value {v[k]!r} at parameter {vals[k]!r}")
    fin = np.where(np.isfinite(v))[0]
    k0 = int(fin[np.argmax(v[fin])]) if fin.size else 0
    for k in sorted({k0, max(0, k0 - 37), min(U.size - 1, k0 + 11)}):
        one = make(float(vals[k])).reshape(-1)
        if one.size != 1 or not close(float(v[k]), float(one[0]), TOL_ROW, part="rows"):
            return None, ("batched_over_parameter_inconsistent",
                          f"{what}: row {k} of the batched evaluation is {float(v[k])!r}, the "
                          f"single evaluation at the same parameter {vals[k]!r} gives {one.tolist()}")
    return v, None


def gint_reference(var, base, field):
    """{(shape, rate): log integral} for one field, or an error tuple"""
    def make(taus):
        pt = [[t] for t in taus] if isinstance(taus, list) else [taus]
        g = make_model(base, var, field, pt)
        return _np(g())

    U, h = tau_grid(len(field))
    v, err = shipped_on_grid(make, U, "GMRF over precisions")
    if err:
        return None, err
    out = {}
    for a, b in SHAPE_RATE:
        out[(a, b)] = ref.log_integral(U, v + ref.log_gamma_pdf(U, a, b) + U, h)
    return out, None


def gint_sig(cfg, check, batch):
    s = {"part": "gint", "variant": var_tag(cfg["var"]), "batch": batch, "check": check}
    if cfg["var"]["kind"] == "time":
        s["rescale"] = cfg["var"]["rescale"]
    return s


def check_gint_point(cfg, field, batch, bases=None, refs=None):
    """field: vector (batch 'none') or two vectors ('field', 'tree').  All nine
    (shape, rate) pairs are evaluated.  returns (list of (name, detail), evaluations)"""
    var = cfg["var"]
    if bases is None:
        bases = {w: base_dic(var, cfg["seed"], w) for w in (("a", "b", "ab") if batch == "tree" else ("a",))}
    rows = [field] if batch == "none" else field
    wants = []
    for r, x in enumerate(rows):
        key = (jdump(x), "b" if (batch == "tree" and r == 1) else "a")
        if refs is not None and key in refs:
            got = refs[key]
        else:
            got = gint_reference(var, bases[key[1]], x)
            if refs is not None:
                refs[key] = got
        if got[1]:
            return [got[1]], 0
        wants.append(got[0])
    bad = []
    nev = 0
    for a, b in SHAPE_RATE:
        nev += 1
        try:
            m = make_model(bases["ab" if batch == "tree" else "a"], var, field, integrated=(a, b))
            v = _np(m())
        except Exception as e:
            bad.append(("raises", f"GMRFGammaIntegrated(shape={a}, rate={b}) raised {_err(e)}"))
            break
        if v.size != len(rows):
            bad.append(("shape", f"GMRFGammaIntegrated() has shape {v.shape} for {len(rows)} field(s)"))
            break
        v = v.reshape(-1)
        for r in range(len(rows)):
            if not close(float(v[r]), wants[r][(a, b)], TOL_INT, part="gint"):
                bad.append(("integrated_vs_quadrature",
                            f"row {r}: GMRFGammaIntegrated(shape={a}, rate={b}) = {float(v[r])!r}, log "
                            f"integral of Gamma(tau) x GMRF(x | tau) d tau = {wants[r][(a, b)]!r} "
                            f"(x={rows[r]})"))
                break
        if bad:
            break
    return bad, nev


def gint_points(cfg):
    fields = fields_for(cfg["N"], cfg["lattice_max"], cfg["seed"])
    L = len(fields)
    pts = [(fields[i], "none") for i in range(L)]
    pts += [([fields[i], fields[(i + 1) % L]], "field") for i in range(L)]
    if cfg["var"]["kind"] == "time":
        pts += [([fields[i], fields[(i + 1) % L]], "tree") for i in range(L)]
    return pts


def work_gint(cfg):
    var = cfg["var"]
    bases = {w: base_dic(var, cfg["seed"], w) for w in (("a", "b", "ab") if var["kind"] == "time" else ("a",))}
    refs = {}
    out = {"n": 0, "nontrivial": 0, "viol": {}, "nviol": 0}
    for field, batch in gint_points(cfg):
        bad, nev = check_gint_point(cfg, field, batch, bases, refs)
        out["n"] += nev
        rows = [field] if batch == "none" else field
        if any(len(set(r)) > 1 for r in rows):
            out["nontrivial"] += nev
        for name, detail in bad:
            out["nviol"] += 1
            key = (name, batch)
            if key not in out["viol"]:
                out["viol"][key] = ({"part": "gint", "cfg": cfg, "field": field, "batch": batch},
                                    detail, gint_sig(cfg, name, batch))
    return out


# ---------------------------------------------------------------------------------------
# part cint
# ---------------------------------------------------------------------------------------

def cint_reference(heights):
    import torch
    from torchtree.evolution.coalescent import ConstantCoalescent

    nh = torch.tensor(heights)

    def make(thetas):
        th = torch.tensor([[t] for t in thetas]) if isinstance(thetas, list) else torch.tensor([thetas])
        return _np(ConstantCoalescent(th).log_prob(nh))

    v, err = shipped_on_grid(make, U_THETA, "ConstantCoalescent over population sizes")
    if err:
        return None, err
    out = {}
    for a, b in ALPHA_BETA:
        out[(a, b)] = ref.log_integral(U_THETA, v + ref.log_invgamma_pdf(U_THETA, a, b) + U_THETA, H_THETA)
    return out, None


CINT_ROUTES = ("dist", "dist_shuffled", "tree_front", "tree_last", "dist_batched", "tree_batched")


def cint_value(g, route, a, b):
    """value(s) of the integrated coalescent through one construction route"""
    import torch
    from torchtree.evolution.coalescent import ConstantCoalescentIntegrated

    if route in ("dist", "dist_shuffled"):
        nh = torch.tensor(g.heights("a", shuffled=route == "dist_shuffled"))
        return _np(ConstantCoalescentIntegrated(a, b).log_prob(nh))
    if route == "dist_batched":
        nh = torch.tensor([g.heights("a"), g.heights("b", shuffled=True)])
        return _np(ConstantCoalescentIntegrated(a, b).log_prob(nh))
    which = "ab" if route == "tree_batched" else "a"
    rule = "last" if route == "tree_last" else "front"
    dic = g.load_tree(rule, which)
    tt.load({"id": "coal", "type": "ConstantCoalescentIntegratedModel", "tree_model": "tree",
             "alpha": a, "beta": b}, dic)
    return _np(dic["coal"]())


def check_cint(cfg, routes=None):
    g = Genealogy(cfg["inter"], cfg["ties"], cfg["seed"])
    refs = {}
    for w in ("a", "b"):
        got, err = cint_reference(g.heights(w))
        if err:
            return [(err[0], err[1], "reference")], 0
        refs[w] = got
    bad = []
    nev = 0
    for route in (routes or CINT_ROUTES):
        rows = ["a", "b"] if route.endswith("batched") else ["a"]
        for a, b in ALPHA_BETA:
            nev += 1
            try:
                v = cint_value(g, route, a, b)
            except Exception as e:
                bad.append(("raises", f"route {route} alpha={a} beta={b}: {_err(e)}", route))
                break
            if v.size != len(rows):
                bad.append(("shape", f"route {route}: result of shape {v.shape} for {len(rows)} tree(s)", route))
                break
            v = v.reshape(-1)
            hit = False
            for r, w in enumerate(rows):
                if not close(float(v[r]), refs[w][(a, b)], TOL_INT, part="cint"):
                    bad.append(("integrated_vs_quadrature",
                                f"route {route} row {r}: ConstantCoalescentIntegrated(alpha={a}, beta={b}) = "
                                f"{float(v[r])!r}, log integral of InvGamma(theta) x ConstantCoalescent"
                                f"(T | theta) d theta = {refs[w][(a, b)]!r}  (heights {g.heights(w)})", route))
                    hit = True
                    break
            if hit:
                break
    return bad, nev


def work_cint(cfg):
    bad, nev = check_cint(cfg)
    out = {"n": nev, "nontrivial": nev if nontrivial_inter(cfg["inter"]) else 0, "viol": {}, "nviol": len(bad)}
    for name, detail, route in bad:
        key = (name, route)
        if key not in out["viol"]:
            out["viol"][key] = ({"part": "cint", "cfg": cfg, "route": route}, detail,
                                {"part": "cint", "check": name, "route": route})
    return out


def nontrivial_inter(inter):
    """a coalescence happens before the last sampling (heterochronous in an essential way)
    or there are at least two coalescences"""
    return inter.count("c") >= 2


# ---------------------------------------------------------------------------------------
# part ss
# ---------------------------------------------------------------------------------------

def ss_thetas(K, seed):
    return [gen.generic(K, seed, 0.3, 4.0, salt=30), gen.generic(K, seed, 0.3, 4.0, salt=31)[::-1]]


SS_ROUTES = ("dist", "dist_shuffled", "tree", "data", "b_theta", "b_both", "b_heights", "b_tree")


def ss_eval(cfg, g, grid, route, thetas):
    """returns (ss, counts, log_prob, theta rows, n rows) as numpy arrays; raises what the
    implementation raises"""
    import torch
    from torchtree.evolution.coalescent import PiecewiseConstantCoalescent, PiecewiseConstantCoalescentGrid

    sky = cfg["model"] == "skyride"
    th_a, th_b = thetas
    if route in ("dist", "dist_shuffled", "b_theta", "b_both", "b_heights"):
        if route in ("b_both", "b_heights"):
            nh = torch.tensor([g.heights("a"), g.heights("b", shuffled=True)])
        else:
            nh = torch.tensor(g.heights("a", shuffled=route == "dist_shuffled"))
        if route in ("b_theta", "b_both"):
            th = torch.tensor([th_a, th_b])
        else:
            th = torch.tensor(th_a)
        d = PiecewiseConstantCoalescent(th) if sky else PiecewiseConstantCoalescentGrid(th, torch.tensor(grid))
        lp = d.log_prob(nh)
        ss, c = d.sufficient_statistics(nh)
    else:
        th = [th_a, th_b] if route == "b_tree" else th_a
        spec = {"id": "coal", "theta": P("theta", th),
                "type": "PiecewiseConstantCoalescentModel" if sky else "PiecewiseConstantCoalescentGridModel"}
        if cfg["model"] == "skygrid_cutoff":
            spec["cutoff"] = grid["cutoff"]
        elif not sky:
            spec["grid"] = list(grid)
        if route == "data":
            spec["times"] = list(g.times)
            spec["events"] = [1 if e == "s" else 0 for e in g.inter]
            dic = tt.load(spec)
        else:
            dic = g.load_tree("last", "ab" if route == "b_tree" else "a")
            spec["tree_model"] = "tree"
            tt.load(spec, dic)
        m = dic["coal"]
        lp = m()
        ss, c = m.distribution().sufficient_statistics(m.tree_model.node_heights)
    th_rows = np.array([th_a, th_b]) if route in ("b_theta", "b_both", "b_tree") else np.array([th_a])
    nrows = 2 if route.startswith("b_") else 1
    return _np(ss), _np(c), _np(lp), th_rows, nrows


def check_ss_case(cfg, placement, route, seed_thetas=None):
    """one (interleaving, ties, model, grid placement, route); both theta vectors for the
    unbatched routes.  returns (list of (name, detail), evaluations, nontrivial?, status)"""
    g = Genealogy(cfg["inter"], cfg["ties"], cfg["seed"])
    n = g.n
    sky = cfg["model"] == "skyride"
    if cfg["model"] == "skygrid_cutoff":
        # regular grid built by the model itself from a cut-off: placement = (K, factor)
        K, factor = placement
        grid = {"cutoff": round(factor * g.times[-1], 6)}
        pts = set(np.linspace(0.0, grid["cutoff"], K)[1:].tolist())
        if route not in ("tree", "data", "b_tree"):
            return [], 0, False, "n/a"
    else:
        grid = None if sky else gen.grid_of(g.times, tuple(placement), cfg["seed"])
        pts = set(grid or [])
        K = n - 1 if sky else len(grid) + 1
    if pts & set(g.times + g.times_b):
        raise RuntimeError("harness: grid point on an event")
    th = ss_thetas(K, cfg["seed"])
    tsets = [th] if route.startswith("b_") else [th, th[::-1]]
    bad = []
    nev = 0
    nontriv = False
    for thetas in tsets:
        nev += 1
        try:
            ss, c, lp, th_rows, nrows = ss_eval(cfg, g, grid, route, thetas)
        except Exception as e:
            if route.startswith("b_"):
                return [], nev, False, "raised"  # batched shapes failing loudly is allowed
            return [("raises", f"{_err(e)}")], nev, False, "raised"
        if ss.size != nrows * K or lp.size != nrows or c.size not in (K, nrows * K):
            bad.append(("batched_shape" if nrows > 1 else "shape",
                        f"sufficient_statistics returned shapes {ss.shape} / {c.shape}, log_prob "
                        f"{lp.shape}; expected {nrows} x {K} statistics  (ss={ss.reshape(-1).tolist()}, "
                        f"counts={c.reshape(-1).tolist()})"))
            break
        ss = ss.reshape(nrows, K)
        c = np.broadcast_to(c.reshape(-1, K), (nrows, K))
        lp = lp.reshape(nrows)
        for r in range(nrows):
            t1 = ss[r] / th_rows[r]
            t2 = c[r] * np.log(th_rows[r])
            val = -math.fsum(t1.tolist()) - math.fsum(t2.tolist())
            scale = math.fsum(np.abs(t1).tolist()) + math.fsum(np.abs(t2).tolist())
            if not close(val, float(lp[r]), TOL_SS, scale, part="ss"):
                bad.append(("density_from_statistics",
                            f"row {r}: -sum ss/theta - sum c log(theta) = {val!r}, log_prob = {float(lp[r])!r}  "
                            f"(ss={ss[r].tolist()}, counts={c[r].tolist()}, theta={th_rows[r].tolist()}, "
                            f"times={g.times if r == 0 else g.times_b}, grid={grid})"))
                break
            if abs(float(np.sum(c[r])) - (n - 1)) > 0:
                bad.append(("count_total", f"row {r}: coalescent counts {c[r].tolist()} sum to "
                                           f"{float(np.sum(c[r]))}, tree has {n - 1} coalescences"))
                break
            if np.count_nonzero(ss[r]) >= 2:
                nontriv = True
        if bad:
            break
    return bad, nev, nontriv, "ok"


def ss_sig(cfg, route, name):
    return {"part": "ss", "model": cfg["model"].split("_")[0], "route": route, "check": name}


def ss_placements(cfg):
    if cfg["model"] == "skyride":
        return [()]
    if cfg["model"] == "skygrid_cutoff":
        return [(K, f) for K in (2, 3, 5) for f in (0.6, 1.4)]
    g = Genealogy(cfg["inter"], cfg["ties"], cfg["seed"])
    pl = gen.grid_placements(g.times, cfg["G"])
    assert len(pl) == gen.n_multisets(len(gen.positive_gaps(g.times)), cfg["G"]), "placement count"
    return pl


def ss_routes(cfg, k):
    """all routes on every placement for the distribution itself; the model-level and
    batched routes on every placement too (they are cheap)"""
    return SS_ROUTES


def work_ss(cfg):
    out = {"n": 0, "nontrivial": 0, "viol": {}, "nviol": 0, "raised": {}, "placements": 0}
    for k, placement in enumerate(ss_placements(cfg)):
        out["placements"] += 1
        for route in ss_routes(cfg, k):
            bad, nev, nontriv, status = check_ss_case(cfg, placement, route)
            out["n"] += nev
            if nontriv:
                out["nontrivial"] += nev
            if status == "raised":
                out["raised"][route] = out["raised"].get(route, 0) + 1
            for name, detail in bad:
                out["nviol"] += 1
                key = (name, route)
                if key not in out["viol"]:
                    out["viol"][key] = ({"part": "ss", "cfg": cfg, "placement": list(placement), "route": route},
                                        detail, ss_sig(cfg, route, name))
    return out


# ---------------------------------------------------------------------------------------
# driver
# ---------------------------------------------------------------------------------------

WORK = {"gmrf": work_gmrf, "gint": work_gint, "cint": work_cint, "ss": work_ss}


def _work(chunk):
    _ERR.clear()
    res = [(kind, cfg, WORK[kind](cfg)) for kind, cfg in chunk]
    return res, dict(_ERR)


def self_test():
    """the quadrature against mpmath on closed-form integrands (harness check)"""
    worst = 0.0
    for n, ssq, a, b in ((2, 0.0, 0.001, 0.001), (2, 2.25, 0.001, 2.0), (5, 13.5, 0.5, 0.5),
                         (8, 40.0, 2.0, 0.001), (50, 300.0, 0.001, 0.5)):
        U, h = tau_grid(n)
        v = 0.5 * (n - 1) * U - 0.5 * ssq * np.exp(U) - 0.5 * (n - 1) * ref.LOG_2PI
        mine = ref.log_integral(U, v + ref.log_gamma_pdf(U, a, b) + U, h)
        theirs = ref.mp_log_integral_gamma_gmrf(ssq, n, a, b)
        worst = max(worst, abs(mine - theirs) / max(1.0, abs(theirs)))
    for k, tot, a, b in ((1, 0.3, 0.001, 0.003), (1, 5.0, 3.0, 2.0), (4, 17.0, 0.5, 0.5), (6, 120.0, 2.0, 0.003)):
        v = -k * U_THETA - tot * np.exp(-U_THETA)
        mine = ref.log_integral(U_THETA, v + ref.log_invgamma_pdf(U_THETA, a, b) + U_THETA, H_THETA)
        theirs = ref.mp_log_integral_invgamma_coalescent(tot, k, a, b)
        worst = max(worst, abs(mine - theirs) / max(1.0, abs(theirs)))
    if worst > 1e-11:
        raise RuntimeError(f"harness: trapezoid quadrature and mpmath disagree ({worst:.2e})")
    return worst


def run(run):
    qerr = self_test()
    seed = run.seed
    items = gmrf_items(run.tier, seed) + gint_items(run.tier, seed) + cint_items(run.tier, seed) \
        + ss_items(run.tier, seed)
    # interleave cheap and expensive items for balance
    order = sorted(range(len(items)), key=lambda i: (i * 7919) % len(items))
    items = [items[i] for i in order]
    res = pmap(_work, chunked(items, 16 * 12))
    per = {k: {"items": 0, "evaluations": 0, "nontrivial": 0, "failing": 0} for k in WORK}
    raised = {}
    placements = 0
    samples = {}
    maxerr = {}
    for chunk, errs in res:
        for k, v in errs.items():
            maxerr[k] = max(maxerr.get(k, 0.0), v)
        for kind, cfg, out in chunk:
            p = per[kind]
            p["items"] += 1
            p["evaluations"] += out["n"]
            p["nontrivial"] += out["nontrivial"]
            p["failing"] += out["nviol"]
            placements += out.get("placements", 0)
            for r, k in out.get("raised", {}).items():
                raised[r] = raised.get(r, 0) + k
            samples.setdefault(kind, cfg)
            for case, detail, sig in out["viol"].values():
                run.violation(case, detail, sig)
    b = bounds(run.tier)
    # closed-form size of the gmrf part: sum over N, variants, modes of |fields| x 3
    expect = 0
    for kind, cfg in items:
        if kind == "gmrf":
            L = 3 ** cfg["N"] if cfg["N"] <= cfg["lattice_max"] else 5
            expect += 3 * L
    if expect != per["gmrf"]["evaluations"]:
        raise RuntimeError(f"harness: gmrf part evaluated {per['gmrf']['evaluations']} points, space has {expect}")
    cov = {
        "evaluations": sum(p["evaluations"] for p in per.values()),
        "distinct_nontrivial": sum(p["nontrivial"] for p in per.values()),
        "rule": "gmrf: every (N, variant, batch mode) x field lattice {-1,0.5,2}^N (N<=lattice_max, else 5 "
                "generic fields) x precision {0.1,1,10}; gint: same variants x fields x 9 (shape,rate) x "
                "{single, field-batched, tree-batched}; cint: every interleaving x sampling-tie mode x 12 "
                "(alpha,beta) x 6 construction routes; ss: every interleaving x tie mode x every multiset "
                "placement of G grid points in the gaps/beyond the root x 8 routes x theta vectors. "
                "non-trivial = non-constant field (gmrf, gint), >= 2 coalescences (cint), >= 2 non-zero "
                "statistics (ss); each enumerated case is distinct by construction",
        "samples": [{"part": k, "cfg": samples[k]} for k in sorted(samples)],
        "exhaustive": True,
        "per_part": per,
        "grid_placements": placements,
        "batched_routes_that_raised": raised,
        "bounds": b,
        "quadrature_vs_mpmath_max_rel": qerr,
        "max_error_among_passing_comparisons": maxerr,
        "tolerances": {"gmrf": TOL_Q, "integrated": TOL_INT, "sufficient_statistics": TOL_SS},
    }
    return run.finish(cov, assumptions=[
        "continuous values (fields, precisions, weights, event times, grid positions, thetas) on the stated "
        "lattices / generic points only; VERIF_SEED moves the generic points, never the discrete space",
        "field lengths above the listed N, genealogies above the listed tip counts are not explored",
        "normalisation of the GMRF is the documented one, (N-1)/2 log(tau) - (N-1)/2 log(2 pi), for all variants",
        "ties between a coalescent event and a grid point / sampling event are excluded (measure zero, order "
        "undefined); ties among sampling events are included",
        "a batched shape combination that raises is accepted (fails loudly); one that returns numbers must "
        "return the per-row values",
        f"tolerances: GMRF vs quadratic form {TOL_Q} (observed <= 1e-13), integrated priors {TOL_INT} "
        f"(observed <= 1e-12), sufficient statistics {TOL_SS} of the sum of |terms| (observed <= 1e-15)",
        "integrals: log-domain trapezoid rule over log(scale), step h and h/2 (h <= 0.25, following the width of "
        "the integrand) agreeing to 1e-11 and tails below e^-40 of the mode, otherwise the harness fails; "
        "cross-checked against mpmath.quad at 30 digits on closed-form integrands every run",
    ])


def replay(case):
    part = case["part"]
    out = []
    if part == "gmrf":
        for name, detail in check_gmrf_point(case["cfg"], case["field"], case["precision"]):
            out.append({"case": case, "detail": detail, "sig": gmrf_sig(case["cfg"], name)})
    elif part == "gint":
        bad, _ = check_gint_point(case["cfg"], case["field"], case["batch"])
        for name, detail in bad:
            out.append({"case": case, "detail": detail, "sig": gint_sig(case["cfg"], name, case["batch"])})
    elif part == "cint":
        bad, _ = check_cint(case["cfg"], routes=[case["route"]] if case["route"] != "reference" else None)
        for name, detail, route in bad:
            out.append({"case": case, "detail": detail,
                        "sig": {"part": "cint", "check": name, "route": route}})
    else:
        bad, _, _, _ = check_ss_case(case["cfg"], case["placement"], case["route"])
        for name, detail in bad:
            out.append({"case": case, "detail": detail, "sig": ss_sig(case["cfg"], case["route"], name)})
    return out
