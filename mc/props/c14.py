"""C14 - variational objectives are exact at the true posterior.

Space.  Conjugate models built from the shipped distribution wrappers
(gamma-exponential, gamma-Poisson, normal-normal, beta-binomial, each also behind a
constraining transform with its Jacobian in the joint; a log-normal model whose
unconstrained coordinate has a normal posterior - the form `torchtree-cli advi` emits;
a 2-d multivariate normal in three parameterisations, with a single and with a
concatenated latent parameter; a product of two blocks with a mean-field q)
x 3 hyper-parameter points x 3 data sets
x the forms of q the library produces (JointDistributionModel of Distributions,
  torchtree MultivariateNormal bare and inside a joint, and - separately keyed -
  a bare Distribution)
x objectives {ELBO, ELBO with analytic entropy, multi-sample ELBO, VR alpha in {0, .5, 2},
  CUBO n in {1, 2}, KLpq} x sample shapes [S] and [S, K]
x construction route {JSON specification through the loader, Python constructors with
  anonymous (id None) objects as the repository's tests build them}
x EVERY assignment of menu values to the S*K*dim base draws (the draws are the
  environment: torch's rsample/sample of Normal, Gamma, Beta and MultivariateNormal are
  replaced by a scripted source for the duration of a case).

Each objective is invoked twice in a row the way `Optimizer._run` does it: the
variational parameters fire a change event, then the objective is called - first as the
convergence monitor does (`samples=` keyword, under no_grad), then as the optimisation
loop does (parameters require gradients, plain call) - with different scripted draws.

Oracle (mc/oracle/conjugate.py, plain math/numpy/mpmath): with q set to the closed-form
posterior every objective must return the closed-form log marginal likelihood for every
draw assignment (1e-9).  The analytic-entropy ELBO is exact only in expectation: its
value must equal  logZ + mean_s log post(theta_s) + H[post]  at the draws actually made,
and its average over the complete {-1,+1}^n assignment set must equal logZ for the
normal models (a two-point rule integrates a quadratic exactly).  Further: every
evaluation request draws again (`fresh`), with the requested sample shape
(`sample_shape`), the draws are what the shared parameters hold afterwards (`written`),
and the last evaluation of the model joint and of q inside the request happened at
exactly those values and returned the oracle's densities (`pairing`)."""
import contextlib
import itertools
import math

import numpy as np

from mc.env import tt
from mc.oracle import conjugate as cj
from mc.runner import jdump, pmap

LEVEL = "exploration"
TOL = 1e-9          # objective value / densities vs closed form (property: exact equality)
TOL_WRITTEN = 1e-12  # value held by the shared parameter vs the scripted draw

# menus: first two entries of the normal menu are the two-point rule {-1, +1}
MENU = {
    "normal": [-1.0, 1.0, 0.3],
    "gamma": [0.5, 1.9, 1.0],   # multiples of the distribution's mean
    "beta": [0.2, 0.9, 0.5],    # the draw itself
}


def P(id_, v):
    return {"id": id_, "type": "Parameter", "tensor": v}


def dist(id_, name, x, params):
    return {"id": id_, "type": "Distribution", "distribution": "torch.distributions." + name,
            "x": x, "parameters": params}


def joint(id_, members):
    return {"id": id_, "type": "JointDistributionModel", "distributions": members}


def transformed(id_, transform, x, params=None):
    d = {"id": id_, "type": "TransformedParameter",
         "transform": "torch.distributions." + transform, "x": x}
    if params:
        d["parameters"] = params
    return d


def jit(seed, k):
    """continuous lattice offset (the only thing VERIF_SEED moves)"""
    return 1.0 + 0.01 * ((seed * 37 + k * 11) % 17)


# -- lattices ------------------------------------------------------------------

GAMMA_H = [(2.0, 3.0), (0.7, 0.4), (5.5, 1.3)]
EXP_D = [[0.5], [0.5, 1.5], [0.3, 2.2, 0.9]]
POIS_D = [[3.0], [0.0, 4.0], [2.0, 7.0, 1.0]]
NORM_H = [(0.3, 1.2, 0.8), (-1.5, 0.6, 2.0), (2.0, 3.0, 0.5)]
NORM_D = [[0.7], [-0.4, 1.9], [1.1, 0.2, -2.3]]
BETA_H = [(2.0, 3.0), (0.6, 0.8), (4.5, 1.2)]
BIN_D = [([5.0], [2.0]), ([3.0, 7.0], [0.0, 7.0]), ([4.0, 6.0, 2.0], [1.0, 5.0, 2.0])]
AFFINE = [(0.5, 2.0), (-1.0, 0.5), (2.0, -1.5)]
MVN_H = [([0.3, -0.7], [[1.5, 0.6], [0.6, 0.9]], (0.8, 1.7)),
         ([-1.2, 2.0], [[0.5, -0.3], [-0.3, 2.0]], (2.0, 0.6)),
         ([2.5, 0.4], [[3.0, 1.1], [1.1, 0.7]], (0.5, 1.1))]
MVN_D1 = [[[0.7], [-0.2]], [[-1.4], [1.9]], [[2.2], [0.4]]]
MVN_DN = [[[0.7], [-0.2]], [[0.7, 1.4], [-0.2]], [[0.7, 1.4, -0.5], [-0.2, 0.9]]]


class Config:
    """Everything one (pair, qform, hyper, data, seed) point needs."""

    def __init__(self, key):
        self.key = key
        self.spec = []
        self.q_id = None
        self.var_ids = []      # variational parameters (fired before each call)
        self.comps = []        # q components in sampling order: (kind, width, [(base id, transform)])
        self.oracle = None
        self.layout = "scalar"  # scalar | vector | product
        self.normal_family = False
        self.has_entropy = True


def _gamma_q(cfg, qform, x, pa, pb, tag=""):
    pa = list(pa) if isinstance(pa, (list, tuple)) else [pa]
    pb = list(pb) if isinstance(pb, (list, tuple)) else [pb]
    if qform == "bare":
        conc, rate = P("q.a" + tag, pa), P("q.b" + tag, pb)
        cfg.var_ids += ["q.a" + tag, "q.b" + tag]
    else:  # the CLI form: positive variational parameters behind an exp transform
        conc = transformed("q.a" + tag, "ExpTransform",
                           P("q.a.unres" + tag, [math.log(v) for v in pa]))
        rate = transformed("q.b" + tag, "ExpTransform",
                           P("q.b.unres" + tag, [math.log(v) for v in pb]))
        cfg.var_ids += ["q.a.unres" + tag, "q.b.unres" + tag]
    return dist("q.d" + tag, "Gamma", x, {"concentration": conc, "rate": rate})


def _normal_q(cfg, qform, x, loc, scale, tag=""):
    locp = P("q.loc" + tag, [loc])
    cfg.var_ids.append("q.loc" + tag)
    if qform == "bare":
        scalep = P("q.scale" + tag, [scale])
        cfg.var_ids.append("q.scale" + tag)
    else:
        scalep = transformed("q.scale" + tag, "ExpTransform",
                             P("q.scale.unres" + tag, [math.log(scale)]))
        cfg.var_ids.append("q.scale.unres" + tag)
    return dist("q.d" + tag, "Normal", x, {"loc": locp, "scale": scalep})


def _beta_q(cfg, qform, x, pa, pb, tag=""):
    cfg.var_ids += ["q.a" + tag, "q.b" + tag]
    return dist("q.d" + tag, "Beta", x,
                {"concentration1": P("q.a" + tag, [pa]), "concentration0": P("q.b" + tag, [pb])})


def _model(cfg, terms, jac=(), priors=None):
    """The model joint.  Without Jacobian terms a flat joint; with them the nested shape
    `torchtree-cli` emits: joint.jacobian = [joint = [likelihoods..., prior joint], jacobians]."""
    if priors:
        terms = list(terms) + [joint("prior", list(priors))]
    if jac:
        cfg.spec.append(joint("joint", [joint("joint.inner", list(terms))] + list(jac)))
    else:
        cfg.spec.append(joint("joint", list(terms)))


def _finish_q(cfg, qform, members):
    """members: list of q component specs (+ ids of Jacobian parameters)"""
    if qform == "bare":
        assert len(members) == 1
        cfg.spec.append(members[0])
        cfg.q_id = members[0]["id"]
    else:
        cfg.spec.append(joint("q", members))
        cfg.q_id = "q"


PAIRS = {
    # pair: list of q forms
    "gamma_exp": ["joint", "bare"],
    "gamma_poisson": ["joint", "bare"],
    "normal_normal": ["joint", "bare"],
    "beta_binomial": ["joint", "bare"],
    "gamma_exp_exp": ["joint-jac"],
    "beta_binomial_sigmoid": ["joint-jac"],
    "lognormal_exp": ["joint", "bare"],
    "normal_affine": ["joint", "bare"],
    "mvn_cov": ["mvn", "joint-mvn"],
    "mvn_prec": ["mvn", "joint-mvn"],
    "mvn_tril": ["mvn", "joint-mvn"],
    "mvn_cat": ["mvn", "joint-mvn"],
    "product": ["joint"],
    "gamma_exp_vec": ["joint"],
}
TWO_D = ("mvn_cov", "mvn_prec", "mvn_tril", "mvn_cat", "product", "gamma_exp_vec")


def build_config(pair, qform, hi, di, seed):
    cfg = Config({"pair": pair, "qform": qform, "hyper": hi, "data": di, "seed": seed})
    j1, j2, j3 = jit(seed, 1 + hi), jit(seed, 5 + di), jit(seed, 9 + hi + di)

    if pair in ("gamma_exp", "gamma_poisson", "gamma_exp_exp"):
        a, b = GAMMA_H[hi][0] * j1, GAMMA_H[hi][1] * j3
        tr = cj.Exp() if pair == "gamma_exp_exp" else None
        if pair == "gamma_poisson":
            y = list(POIS_D[di])
            cfg.oracle = cj.GammaPoisson(a, b, y, tr)
            like_name, like_par = "Poisson", "rate"
        else:
            y = [v * j2 for v in EXP_D[di]]
            cfg.oracle = cj.GammaExponential(a, b, y, tr)
            like_name, like_par = "Exponential", "rate"
        if tr is None:
            theta = P("theta", [0.7])
            base = [("theta", None)]
            members = []
        else:
            theta = transformed("theta", "ExpTransform", P("z", [math.log(0.7)]))
            base = [("z", "exp")]
            members = ["theta"]
            cfg.has_entropy = False
        _model(cfg, [dist("like", like_name, P("y", y), {like_par: theta}),
                     dist("prior", "Gamma", "theta", {"concentration": a, "rate": b})], members)
        o = cfg.oracle
        _finish_q(cfg, qform, [_gamma_q(cfg, qform, "theta", o.pa, o.pb)] + members)
        cfg.comps = [("gamma", 1, base)]

    elif pair in ("beta_binomial", "beta_binomial_sigmoid"):
        a, b = BETA_H[hi][0] * j1, BETA_H[hi][1] * j3
        N, k = BIN_D[di]
        tr = cj.Sigmoid() if pair.endswith("sigmoid") else None
        cfg.oracle = cj.BetaBinomial(a, b, N, k, tr)
        if tr is None:
            prob = P("p", [0.4])
            base = [("p", None)]
            members = []
        else:
            prob = transformed("p", "SigmoidTransform", P("z", [-0.3]))
            base = [("z", "sigmoid")]
            members = ["p"]
            cfg.has_entropy = False
        _model(cfg, [dist("like", "Binomial", P("k", list(k)), {"total_count": list(N), "probs": prob}),
                     dist("prior", "Beta", "p", {"concentration1": a, "concentration0": b})], members)
        o = cfg.oracle
        _finish_q(cfg, qform, [_beta_q(cfg, qform, "p", o.pa, o.pb)] + members)
        cfg.comps = [("beta", 1, base)]

    elif pair in ("normal_normal", "normal_affine"):
        m0, s0, sg = NORM_H[hi][0] * j1, NORM_H[hi][1] * j3, NORM_H[hi][2] * j1
        y = [v * j2 for v in NORM_D[di]]
        cfg.normal_family = True
        if pair == "normal_affine":
            loc, scale = AFFINE[hi]
            tr = cj.Affine(loc, scale)
            cfg.oracle = cj.NormalNormal(m0, s0, sg, y, tr)
            mu = transformed("mu", "AffineTransform", P("z", [0.1]), {"loc": loc, "scale": scale})
            members = ["mu"]
            xq, base = "z", [("z", "affine")]
        else:
            cfg.oracle = cj.NormalNormal(m0, s0, sg, y)
            mu = P("mu", [0.1])
            members = []
            xq, base = "mu", [("mu", None)]
        _model(cfg, [dist("like", "Normal", P("y", y), {"loc": mu, "scale": sg}),
                     dist("prior", "Normal", "mu", {"loc": m0, "scale": s0})], members)
        bl, bs = cfg.oracle.base_loc_scale()
        _finish_q(cfg, qform, [_normal_q(cfg, qform, xq, bl, bs)])
        cfg.comps = [("normal", 1, base)]

    elif pair == "lognormal_exp":
        m0, s0, sg = NORM_H[hi][0] * j1, NORM_H[hi][1] * j3, NORM_H[hi][2] * j1
        y = [v * j2 for v in NORM_D[di]]
        cfg.normal_family = True
        cfg.oracle = cj.LogNormalExp(m0, s0, sg, y)
        theta = transformed("theta", "ExpTransform", P("z", [0.1]))
        _model(cfg, [dist("prior", "LogNormal", theta, {"loc": m0, "scale": s0}),
                     dist("like", "Normal", P("y", y), {"loc": "z", "scale": sg})], ["theta"])
        bl, bs = cfg.oracle.base_loc_scale()
        _finish_q(cfg, qform, [_normal_q(cfg, qform, "z", bl, bs)])
        cfg.comps = [("normal", 1, [("z", "exp")])]

    elif pair.startswith("mvn"):
        m0, S0, sig = MVN_H[hi]
        m0 = [v * j1 for v in m0]
        S0 = [[v * j3 for v in row] for row in S0]
        sig = [s * j1 for s in sig]
        cfg.normal_family = True
        cfg.layout = "vector"
        if pair == "mvn_cat":
            ys = [[v * j2 for v in y] for y in MVN_DN[di]]
            x_prior = [P("mu1", [0.1]), P("mu2", [0.2])]
            likes = [dist("like1", "Normal", P("y1", ys[0]), {"loc": "mu1", "scale": sig[0]}),
                     dist("like2", "Normal", P("y2", ys[1]), {"loc": "mu2", "scale": sig[1]})]
            xq = ["mu1", "mu2"]
            base = [("mu1", None), ("mu2", None)]
            par = "scale_tril"
        else:
            ys = [[v * j2 for v in y] for y in MVN_D1[di]]
            x_prior = P("mu", [0.1, 0.2])
            likes = [dist("like", "Normal", P("y", [ys[0][0], ys[1][0]]),
                          {"loc": "mu", "scale": list(sig)})]
            xq = "mu"
            base = [("mu", None)]
            par = {"mvn_cov": "covariance_matrix", "mvn_prec": "precision_matrix",
                   "mvn_tril": "scale_tril"}[pair]
        cfg.oracle = cj.MVNormalDiag(m0, S0, sig, ys)
        prior = {"id": "prior", "type": "MultivariateNormal", "x": x_prior,
                 "parameters": {"loc": P("m0", m0), "covariance_matrix": P("S0", S0)}}
        _model(cfg, [prior] + likes)
        o = cfg.oracle
        if par == "covariance_matrix":
            mat = o.pcov
        elif par == "precision_matrix":
            mat = np.linalg.inv(o.pcov)
            mat = 0.5 * (mat + mat.T)
        else:
            mat = np.linalg.cholesky(o.pcov)
        q = {"id": "q.d", "type": "MultivariateNormal", "x": xq,
             "parameters": {"loc": P("q.loc", o.pm.tolist()), par: P("q.par", mat.tolist())}}
        cfg.var_ids += ["q.loc", "q.par"]
        if qform == "mvn":
            cfg.spec.append(q)
            cfg.q_id = "q.d"
        else:
            cfg.spec.append(joint("q", [q]))
            cfg.q_id = "q"
        cfg.comps = [("mvn", 2, base)]

    elif pair == "product":
        a, b = GAMMA_H[hi][0] * j1, GAMMA_H[hi][1] * j3
        k = list(POIS_D[di])
        m0, s0, sg = NORM_H[hi][0] * j1, NORM_H[hi][1] * j3, NORM_H[hi][2] * j1
        y = [v * j2 for v in NORM_D[di]]
        loc, scale = AFFINE[hi]
        o1 = cj.GammaPoisson(a, b, k)
        o2 = cj.NormalNormal(m0, s0, sg, y, cj.Affine(loc, scale))
        cfg.oracle = cj.Product([o1, o2])
        cfg.layout = "product"
        mu = transformed("mu", "AffineTransform", P("z", [0.1]), {"loc": loc, "scale": scale})
        _model(cfg, [dist("like1", "Poisson", P("k", k), {"rate": P("theta", [0.7])}),
                     dist("like2", "Normal", P("y", y), {"loc": mu, "scale": sg})], ["mu"],
               priors=[dist("prior1", "Gamma", "theta", {"concentration": a, "rate": b}),
                       dist("prior2", "Normal", "mu", {"loc": m0, "scale": s0})])
        bl, bs = o2.base_loc_scale()
        _finish_q(cfg, qform, [_gamma_q(cfg, qform, "theta", o1.pa, o1.pb, ".1"),
                               _normal_q(cfg, qform, "z", bl, bs, ".2")])
        cfg.comps = [("gamma", 1, [("theta", None)]), ("normal", 1, [("z", "affine")])]
    elif pair == "gamma_exp_vec":
        # two independent rates held by ONE parameter of length 2 (one observation each)
        blocks, aa, bb, yy = [], [], [], []
        for j in range(2):
            a = GAMMA_H[(hi + j) % 3][0] * j1
            b = GAMMA_H[(hi + j) % 3][1] * j3
            yj = EXP_D[(di + j) % 3][0] * j2 * (1.0 + 0.37 * j)
            blocks.append(cj.GammaExponential(a, b, [yj]))
            aa.append(a)
            bb.append(b)
            yy.append(yj)
        cfg.oracle = cj.Product(blocks)
        cfg.layout = "vector"
        _model(cfg, [dist("like", "Exponential", P("y", yy), {"rate": P("theta", [0.7, 0.9])}),
                     dist("prior", "Gamma", "theta", {"concentration": aa, "rate": bb})])
        _finish_q(cfg, qform, [_gamma_q(cfg, qform, "theta", [o.pa for o in blocks],
                                        [o.pb for o in blocks])])
        cfg.comps = [("gamma", 2, [("theta", None)])]
    else:
        raise ValueError(pair)
    return cfg


# q components that sample the BASE coordinate directly (normal on z): the draw recorded
# by the scripted source is then already the base value and the constrained value is its
# image; components that sample the constrained coordinate (gamma on theta = exp(z)) write
# through the TransformedParameter setter.

def _constrained_from_base(kind, z, cfg):
    if kind == "exp":
        return math.exp(z)
    if kind == "affine":
        t = cfg.oracle.transform if not isinstance(cfg.oracle, cj.Product) else cfg.oracle.blocks[1].transform
        return t.loc + t.scale * z
    raise ValueError(kind)


# -- objectives and shapes -------------------------------------------------------

def objectives():
    out = [("ELBO", {"type": "ELBO"}),
           ("ELBO-entropy", {"type": "ELBO", "entropy": True})]
    for alpha in (0.0, 0.5, 2.0):
        out.append(("VR", {"type": "VR", "alpha": alpha}))
    for n in (1.0, 2.0):
        out.append(("CUBO", {"type": "CUBO", "n": n}))
    out.append(("KLpq", {"type": "KLpq"}))
    return out


def shapes(tier):
    s = [[1], [2], [3], [1, 1], [1, 2], [2, 1], [2, 2]]
    if tier == "thorough":
        s += [[4], [1, 3], [3, 1], [2, 3], [3, 2]]
    return s


def lattice_point(tier, pair, hi, di):
    """quick: the diagonal of the 3 x 3 hyper x data lattice; thorough: diagonal +
    anti-diagonal for the one-dimensional pairs, the diagonal for the two-dimensional families"""
    if tier == "quick" or pair in TWO_D:
        return hi == di
    return hi == di or hi + di == 2


def api_point(tier, hi, di):
    """lattice point at which the anonymous Python-API construction route is explored too"""
    return hi == di == 0


def menu_size(nslots, tier):
    if tier == "thorough":
        if 3 ** nslots <= 243:
            return 3
        return 2 if 2 ** nslots <= 512 else 0
    if 3 ** nslots <= 81:
        return 3
    return 2 if 2 ** nslots <= 64 else 0


def shape_class(shape):
    if len(shape) == 1:
        return "S"
    return "1K" if shape[0] == 1 else "SK"


def nslots(cfg, shape):
    return int(np.prod(shape)) * sum(w for _, w, _ in cfg.comps)


# -- scripted randomness ---------------------------------------------------------

class Env:
    def __init__(self):
        self.assign = [0]
        self.pos = 0
        self.log = []
        self.overdrawn = False

    def begin(self, assign):
        self.assign = list(assign)
        self.pos = 0
        self.log = []
        self.overdrawn = False

    def take(self, kind, shape):
        import torch

        n = int(np.prod(shape)) if len(shape) else 1
        idx = []
        for _ in range(n):
            if self.pos >= len(self.assign):
                self.overdrawn = True
            idx.append(self.assign[self.pos % len(self.assign)])
            self.pos += 1
        menu = MENU[kind]
        return torch.tensor([menu[i] for i in idx], dtype=torch.float64).reshape(tuple(shape))

    def record(self, kind, sample_shape, x):
        self.log.append((kind, tuple(int(s) for s in sample_shape), x.detach().clone()))


@contextlib.contextmanager
def scripted(env):
    """Replace the sampling entry points of the torch distributions the variational
    families use by the scripted source (torch is not under test)."""
    import torch
    import torch.distributions as D

    saved = [(D.Normal, "rsample", D.Normal.__dict__["rsample"]),
             (D.Normal, "sample", D.Normal.__dict__["sample"]),
             (D.Gamma, "rsample", D.Gamma.__dict__["rsample"]),
             (D.Beta, "rsample", D.Beta.__dict__["rsample"]),
             (D.MultivariateNormal, "rsample", D.MultivariateNormal.__dict__["rsample"])]

    def normal_rsample(self, sample_shape=torch.Size()):
        shape = self._extended_shape(sample_shape)
        x = self.loc + env.take("normal", shape) * self.scale
        env.record("normal", sample_shape, x)
        return x

    def normal_sample(self, sample_shape=torch.Size()):
        with torch.no_grad():
            return normal_rsample(self, sample_shape)

    def gamma_rsample(self, sample_shape=torch.Size(), generator=None):
        shape = self._extended_shape(sample_shape)
        x = (self.concentration / self.rate).expand(shape) * env.take("gamma", shape)
        env.record("gamma", sample_shape, x)
        return x

    def beta_rsample(self, sample_shape=()):
        shape = self._extended_shape(sample_shape)
        x = env.take("beta", shape) + 0.0 * (self.concentration1 + self.concentration0)
        env.record("beta", sample_shape, x)
        return x

    def mvn_rsample(self, sample_shape=torch.Size()):
        shape = self._extended_shape(sample_shape)
        eps = env.take("normal", shape)
        x = self.loc + (self.scale_tril @ eps.unsqueeze(-1)).squeeze(-1)
        env.record("mvn", sample_shape, x)
        return x

    D.Normal.rsample = normal_rsample
    D.Normal.sample = normal_sample
    D.Gamma.rsample = gamma_rsample
    D.Beta.rsample = beta_rsample
    D.MultivariateNormal.rsample = mvn_rsample
    try:
        yield env
    finally:
        for cls, name, fn in saved:
            setattr(cls, name, fn)


# -- construction routes --------------------------------------------------------------

def build_api(spec):
    """Second construction route: the same specification built through the Python
    constructors with anonymous objects (id None everywhere), the way the repository's own
    tests build models.  Returns {spec id: object}."""
    import torch
    from torchtree.core.parameter import Parameter, TransformedParameter
    from torchtree.distributions.distributions import Distribution
    from torchtree.distributions.joint_distribution import JointDistributionModel
    from torchtree.distributions.multivariate_normal import MultivariateNormal
    from torchtree.variational.chi import CUBO
    from torchtree.variational.kl import ELBO, KLpq
    from torchtree.variational.renyi import VR

    reg = {}

    def klass(path):
        assert path.startswith("torch.distributions.")
        return getattr(torch.distributions, path.split(".")[-1])

    def samples_of(d):
        s = d.get("samples", 1)
        return torch.Size(s) if isinstance(s, list) else torch.Size((s,))

    def obj(d):
        if isinstance(d, str):
            return reg[d]
        if isinstance(d, list):
            return [obj(e) for e in d]
        t = d["type"]
        if t == "Parameter":
            o = Parameter(None, torch.tensor(d["tensor"], dtype=torch.float64))
        elif t == "TransformedParameter":
            x = obj(d["x"])
            o = TransformedParameter(None, x, klass(d["transform"])(**d.get("parameters", {})))
        elif t == "Distribution":
            x = obj(d["x"])
            params = {}
            for name, v in d["parameters"].items():
                if isinstance(v, (int, float)) or (isinstance(v, list)):
                    params[name] = Parameter(None, torch.tensor(v, dtype=torch.float64))
                else:
                    params[name] = obj(v)
            o = Distribution(None, klass(d["distribution"]), x, params)
        elif t == "JointDistributionModel":
            o = JointDistributionModel(None, [obj(m) for m in d["distributions"]])
        elif t == "MultivariateNormal":
            x = obj(d["x"])
            kw = {k: obj(v) for k, v in d["parameters"].items()}
            o = MultivariateNormal(None, x, kw.pop("loc"), **kw)
        elif t == "ELBO":
            o = ELBO(None, obj(d["variational"]), obj(d["joint"]), samples_of(d),
                     entropy=d.get("entropy", False))
        elif t == "KLpq":
            o = KLpq(None, obj(d["variational"]), obj(d["joint"]), samples_of(d))
        elif t == "VR":
            o = VR(None, obj(d["variational"]), obj(d["joint"]), samples_of(d), d.get("alpha", 0.0))
        elif t == "CUBO":
            o = CUBO(None, obj(d["variational"]), obj(d["joint"]), samples_of(d),
                     torch.tensor(d.get("n", 2.0)))
        else:
            raise ValueError(t)
        reg[d["id"]] = o
        return o

    for d in spec:
        obj(d)
    return reg


ROUTES = ("json", "api")


# -- one case ----------------------------------------------------------------------

def _close(a, b, tol):
    return abs(a - b) <= tol * max(1.0, abs(b))


def second_assignment(assign, m):
    return [(i + 1) % m for i in assign]


def run_assignment(cfg, oname, ospec, shape, assign, m, route="json", ctor="same"):
    """Build a fresh graph, invoke the objective twice; returns (bad, values, maxdev)
    where bad is a list of (check, detail)."""
    import torch

    bad = []
    values = []
    maxdev = 0.0
    N = int(np.prod(shape))
    env = Env()
    state0 = None
    with scripted(env):
        torch.default_generator.manual_seed(20140)
        state0 = torch.default_generator.get_state()
        try:
            # ctor == "decoy": the objective is constructed with another sample shape and the shape
            # under test is requested per call (samples=...), as the convergence monitors do
            cshape = list(shape) if ctor == "same" else list(shape[:-1]) + [shape[-1] + 1]
            spec = cfg.spec + [dict(ospec, id="obj", joint="joint", variational=cfg.q_id,
                                    samples=cshape[0] if len(cshape) == 1 else cshape)]
            dic = tt.load(spec) if route == "json" else build_api(spec)
        except Exception as e:
            return [("build_raises", f"{type(e).__name__}: {e}")], values, maxdev, False
        obj = dic["obj"]
        base_ids = [bid for _, _, bs in cfg.comps for bid, _ in bs]
        calls = []

        def wrap(model, tag):
            orig = model._call

            def rec(*a, **k):
                out = orig(*a, **k)
                try:
                    snap = {bid: dic[bid].tensor.detach().clone() for bid in base_ids}
                    calls.append((tag, snap, out.detach().clone()))
                except Exception:
                    pass
                return out

            model._call = rec

        wrap(dic["joint"], "p")
        wrap(dic[cfg.q_id], "q")

        for inv in (0, 1):
            env.begin(assign if inv == 0 else second_assignment(assign, m))
            del calls[:]
            where = f"call {inv + 1}"
            try:
                for pid in cfg.var_ids:
                    dic[pid].fire_parameter_changed()
                if inv == 0:
                    # StanVariationalConvergence.check(0): no_grad, explicit sample shape
                    with torch.no_grad():
                        v = obj(samples=torch.Size(shape))
                else:
                    # the optimisation loop: parameters require gradients, plain call
                    for pid in cfg.var_ids:
                        dic[pid].requires_grad = True
                    v = obj() if ctor == "same" else obj(samples=torch.Size(shape))
            except Exception as e:
                bad.append(("raises", f"{where}: {type(e).__name__}: {str(e)[:200]}"))
                break
            # ---- draws made during this request
            last = {}
            for rec_ in env.log:
                last[rec_[0]] = rec_  # the last draw of each distribution kind is the one in effect
            missing = [kind for kind, _, _ in cfg.comps if kind not in last]
            if missing:
                bad.append(("fresh", f"{where}: no scripted draw was requested for the variational "
                                     f"component(s) {missing} ({len(env.log)} requests in all): "
                                     f"no fresh samples"))
                break
            recs = [last[kind] for kind, _, _ in cfg.comps]
            ok = True
            for (kind, width, _), (rk, rshape, rx) in zip(cfg.comps, recs):
                if list(rshape) != list(shape):
                    bad.append(("sample_shape", f"{where}: q sampled with shape {list(rshape)}, "
                                                f"requested {list(shape)}"))
                    ok = False
                elif rx.numel() != N * width:
                    bad.append(("sample_shape", f"{where}: a draw of {list(rx.shape)} for sample "
                                                f"shape {list(shape)} and width {width}"))
                    ok = False
            if not ok:
                break
            draws = [rx.reshape(N, width).numpy() for _, _, rx in recs]
            # constrained latent value per sample, expected base values
            lat, exp_base = latent_values(cfg, draws, N)
            # ---- value
            if not isinstance(v, torch.Tensor) or v.numel() != 1:
                bad.append(("value_shape", f"{where}: objective returned "
                                           f"{getattr(v, 'shape', type(v))}"))
                break
            val = float(v.detach().reshape(-1)[0])
            values.append(val)
            logZ = cfg.oracle.logZ
            if oname == "ELBO-entropy":
                lp = [cfg.oracle.log_post(x) for x in lat]
                expect = logZ + math.fsum(lp) / N + cfg.oracle.entropy
            else:
                expect = logZ
            if not math.isfinite(val) or not _close(val, expect, TOL):
                bad.append(("value", f"{where}: objective = {val!r}, closed form = {expect!r} "
                                     f"(log Z = {logZ!r}, diff {val - expect:.3e}); draws "
                                     f"{[d.tolist() for d in draws]}"))
            else:
                maxdev = max(maxdev, abs(val - expect) / max(1.0, abs(expect)))
            # ---- written
            for bid, arr in exp_base.items():
                t = dic[bid].tensor.detach()
                if list(t.shape) != list(shape) + [arr.shape[1]]:
                    bad.append(("written", f"{where}: parameter {bid} has shape {list(t.shape)} "
                                           f"after sampling {list(shape)}"))
                    continue
                got = t.reshape(N, -1).numpy()
                if not np.all(np.abs(got - arr) <= TOL_WRITTEN * np.maximum(1.0, np.abs(arr))):
                    bad.append(("written", f"{where}: parameter {bid} holds {got.tolist()}, "
                                           f"scripted draws give {arr.tolist()}"))
            # ---- pairing
            for tag, fn in (("p", cfg.oracle.log_joint), ("q", cfg.oracle.log_post)):
                ev = [c for c in calls if c[0] == tag]
                if not ev:
                    continue
                _, snap, out = ev[-1]
                stale = False
                for bid, arr in exp_base.items():
                    s = snap[bid]
                    if s.numel() != arr.size or not np.all(
                            np.abs(s.reshape(N, -1).numpy() - arr)
                            <= TOL_WRITTEN * np.maximum(1.0, np.abs(arr))):
                        stale = True
                if stale:
                    bad.append(("pairing", f"{where}: last evaluation of {tag} in this request "
                                           f"was not at the samples drawn in it"))
                    continue
                if out.numel() == N:
                    ref = np.array([fn(x) for x in lat])
                    got = out.reshape(-1).numpy()
                    if not np.all(np.abs(got - ref) <= TOL * np.maximum(1.0, np.abs(ref))):
                        bad.append(("pairing", f"{where}: {tag}() = {got.tolist()} but the "
                                               f"closed-form density at the samples is {ref.tolist()}"))
        unscripted = not torch.equal(state0, torch.default_generator.get_state())
    return bad, values, maxdev, unscripted


def latent_values(cfg, draws, N):
    """draws: per q component an [N, width] array in the coordinate the component samples.
    Returns the per-sample constrained latent value(s) for the oracle and the expected
    content of every base parameter ([N, k] arrays)."""
    exp_base = {}
    per_comp = []
    for (kind, width, bases), d in zip(cfg.comps, draws):
        if kind == "mvn":
            if len(bases) == 1:
                exp_base[bases[0][0]] = d.copy()
            else:
                for j, (bid, _) in enumerate(bases):
                    exp_base[bid] = d[:, j:j + 1].copy()
            per_comp.append([list(map(float, row)) for row in d])
            continue
        bid, tr = bases[0]
        col = [float(x) for x in d[:, 0]]
        if tr is None:
            exp_base[bid] = d.copy()
            per_comp.append(col if width == 1 else [list(map(float, row)) for row in d])
        elif kind == "normal":
            # q samples the base coordinate z; the oracle wants the constrained value
            exp_base[bid] = d.copy()
            per_comp.append([_constrained_from_base(tr, z, cfg) for z in col])
        else:
            # q samples the constrained coordinate; z is written through the inverse transform
            t = {"exp": cj.Exp(), "sigmoid": cj.Sigmoid()}[tr]
            exp_base[bid] = np.array([[t.to_base(x)] for x in col])
            per_comp.append(col)
    if cfg.layout == "product":
        lat = [[pc[s] for pc in per_comp] for s in range(N)]
    else:
        lat = per_comp[0]
    return lat, exp_base


# -- groups -------------------------------------------------------------------------

def group_cases(tier, seed):
    out = []
    for pair, qforms in PAIRS.items():
        for qform in qforms:
            for hi in range(3):
                for di in range(3):
                    if not lattice_point(tier, pair, hi, di):
                        continue
                    for route in ROUTES:
                        if route == "api" and not api_point(tier, hi, di):
                            continue
                        for oname, ospec in objectives():
                            for shape in shapes(tier):
                                if oname == "ELBO-entropy" and len(shape) == 2:
                                    continue  # the flag has no meaning in the multi-sample branch
                                out.append({"pair": pair, "qform": qform, "hyper": hi, "data": di,
                                            "seed": seed, "oname": oname, "ospec": ospec,
                                            "shape": shape, "tier": tier, "route": route})
    return out


def sig_of(g, check):
    return {"check": check, "objective": g["oname"], "qform": g["qform"],
            "shape": shape_class(g["shape"]), "route": g.get("route", "json")}


def run_group(g):
    cfg = build_config(g["pair"], g["qform"], g["hyper"], g["data"], g["seed"])
    res = {"evals": 0, "assignments": 0, "nontrivial": 0, "skipped": None, "viol": [],
           "failing": 0, "maxdev": 0.0, "outcomes": set(), "unscripted": 0, "draws": 0}
    if g["oname"] == "ELBO-entropy" and not cfg.has_entropy:
        res["skipped"] = "no analytic entropy for a q that carries a Jacobian term"
        return res
    n = nslots(cfg, g["shape"])
    m = menu_size(n, g["tier"])
    if m == 0:
        res["skipped"] = "draw-assignment space above the bound"
        return res
    first = {}
    cube = []
    for assign in itertools.product(range(m), repeat=n):
        bad, values, maxdev, unscripted = run_assignment(cfg, g["oname"], g["ospec"], g["shape"],
                                                         list(assign), m, g.get("route", "json"))
        res["assignments"] += 1
        res["evals"] += 2
        res["draws"] += 2 * n
        res["unscripted"] += int(unscripted)
        res["nontrivial"] += int(any(assign))
        res["maxdev"] = max(res["maxdev"], maxdev)
        for v in values:
            res["outcomes"].add(round(v, 9))
        if bad:
            res["failing"] += 1
        for check, detail in bad:
            if check not in first:
                first[check] = (list(assign), detail)
        if values and all(i < 2 for i in assign):
            cube.append(values[0])
        if res["assignments"] <= 2 and not bad and g.get("route", "json") == "json":
            # the same request on an objective constructed with a different sample shape
            bad2, _, _, _ = run_assignment(cfg, g["oname"], g["ospec"], g["shape"], list(assign), m,
                                           "json", ctor="decoy")
            res["evals"] += 2
            for check, detail in bad2:
                if check + "@per_call_shape" not in first:
                    first[check + "@per_call_shape"] = (list(assign), detail)
        if res["assignments"] == min(m ** n, 5):
            res["sample"] = {"pair": g["pair"], "qform": g["qform"], "hyper": g["hyper"],
                             "data": g["data"], "seed": g["seed"], "oname": g["oname"],
                             "ospec": g["ospec"], "shape": g["shape"], "tier": g["tier"],
                             "route": g.get("route", "json"), "kind": "assignment", "assign": list(assign), "menu": m,
                             "objective_values": values}
    for check, (assign, detail) in first.items():
        case = {k: g[k] for k in ("pair", "qform", "hyper", "data", "seed", "oname", "ospec",
                                  "shape", "tier")}
        case.update(kind="assignment", assign=assign, menu=m, route=g.get("route", "json"),
                    ctor="decoy" if check.endswith("@per_call_shape") else "same")
        res["viol"].append({"case": case, "sig": sig_of(g, check),
                            "detail": f"{g['pair']}/{g['qform']} [{g.get('route', 'json')}] {g['oname']} "
                                      f"{g['ospec']} samples={g['shape']} draws#{assign}: {check}: {detail}"})
    if (g["oname"] == "ELBO-entropy" and cfg.normal_family and m >= 2
            and len(cube) == 2 ** n and "value" not in first and "raises" not in first):
        mean = math.fsum(cube) / len(cube)
        if not _close(mean, cfg.oracle.logZ, TOL):
            case = {k: g[k] for k in ("pair", "qform", "hyper", "data", "seed", "oname", "ospec",
                                      "shape", "tier")}
            case.update(kind="expectation", route=g.get("route", "json"))
            res["viol"].append({"case": case, "sig": sig_of(g, "expectation"),
                                "detail": f"{g['pair']}/{g['qform']} analytic-entropy ELBO, samples="
                                          f"{g['shape']}: mean over the 2^{n} two-point draws = {mean!r}, "
                                          f"log Z = {cfg.oracle.logZ!r}"})
        res["cube"] = 1
    return res


def _work(chunk):
    return [run_group(g) for g in chunk]


def self_test(seed):
    pts = {"scalar+": [0.3, 1.7], "scalar01": [0.2, 0.85], "real": [-0.9, 1.3]}
    for pair, qforms in PAIRS.items():
        for hi in range(3):
            for di in range(3):
                if not lattice_point("thorough", pair, hi, di):
                    continue
                o = build_config(pair, qforms[0], hi, di, seed).oracle
                if pair == "gamma_exp_vec":
                    o.self_test([[0.4, 1.3], [2.5, 0.2]])
                elif isinstance(o, cj.Product):
                    o.self_test([[0.4, -0.2], [2.5, 1.1]])
                elif isinstance(o, cj.MVNormalDiag):
                    o.self_test([[0.1, -0.4], [1.5, 2.0]])
                elif isinstance(o, cj.BetaBinomial):
                    o.self_test(pts["scalar01"])
                elif isinstance(o, cj.NormalNormal):
                    o.self_test(pts["real"])
                else:
                    o.self_test(pts["scalar+"])


def run(run):
    self_test(run.seed)
    groups = group_cases(run.tier, run.seed)
    nchunks = 96
    chunks = [groups[i::nchunks] for i in range(nchunks)]
    chunks = [c for c in chunks if c]
    results = pmap(_work, chunks)
    evals = assignments = nontrivial = failing = cubes = unscripted = draws = 0
    skipped = {}
    maxdev = 0.0
    outcomes = set()
    ngroups = 0
    by_obj = {}
    for chunk, rs in zip(chunks, results):
        for g, r in zip(chunk, rs):
            if r["skipped"]:
                skipped[r["skipped"]] = skipped.get(r["skipped"], 0) + 1
                continue
            ngroups += 1
            evals += r["evals"]
            assignments += r["assignments"]
            nontrivial += r["nontrivial"]
            failing += r["failing"]
            unscripted += r["unscripted"]
            draws += r["draws"]
            cubes += r.get("cube", 0)
            maxdev = max(maxdev, r["maxdev"])
            outcomes |= r["outcomes"]
            by_obj[g["oname"]] = by_obj.get(g["oname"], 0) + r["assignments"]
            # closed-form size of the group's assignment space
            cfg_slots = r["draws"] // (2 * r["assignments"])
            m = menu_size(cfg_slots, run.tier)
            if r["assignments"] != m ** cfg_slots:
                raise RuntimeError(f"group {g} enumerated {r['assignments']} of {m ** cfg_slots}")
            run.absorb(r["viol"])
    if len(outcomes) < 2:
        raise RuntimeError("vacuous run: every objective value identical")
    if unscripted:
        run.notes.append(f"{unscripted} cases consumed un-intercepted torch randomness")
    allres = [r for rs in results for r in rs if r.get("sample")]
    samples = [allres[i]["sample"] for i in sorted({0, len(allres) // 3, 2 * len(allres) // 3,
                                                     len(allres) - 1})]
    cov = {
        "evaluations": evals,
        "distinct_nontrivial": nontrivial,
        "rule": "one evaluation = one invocation of an objective model on a freshly built graph "
                "(two per draw assignment); non-trivial = (configuration, objective, shape, draw "
                "assignment) with at least one non-default scripted draw; every assignment of menu "
                "values to the S*K*dim base draws of every group is enumerated (count asserted "
                "against menu^slots per group)",
        "samples": samples,
        "exhaustive": True,
        "groups": ngroups,
        "groups_skipped": skipped,
        "draw_assignments": assignments,
        "scripted_scalar_draws": draws,
        "failing_assignments": failing,
        "assignments_by_objective": by_obj,
        "two_point_expectation_groups": cubes,
        "distinct_objective_values": len(outcomes),
        "max_relative_deviation_passing": maxdev,
        "cases_with_unintercepted_randomness": unscripted,
        "tolerance_value": TOL,
        "tolerance_written": TOL_WRITTEN,
        "menus": MENU,
        "pairs_and_qforms": PAIRS,
        "construction_routes": list(ROUTES),
        "shapes": shapes(run.tier),
    }
    return run.finish(cov, assumptions=[
        "q is set to the closed-form posterior; hyper-parameters and data on a 3 x 3 lattice per "
        "pair (VERIF_SEED moves the continuous values only)",
        "draws come from finite menus (normal base noise {-1, +1, 0.3}; gamma draws {0.5, 1.9, 1} x "
        "mean; beta draws {0.2, 0.9, 0.5}); the identity holds for every point of the support, so "
        "the menu values need not be quantiles; menu size 3 while menu^slots <= 81 (243 thorough), "
        "else 2 while <= 64 (512), larger shapes are not explored; the quick tier visits the diagonal "
        "of the 3 x 3 hyper x data lattice, the thorough tier diagonal + anti-diagonal (diagonal for the "
        "two-dimensional families); the anonymous Python-API route is explored at the first lattice point",
        "objectives are invoked as Optimizer._run does (variational parameters fire, then call); a "
        "bare repeated call without any change event returns the cached value by the CallableModel "
        "contract and is not part of the claim",
        "score-function ELBO, KLpqImportance and SELBO return surrogates, not bounds, and are not "
        "covered; the analytic-entropy ELBO is compared with logZ + mean log post + H at the draws "
        "and, for the normal models, in exact two-point expectation",
        "sample shapes [S], S <= 3 (4 thorough) and [S, K], S, K <= 2 (3 thorough); parameters are "
        "1-d tensors as the CLI emits them (0-d parameters are outside torchtree's shape convention)",
    ])


def replay(case):
    g = dict(case)
    g.setdefault("tier", "quick")
    cfg = build_config(g["pair"], g["qform"], g["hyper"], g["data"], g["seed"])
    out = []
    if case.get("kind") == "expectation":
        r = run_group(g)
        return [v for v in r["viol"] if v["sig"]["check"] == "expectation"]
    m = case.get("menu") or menu_size(nslots(cfg, g["shape"]), g["tier"])
    n = nslots(cfg, g["shape"])
    assign = list(case["assign"])
    if len(assign) != n:
        assign = (assign * n)[:n]
    bad, values, maxdev, _ = run_assignment(cfg, g["oname"], g["ospec"], g["shape"], assign, m,
                                            g.get("route", "json"), ctor=case.get("ctor", "same"))
    if case.get("ctor") == "decoy":
        bad = [(c + "@per_call_shape", d) for c, d in bad]
    seen = set()
    for check, detail in bad:
        if check in seen:
            continue
        seen.add(check)
        out.append({"case": case, "sig": sig_of(g, check),
                    "detail": f"{g['pair']}/{g['qform']} {g['oname']} {g['ospec']} "
                              f"samples={g['shape']} draws#{assign}: {check}: {detail}"})
    return out
