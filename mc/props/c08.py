"""C08 – coalescent priors equal the Kingman density of their demographic function.

Enumerates every valid interleaving of sampling and coalescent events for n tips, every
tie pattern between consecutive sampling events, every placement of G grid points in the
gaps between events (and beyond the root), every permutation of the sampling block and of
the internal block of the height vector (n <= 4; identity + reversal above), for all the
coalescent models and two population-size vectors, against closed-form Kingman densities."""
import itertools
import math

import numpy as np

from mc.env import tt
from mc.explore import enumerate as en
from mc.oracle import coalescent as oc
from mc.runner import chunked, jdump, pmap

LEVEL = "exploration"
RTOL = 1e-10


def gaps(nev, seed):
    """generic pairwise distinct gaps between consecutive events"""
    rng = np.random.default_rng(seed * 101 + nev)
    base = [0.31 + 0.173 * ((5 * i + 2) % 11) for i in range(nev)]
    return [float(b * (1.0 + 0.1 * rng.uniform(-1, 1))) for b in base]


def event_times(inter, ties, seed):
    """inter: string over s/c; ties: set of positions i (event i and i-1 both 's') tied"""
    g = gaps(len(inter), seed)
    t = 0.0
    out = []
    for i, e in enumerate(inter):
        if i > 0 and not (i in ties):
            t += g[i]
        out.append(t)
    return out


def grid_points(times, placement):
    """placement: tuple of gap indices (0..E-1; E-1 = beyond the root) in non-decreasing order;
    distinct event times only"""
    uniq = sorted(set(times))
    out = []
    for gap, cnt in sorted({p: placement.count(p) for p in placement}.items()):
        lo = uniq[gap]
        hi = uniq[gap + 1] if gap + 1 < len(uniq) else uniq[-1] + 1.7
        for k in range(cnt):
            out.append(lo + (hi - lo) * (k + 1) / (cnt + 1.0) * 0.97)
    return sorted(out)


def thetas_for(kind, m, which):
    if which == "equal":
        return [2.7] * m
    if which == "paired":  # equal adjacent pairs that differ from the last entry
        return [1.3 + 1.9 * (i // 2) for i in range(m)]
    return [1.3 + 0.77 * ((3 * i + 1) % 7) for i in range(m)]


def dist(model, thetas, grid, growth=None):
    import torch

    from torchtree.evolution import coalescent as C

    th = torch.tensor(thetas)
    if model == "constant":
        return C.ConstantCoalescent(th)
    if model == "exponential":
        return C.ExponentialCoalescent(th, torch.tensor([growth]))
    if model == "skyride":
        return C.PiecewiseConstantCoalescent(th)
    if model == "skygrid":
        return C.PiecewiseConstantCoalescentGrid(th, torch.tensor(grid))
    if model == "linear":
        return C.PiecewiseLinearCoalescentGrid(th, torch.tensor(grid))
    if model == "pexp":
        return C.PiecewiseExponentialCoalescentGrid(th, torch.tensor([growth] * len(thetas)),
                                                    torch.tensor(grid))
    raise ValueError(model)


def reference(model, samp, coal, thetas, grid, growth=None):
    if model == "constant":
        return oc.constant(samp, coal, thetas[0])
    if model == "exponential":
        return oc.exponential(samp, coal, thetas[0], growth)
    if model == "skyride":
        return oc.skyride(samp, coal, thetas)
    if model == "skygrid":
        return oc.skygrid(samp, coal, thetas, grid)
    if model == "linear":
        return oc.piecewise_linear(samp, coal, thetas, grid)
    raise ValueError(model)


def perms_for(n):
    if n <= 4:
        return list(itertools.product(itertools.permutations(range(n)),
                                      itertools.permutations(range(n - 1))))
    ident_s, ident_c = tuple(range(n)), tuple(range(n - 1))
    return [(ident_s, ident_c), (ident_s[::-1], ident_c[::-1])]


def check_item(item):
    """one (n, interleaving, tie pattern): all grids x models x thetas x permutations"""
    import torch

    n, inter, ties, seed, tier = item["n"], item["inter"], set(item["ties"]), item["seed"], item["tier"]
    times = event_times(inter, ties, seed)
    samp = [t for t, e in zip(times, inter) if e == "s"]
    coal = [t for t, e in zip(times, inter) if e == "c"]
    bad = []
    nev = 0
    nuniq = len(set(times))
    perms = perms_for(n)
    maxG = 3 if (tier == "thorough" or n <= 4) else 2

    def run_one(model, thetas, grid, growth, perm_list, tag):
        nonlocal nev
        ref = reference(model, samp, coal, thetas, grid, growth)
        try:
            d = dist(model, thetas, grid, growth)
        except Exception as e:
            bad.append((f"{model}:construct", f"{tag}: {type(e).__name__}: {str(e)[:120]}"))
            return None
        first = None
        for ps, pc in perm_list:
            h = torch.tensor([samp[i] for i in ps] + [coal[i] for i in pc])
            nev += 1
            try:
                v = float(d.log_prob(h))
            except Exception as e:
                bad.append((f"{model}:raises", f"{tag} heights {h.tolist()}: {type(e).__name__}: {str(e)[:120]}"))
                return None
            if first is None:
                first = v
            if not abs(v - ref) <= RTOL * max(1.0, abs(ref)):
                bad.append((f"{model}:value", f"{tag} heights {h.tolist()} thetas {thetas} grid {grid} "
                                               f"growth {growth}: log_prob {v!r} vs Kingman {ref!r}"))
                return first
        return first

    for which in ("distinct", "equal"):
        th1 = thetas_for("c", 1, which)
        v_const = run_one("constant", th1, None, None, perms, "constant")
        if which == "distinct":
            for g in (0.3, -0.3):
                run_one("exponential", th1, None, g, perms, f"exponential g={g}")
            # scaling law on the implementation: times and sizes x c  ->  -(n-1) log c
            c = 3.7
            try:
                a = float(dist("constant", th1, None).log_prob(torch.tensor(samp + coal)))
                b = float(dist("constant", [th1[0] * c], None).log_prob(torch.tensor(samp + coal) * c))
                if not abs((b - a) + (n - 1) * math.log(c)) <= 1e-10 * max(1.0, abs(a)):
                    bad.append(("constant:scaling", f"shift {b - a!r} expected {-(n - 1) * math.log(c)!r}"))
            except Exception as e:
                bad.append(("constant:raises", f"{type(e).__name__}: {e}"))
        thn = thetas_for("s", n - 1, which)
        v = run_one("skyride", thn, None, None, perms, "skyride")
        if which == "equal" and v is not None and v_const is not None:
            if not abs(v - v_const) <= RTOL * max(1.0, abs(v_const)):
                bad.append(("skyride:equal_pieces", f"{v!r} vs constant model {v_const!r}"))
        for G in range(1, maxG + 1):
            for placement in itertools.combinations_with_replacement(range(nuniq), G):
                grid = grid_points(times, placement)
                thg = thetas_for("g", G + 1, which)
                plist = perms if (n <= 3 or (placement == tuple(range(G)))) else perms[:1] + perms[-1:]
                for model in ("skygrid", "linear"):
                    v = run_one(model, thg, grid, None, plist, f"{model} grid {grid}")
                    if which == "equal" and v is not None and v_const is not None:
                        if not abs(v - v_const) <= RTOL * max(1.0, abs(v_const)):
                            bad.append((f"{model}:equal_pieces", f"grid {grid}: {v!r} vs constant {v_const!r}"))
                if which == "distinct" and G >= 2:
                    thp = thetas_for("g", G + 1, "paired")
                    for model in ("skygrid", "linear"):
                        run_one(model, thp, grid, None, perms[:1], f"{model} paired thetas grid {grid}")
                if which == "distinct":
                    # scaling law for the grid models
                    c = 0.41
                    for model in ("skygrid", "linear"):
                        try:
                            h = torch.tensor(samp + coal)
                            a = float(dist(model, thg, grid).log_prob(h))
                            b = float(dist(model, [x * c for x in thg], [x * c for x in grid]).log_prob(h * c))
                            nev += 2
                            if not abs((b - a) + (n - 1) * math.log(c)) <= 1e-9 * max(1.0, abs(a)):
                                bad.append((f"{model}:scaling", f"grid {grid}: shift {b - a!r} expected "
                                                                f"{-(n - 1) * math.log(c)!r}"))
                        except Exception as e:
                            bad.append((f"{model}:raises", f"{type(e).__name__}: {str(e)[:100]}"))
                    # piecewise exponential: N(t) is not documented; it must at least evaluate, and with
                    # zero... (growth 0 is excluded by the closed form) – only "does it evaluate" here
                    if G == 1 and placement == (0,):
                        try:
                            d = dist("pexp", thg, grid, 0.2)
                            float(d.log_prob(torch.tensor(samp + coal)))
                            nev += 1
                        except Exception as e:
                            bad.append(("pexp:raises", f"grid {grid}: {type(e).__name__}: {str(e)[:100]}"))
        if len(bad) > 6:
            break
    # the same genealogy with every time shifted: the youngest sample is not at time 0 (heights handed
    # to the distributions directly, or a model built from times / events, need not start at 0)
    samp0, coal0, times0 = samp, coal, times
    for off in (0.75,):
        samp, coal = [t + off for t in samp0], [t + off for t in coal0]
        th1 = thetas_for("c", 1, "distinct")
        run_one("constant", th1, None, None, perms[:1], f"constant, times + {off}")
        for g in (0.3, -0.3):
            run_one("exponential", th1, None, g, perms[:1], f"exponential g={g}, times + {off}")
        run_one("skyride", thetas_for("s", n - 1, "distinct"), None, None, perms[:1], f"skyride, times + {off}")
        for placement in itertools.combinations_with_replacement(range(nuniq), 1):
            for shift_grid in (False, True):
                grid = [g_ + (off if shift_grid else 0.0) for g_ in grid_points(times0, placement)]
                for model in ("skygrid", "linear"):
                    run_one(model, thetas_for("g", 2, "distinct"), grid, None, perms[:1],
                            f"{model} grid {grid}, times + {off}")
    samp, coal = samp0, coal0
    # two genealogies with different sampling times as one batch [2, 2n-1]: each row must be the density of
    # that row alone (a shape combination that raises is allowed)
    off = 0.75
    rows = [(samp0, coal0), ([t + off for t in samp0], [t + off for t in coal0])]
    H = torch.tensor([r[0] + r[1] for r in rows])
    grid1 = grid_points(times0, (0,))
    for model, thetas, grid, growth in (("constant", thetas_for("c", 1, "distinct"), None, None),
                                        ("exponential", thetas_for("c", 1, "distinct"), None, 0.3),
                                        ("skyride", thetas_for("s", n - 1, "distinct"), None, None),
                                        ("skygrid", thetas_for("g", 2, "distinct"), grid1, None),
                                        ("linear", thetas_for("g", 2, "distinct"), grid1, None)):
        try:
            got = dist(model, thetas, grid, growth).log_prob(H).reshape(-1).tolist()
        except Exception:
            continue
        nev += 1
        refs = [reference(model, r[0], r[1], thetas, grid, growth) for r in rows]
        if len(got) != 2 or any(not abs(g_ - r_) <= RTOL * max(1.0, abs(r_)) for g_, r_ in zip(got, refs)):
            bad.append((f"{model}:batched_rows", f"batch of two genealogies with different sampling times "
                                                 f"{H.tolist()}: log_prob {got} vs Kingman per row {refs}"))
    return bad, nev


def check_model_call(item):
    """the JSON-built model (tree model + coalescent model) equals distribution().log_prob"""
    import torch

    from mc.builders import trees as tb

    n, inter, seed = item["n"], item["inter"], item["seed"]
    times = event_times(inter, set(item["ties"]), seed)
    samp = [t for t, e in zip(times, inter) if e == "s"]
    coal = [t for t, e in zip(times, inter) if e == "c"]
    labels = [f"t{i}" for i in range(n)]
    top = en.shapes("caterpillar", n, labels)
    bad = []
    grid = grid_points(times, (0, max(0, len(set(times)) - 2)))
    specs = {
        "constant": {"id": "coal", "type": "ConstantCoalescentModel", "theta": P("theta", [2.1]),
                     "tree_model": "tree"},
        "exponential": {"id": "coal", "type": "ExponentialCoalescentModel", "theta": P("theta", [2.1]),
                        "growth": P("growth", [0.3]), "tree_model": "tree"},
        "skyride": {"id": "coal", "type": "PiecewiseConstantCoalescentModel",
                    "theta": P("theta", thetas_for("s", n - 1, "distinct")), "tree_model": "tree"},
        "skygrid": {"id": "coal", "type": "PiecewiseConstantCoalescentGridModel",
                    "theta": P("theta", thetas_for("g", 3, "distinct")), "grid": grid, "tree_model": "tree"},
        "linear": {"id": "coal", "type": "PiecewiseLinearCoalescentGridModel",
                   "theta": P("theta", thetas_for("g", 3, "distinct")), "grid": grid, "tree_model": "tree"},
    }
    nev = 0
    for model, cs in specs.items():
        try:
            tree = tb.time_tree(top, labels, samp, coal)
            dic = tt.load([tree, cs])
            v = float(dic["coal"]())
            th = dic["theta"].tensor.tolist()
            ref = reference(model, samp, coal, th, grid if model in ("skygrid", "linear") else None,
                            0.3 if model == "exponential" else None)
            nev += 1
            if not abs(v - ref) <= RTOL * max(1.0, abs(ref)):
                bad.append((f"{model}:model_call", f"model() = {v!r} vs Kingman {ref!r} (samp {samp} coal {coal})"))
            # history on the same model object: every parameter replaced in turn, evaluated after each
            g_cur, grid_cur, th_cur = (0.3 if model == "exponential" else None), grid, th
            for step in ("aux", "theta", "aux2"):
                if step == "theta":
                    th_cur = [x * 1.37 for x in th_cur]
                    dic["theta"].tensor = torch.tensor(th_cur)
                elif model == "exponential":
                    g_cur = -0.2 if step == "aux" else 0.45
                    dic["growth"].tensor = torch.tensor([g_cur])
                elif model in ("skygrid", "linear"):
                    grid_cur = [x * (1.6 if step == "aux" else 0.55) for x in grid]
                    dic["coal"].grid.tensor = torch.tensor(grid_cur)
                else:
                    continue
                v = float(dic["coal"]())
                ref = reference(model, samp, coal, th_cur, grid_cur if model in ("skygrid", "linear") else None,
                                g_cur)
                nev += 1
                if not abs(v - ref) <= RTOL * max(1.0, abs(ref)):
                    bad.append((f"{model}:model_history", f"after replacing {step}: model() = {v!r} vs Kingman "
                                                          f"{ref!r} (theta {th_cur} growth {g_cur} grid {grid_cur})"))
                    break
        except Exception as e:
            bad.append((f"{model}:model_raises", f"{type(e).__name__}: {str(e)[:140]}"))
    # models built from times / events (no tree): evaluated, then given the heights of two genealogies with
    # different sampling times as one batch; the distribution the MODEL hands out is the one evaluated
    off = 0.75
    rows = [(samp, coal), ([t + off for t in samp], [t + off for t in coal])]
    H = torch.tensor([r[0] + r[1] for r in rows])
    for model, cs in specs.items():
        try:
            cs2 = {k: v for k, v in cs.items() if k != "tree_model"}
            cs2["times"] = list(times)
            cs2["events"] = [1 if e == "s" else 0 for e in inter]
            dic = tt.load([cs2])
            m = dic["coal"]
            th = dic["theta"].tensor.tolist()
            gr = grid if model in ("skygrid", "linear") else None
            g0 = 0.3 if model == "exponential" else None
            v = float(m())
            ref = reference(model, samp, coal, th, gr, g0)
            nev += 1
            if not abs(v - ref) <= RTOL * max(1.0, abs(ref)):
                bad.append((f"{model}:model_call", f"model from times/events: {v!r} vs Kingman {ref!r}"))
                continue
            try:
                got = m.distribution().log_prob(H).reshape(-1).tolist()
            except Exception:
                continue  # a shape combination that raises is allowed
            nev += 1
            refs = [reference(model, r[0], r[1], th, gr, g0) for r in rows]
            if len(got) != 2 or any(not abs(a_ - b_) <= RTOL * max(1.0, abs(b_)) for a_, b_ in zip(got, refs)):
                bad.append((f"{model}:batched_rows", f"model.distribution().log_prob of two genealogies with different "
                                                     f"sampling times {H.tolist()}: {got} vs Kingman per row {refs}"))
        except Exception as e:
            bad.append((f"{model}:model_raises", f"times/events route: {type(e).__name__}: {str(e)[:140]}"))
    return bad, nev


def P(id_, v):
    return {"id": id_, "type": "Parameter", "tensor": v}


def items(tier, seed):
    ns = (2, 3, 4, 5) if tier == "quick" else (2, 3, 4, 5, 6, 7)
    out = []
    for n in ns:
        for inter in en.interleavings(n):
            ss = [i for i in range(1, len(inter)) if inter[i] == "s" and inter[i - 1] == "s"]
            for r in range(len(ss) + 1):
                for ties in itertools.combinations(ss, r):
                    if n >= 6 and r not in (0, len(ss)):
                        continue
                    out.append({"n": n, "inter": inter, "ties": list(ties), "seed": seed, "tier": tier})
    return out


def _work(chunk):
    out = []
    for it in chunk:
        bad, nev = check_item(it)
        bad2, nev2 = check_model_call(it) if not it["ties"] else ([], 0)
        out.append((it, bad + bad2, nev + nev2))
    return out


def sig(it, name):
    model, check = name.split(":")
    return {"model": model, "check": check}


def selftest():
    samp, coal = [0.0, 0.4, 0.4, 1.9], [0.9, 2.5, 3.3]
    grid = [0.7, 2.2]
    th = [1.3, 2.9, 0.8]
    a = oc.piecewise_linear(samp, coal, th, grid)
    b = oc.quad_check(samp, coal, lambda t: oc.linear_n(t, th, grid), grid)
    c = oc.skygrid(samp, coal, th, grid)
    d = oc.quad_check(samp, coal, lambda t: th[sum(1 for g in grid if g < t)], grid)
    e = oc.exponential(samp, coal, 2.0, -0.3)
    f = oc.quad_check(samp, coal, lambda t: 2.0 * math.exp(0.3 * t), [])
    if max(abs(a - b), abs(c - d), abs(e - f)) > 1e-9:
        raise RuntimeError(f"closed-form reference disagrees with quadrature: {a} {b} {c} {d} {e} {f}")


def run(run):
    tt.boot()
    selftest()
    its = items(run.tier, run.seed)
    its.sort(key=lambda it: -it["n"])
    res = pmap(_work, [its[i::64] for i in range(64)])
    evals = 0
    serial = 0
    for chunk in res:
        for it, bad, nev in chunk:
            evals += nev
            if "sc" in it["inter"][:-1] and "cs" in it["inter"]:
                serial += nev
            seen = set()
            for name, detail in bad:
                if name in seen:
                    continue
                seen.add(name)
                run.violation(it, f"{it}: {name}: {detail}", sig(it, name))
    per_n = {}
    for it in its:
        per_n[it["n"]] = per_n.get(it["n"], 0) + 1
    cov = {
        "evaluations": evals,
        "distinct_nontrivial": serial,
        "rule": "every interleaving x tie pattern x grid placement (G<=3) x permutation of both blocks of the "
                "height vector (all for n<=4) x {constant, exponential(+-0.3), skyride, skygrid, piecewise-linear} "
                "x {distinct, equal} thetas; evaluations = log_prob calls compared; non-trivial = calls on "
                "interleavings with a sampling event after the first coalescence",
        "samples": [its[0], its[len(its) // 2], its[-1]],
        "exhaustive": True,
        "interleaving_x_tie_items_per_n": per_n,
        "rtol": RTOL,
    }
    return run.finish(cov, assumptions=[
        "event times are generic (no coalescent event ties with a grid point or a sampling time)",
        "n <= 5 (quick) / 7 (thorough); for n >= 5 only identity and reversal of the height vector blocks",
        "N(t) conventions: skygrid theta_i applies on (grid_{i-1}, grid_i]; skyride theta_i after i coalescences; "
        "piecewise-linear interpolates thetas at 0, grid_1, ... and is constant beyond the last grid point",
        "piecewise-exponential: N(t) is undocumented; only 'evaluates without error' is checked",
    ])


def replay(case):
    bad, _ = check_item(case)
    bad2, _ = check_model_call(case) if not case["ties"] else ([], 0)
    return [{"case": case, "detail": f"{n}: {d}", "sig": sig(case, n)} for n, d in bad + bad2]
