"""C09 - the birth-death skyline density agrees across epochs, with the constant-rate model and
with numerical integration of the master equations; JSON options select what they name.

Enumerated space (complete, see `items` / `patterns` / `option_sets`):

* trees: n = 2..4 tips, every interleaving of sampling and branching events, every tie pattern
  between consecutive sampling events (all tips at the present = contemporaneous);
* epochs: m = 1..3 (quick) / 1..8 (thorough); every placement of the m-1 boundaries as a
  multiset over {each gap between consecutive event times, the gap root-origin, exactly on each
  sampling time, exactly on each branching time} (per-gap multiplicity capped), plus the default
  equidistant boundaries (`times=None`);
* parameters: rate menus with pairwise distinct rates per epoch, every way (m <= 3) of merging
  adjacent epochs into runs of identical rates, rho at the present in {0, 0.3, 1}, rho at the
  internal boundaries in {0, 0.3};
* options: survival x removal probability {absent, per-epoch values} x times {absolute, relative}
  x origin {value, length of the root edge} (+ rho given as [rho_m] only);
* JSON: every combination of the optional keys of BDSKModel (absent / each value) on small trees
  with two topologies per interleaving, BirthDeathModel on every tree.

Oracles: mc/oracle/bdsk.py (Stadler 2010 closed form; Taylor-series integration of the master
equations, cross-checked against RK4 with step halving and mpmath.odefun on every run).
An additive constant that depends only on (n, whether a removal probability is given) is allowed:
it is measured on an anchor case and subtracted."""
import itertools
import math

from mc.builders import genealogy as gy
from mc.builders import trees as tb
from mc.env import tt
from mc.explore import enumerate as en
from mc.oracle import bdsk as ob
from mc.runner import jdump, pmap

LEVEL = "exploration"
U = 1.0 / 64.0  # all event times and boundaries are integer multiples of U (exact in binary)
TOL = 1e-9      # |impl - oracle| <= TOL * max(1, |oracle|); calibration recorded in the evidence
PHI = (math.sqrt(5.0) - 1.0) / 2.0

# ------------------------------------------------------------------------------------------
# rate menus: pairwise distinct per epoch; the seed only rescales them slightly

MENUS = {
    "A": {"lam": [2.1, 3.4, 1.3, 2.7, 0.9, 3.1, 1.7, 2.4],
          "mu": [1.0, 2.3, 0.6, 1.9, 1.2, 0.4, 2.2, 0.8],
          "psi": [0.5, 1.4, 0.8, 0.3, 1.1, 0.7, 0.2, 1.6]},
    "B": {"lam": [0.8, 1.9, 0.5, 1.2, 2.6, 0.7, 1.5, 0.4],
          "mu": [1.5, 0.7, 2.1, 0.9, 1.1, 2.4, 0.5, 1.8],
          "psi": [1.2, 0.25, 0.6, 1.7, 0.45, 0.9, 1.3, 0.35]},
    "C": {"lam": [4.0], "mu": [0.3], "psi": [0.05]},
    "D": {"lam": [0.6], "mu": [0.2], "psi": [3.0]},
}
REMOVAL = [0.5, 0.7, 0.35, 0.8, 0.45, 0.6, 0.25, 0.9]


def menu(name, seed):
    f = {"lam": 1.0 + 0.011 * (seed % 7), "mu": 1.0 + 0.013 * (seed % 5), "psi": 1.0 + 0.017 * (seed % 3)}
    return {k: [round(v * f[k], 6) for v in vs] for k, vs in MENUS[name].items()}


def gen_ints(k, seed, lo, hi, salt=0):
    """k pairwise distinct 'generic' integers in [lo, hi] (golden-ratio sequence, offset moved
    by the seed)"""
    off = (0.1234567 * seed + 0.31 * salt) % 1.0
    out = []
    span = hi - lo + 1
    if k > span:
        raise RuntimeError("gen_ints: range too small")
    for j in range(k):
        v = lo + int((((j + 1) * PHI + off) % 1.0) * span)
        while v in out:
            v = lo + (v - lo + 1) % span
        out.append(v)
    return out


def gen_frac(seed, salt):
    return ((salt + 1) * PHI + 0.1234567 * seed) % 1.0


# ------------------------------------------------------------------------------------------
# trees and epoch placements (integer units)


def tree_units(inter, ties, seed):
    """event ages in units of U: first event at 0; tied sampling events share their age"""
    g = gen_ints(len(inter), seed, 10, 60, salt=3 * len(inter) + sum(ties))
    u = [0]
    for i in range(1, len(inter)):
        u.append(u[-1] if i in ties else u[-1] + g[i])
    tips = [a for a, e in zip(u, inter) if e == "s"]
    br = [a for a, e in zip(u, inter) if e == "c"]
    origin = 128  # >= 2.0: never 1.0, where relative and absolute times coincide
    while origin < br[-1] + 10:
        origin *= 2
    return {"tips": tips, "br": br, "origin": origin, "distinct": sorted(set(u))}


def n_placements(D, k, cap):
    """closed form: coefficient of x^k in (1+x+..+x^cap)^D (1+x)^(D-1)"""
    poly = [1]

    def mul(p, q):
        r = [0] * (len(p) + len(q) - 1)
        for i, a in enumerate(p):
            for j, b in enumerate(q):
                r[i + j] += a * b
        return r

    for _ in range(D):
        poly = mul(poly, [1] * (cap + 1))
    for _ in range(D - 1):
        poly = mul(poly, [1, 1])
    return poly[k] if k < len(poly) else 0


def placements(D, k, cap):
    """multisets of k slots; slots 0..D-1 = the gap above the j-th distinct event age (the last
    one reaches to the origin), slots D..2D-2 = exactly on the (j-D+1)-th distinct event age"""
    out = []
    for combo in itertools.combinations_with_replacement(range(2 * D - 1), k):
        ok = True
        for s in set(combo):
            c = combo.count(s)
            if (s >= D and c > 1) or (s < D and c > cap):
                ok = False
                break
        if ok:
            out.append(list(combo))
    if len(out) != n_placements(D, k, cap):
        raise RuntimeError("placement enumeration does not match its closed-form count")
    return out


def boundary_ages(tree, placement, seed):
    """ages (units) of the boundaries of a placement, oldest first"""
    dist, origin = tree["distinct"], tree["origin"]
    D = len(dist)
    ages = []
    for slot in sorted(set(placement)):
        c = placement.count(slot)
        if slot >= D:
            ages.append(dist[slot - D + 1])
            continue
        lo = dist[slot]
        hi = dist[slot + 1] if slot + 1 < D else origin
        fr = gen_frac(seed, slot)
        for j in range(c):
            ages.append(lo + 1 + int((hi - lo - 2) * (j + fr) / c))
    ages.sort(reverse=True)
    for a, b in zip(ages, ages[1:]):
        if not a > b:
            raise RuntimeError("boundaries not distinct")
    if ages and not (0 < ages[-1] and ages[0] < origin):
        raise RuntimeError("boundary outside (0, origin)")
    return ages


def geometry(item):
    """floats: tips, branchings (ascending, root last), origin, forward boundary times"""
    tree = tree_units(item["inter"], set(item["ties"]), item["seed"])
    origin = tree["origin"] * U
    tips = [a * U for a in tree["tips"]]
    br = [a * U for a in tree["br"]]
    m = item["m"]
    if item["placement"] == "default":
        bounds = [origin * k / m for k in range(1, m)]
    else:
        ages = boundary_ages(tree, item["placement"], item["seed"])
        bounds = [(tree["origin"] - a) * U for a in ages]
    return tips, br, origin, bounds


def cap_for(n, m):
    if n == 2:
        return 3
    if n == 3:
        return 2
    return 2 if m <= 3 else 1


def tree_patterns(tier):
    out = []
    for n in (2, 3, 4):
        for inter in en.interleavings(n):
            ss = [i for i in range(1, len(inter)) if inter[i] == "s" and inter[i - 1] == "s"]
            for r in range(len(ss) + 1):
                for ties in itertools.combinations(ss, r):
                    out.append((n, inter, list(ties)))
    return out


def max_epochs(tier):
    return 3 if tier == "quick" else 8


def items(tier, seed):
    out = []
    M = max_epochs(tier)
    for n, inter, ties in tree_patterns(tier):
        tree = tree_units(inter, set(ties), seed)
        D = len(tree["distinct"])
        nss = sum(1 for i in range(1, len(inter)) if inter[i] == "s" and inter[i - 1] == "s")
        reduced = n == 4 and 0 < len(ties) < nss  # partial tie patterns
        for m in range(1, M + 1):
            if reduced and (m >= 5 or (m == 3 and tier == "quick")):
                continue
            base = {"n": n, "inter": inter, "ties": ties, "m": m, "seed": seed, "tier": tier}
            if m == 1:
                out.append(dict(base, placement=[]))
                continue
            out.append(dict(base, placement="default"))
            for pl in placements(D, m - 1, cap_for(n, m)):
                out.append(dict(base, placement=pl))
    return out


# ------------------------------------------------------------------------------------------
# parameter patterns and option sets


def compositions(m):
    if m == 0:
        yield []
        return
    for first in range(1, m + 1):
        for rest in compositions(m - first):
            yield [first] + rest


def patterns(m, tier):
    """{"runs": lengths of the runs of identical rates, "menu", "rho": m values}.  rho is 0 on a
    boundary inside a run (that boundary is a pure refinement)."""
    out = []
    if m == 1:
        for mn in ("A", "B", "C", "D"):
            for r in (0.0, 0.3, 1.0):
                out.append({"runs": [1], "menu": mn, "rho": [r]})
        return out
    if m <= 3:
        for runs in compositions(m):
            free = []  # indices of rho entries that sit between two runs
            pos = 0
            for ln in runs[:-1]:
                pos += ln
                free.append(pos - 1)
            menus = ("A", "B") if len(runs) == m else ("A",)
            for mn in menus:
                for rm in (0.0, 0.3, 1.0):
                    for inner in itertools.product((0.0, 0.3), repeat=len(free)):
                        if tier == "quick" and m == 3 and rm == 1.0 and any(inner):
                            continue  # quick: rho = 1 at the present only with rho = 0 elsewhere
                        if len(runs) == m == 3 and mn == "B":
                            # documented thinning of menu B at m = 3
                            if rm == 1.0 and any(inner):
                                continue
                            if tier == "quick" and any(inner) and not (all(inner) and rm == 0.3):
                                continue
                        rho = [0.0] * m
                        for i, v in zip(free, inner):
                            rho[i] = v
                        rho[-1] = rm
                        out.append({"runs": runs, "menu": mn, "rho": rho})
        return out
    # m >= 4: a fixed family of merge patterns and rho vectors (16 for m = 4, 8 for m >= 5)
    ones = [1] * m
    alt = [0.3 if i % 2 == 0 else 0.0 for i in range(m - 1)]
    pairs = [2] * (m // 2) + ([1] if m % 2 else [])

    def merged_rho(runs, rm, inner):
        rho = [0.0] * m
        pos = 0
        for ln in runs[:-1]:
            pos += ln
            rho[pos - 1] = inner
        rho[-1] = rm
        return rho

    if m >= 5:
        out.append({"runs": ones, "menu": "A", "rho": [0.0] * (m - 1) + [0.3]})
        out.append({"runs": ones, "menu": "A", "rho": alt + [0.0]})
        out.append({"runs": ones, "menu": "A", "rho": [0.0] * (m - 1) + [1.0]})
        out.append({"runs": ones, "menu": "B", "rho": [0.3] * m})
        out.append({"runs": [m], "menu": "A", "rho": [0.0] * (m - 1) + [0.3]})
        out.append({"runs": [2] + [1] * (m - 2), "menu": "A", "rho": merged_rho([2] + [1] * (m - 2), 0.3, 0.0)})
        out.append({"runs": [1] * (m - 2) + [2], "menu": "A", "rho": merged_rho([1] * (m - 2) + [2], 0.0, 0.3)})
        out.append({"runs": pairs, "menu": "A", "rho": merged_rho(pairs, 0.3, 0.3)})
        return out
    for mn in ("A", "B"):
        out.append({"runs": ones, "menu": mn, "rho": [0.0] * (m - 1) + [0.3]})
        out.append({"runs": ones, "menu": mn, "rho": alt + [0.0]})
        out.append({"runs": ones, "menu": mn, "rho": [0.3] * m})
    out.append({"runs": ones, "menu": "A", "rho": [0.0] * (m - 1) + [1.0]})
    out.append({"runs": [m], "menu": "A", "rho": [0.0] * m})
    out.append({"runs": [m], "menu": "A", "rho": [0.0] * (m - 1) + [0.3]})
    for runs in ([2] + [1] * (m - 2), [1] * (m - 2) + [2], pairs):
        for rm, inner in ((0.3, 0.0), (0.0, 0.3)):
            out.append({"runs": runs, "menu": "A", "rho": merged_rho(runs, rm, inner)})
    return out


def option_sets(m, placement, tier):
    """option dictionaries explored for one (item, pattern)"""
    out = []
    if placement == "default":
        modes = ["none"]
    elif m == 1:
        modes = ["none", "abs", "rel"]
    else:
        modes = ["abs", "rel"]
    if m >= 5:
        # reduced family for many epochs: every option value occurs, in 8 combinations
        combos = [(True, False, modes[0], "value", "full"), (False, False, modes[0], "value", "full"),
                  (True, True, modes[0], "value", "full"), (False, True, modes[0], "value", "full"),
                  (True, False, modes[0], "edge", "full"), (False, True, modes[-1], "value", "full"),
                  (True, False, modes[-1], "edge", "full"), (True, False, modes[0], "value", "short")]
        seen = []
        for c in combos:
            if c not in seen:
                seen.append(c)
        return [{"survival": a, "removal": b, "times": c, "origin": d, "rho_form": e, "order": "id"}
                for a, b, c, d, e in seen]
    for surv in (True, False):
        for rem in (False, True):
            for tm in modes:
                for om in ("value", "edge"):
                    out.append({"survival": surv, "removal": rem, "times": tm, "origin": om,
                                "rho_form": "full", "order": "id"})
    for surv in (True, False):
        out.append({"survival": surv, "removal": False, "times": modes[0], "origin": "value",
                    "rho_form": "short", "order": "id"})
    if m == 1:
        for surv in (True, False):
            for rem in (False, True):
                out.append({"survival": surv, "removal": rem, "times": "none", "origin": "edge",
                            "rho_form": "full", "order": "rev"})
    return out


def expand(pattern, seed):
    """per-epoch rate vectors, rho and removal probabilities of a pattern; and the merged model
    (one epoch per run) with the indices of the boundaries it keeps"""
    mn = menu(pattern["menu"], seed)
    idx = []
    for k, ln in enumerate(pattern["runs"]):
        idx += [k] * ln
    lam = [mn["lam"][k] for k in idx]
    mu = [mn["mu"][k] for k in idx]
    psi = [mn["psi"][k] for k in idx]
    rem = [REMOVAL[k] for k in idx]
    keep = []  # 0-based indices into the boundary list that separate two runs
    pos = 0
    for ln in pattern["runs"][:-1]:
        pos += ln
        keep.append(pos - 1)
    return lam, mu, psi, list(pattern["rho"]), rem, idx, keep


# ------------------------------------------------------------------------------------------
# the implementation under test


def impl_skyline(tips, br, origin, bounds, lam, mu, psi, rho, rem, opt):
    """evaluate PiecewiseConstantBirthDeath.log_prob; returns (value, None) or (None, error)"""
    import torch

    from torchtree.evolution.bdsk import PiecewiseConstantBirthDeath

    T = torch.tensor
    try:
        if opt.get("order") == "rev":
            h = T(list(reversed(tips)) + list(reversed(br[:-1])) + br[-1:])
        else:
            h = T(list(tips) + list(br))
        if opt["origin"] == "edge":
            o = T([origin - br[-1]])
        else:
            o = T([origin])
        if opt["times"] == "none":
            times = None
        elif opt["times"] == "abs":
            times = T([0.0] + list(bounds))
        else:
            times = T([0.0] + [b / origin for b in bounds])
        rho_t = T(rho[-1:]) if opt.get("rho_form") == "short" else T(rho)
        d = PiecewiseConstantBirthDeath(
            T(lam), T(mu), T(psi), rho=rho_t, origin=o,
            origin_is_root_edge=(opt["origin"] == "edge"), times=times,
            relative_times=(opt["times"] == "rel"), survival=opt["survival"],
            removal_probability=T(rem) if opt["removal"] else None)
        v = d.log_prob(h)
        if tuple(v.shape) not in ((), (1,)):
            return None, f"log_prob returned shape {tuple(v.shape)}"
        return float(v.reshape(-1)[0]), None
    except Exception as e:  # the implementation failed on an in-scope input
        return None, f"{type(e).__name__}: {str(e)[:160]}"


ANCHOR_TIPS = {2: [0.0, 0.75], 3: [0.0, 0.75, 1.25], 4: [0.0, 0.75, 1.25, 2.5]}
ANCHOR_BR = {2: [1.5], 3: [1.5, 2.25], 4: [1.5, 2.25, 3.0]}
_anchor = {}


def anchor_const(n, removal):
    """impl - oracle on a fixed serially sampled tree with one epoch: the additive constant
    (depending on n and on whether a removal probability is passed) that the statement leaves
    open.  removal -> r = 1, for which the density is that of the model without the option."""
    key = (n, removal)
    if key not in _anchor:
        tips, br = ANCHOR_TIPS[n], ANCHOR_BR[n]
        origin = br[-1] + 1.0
        opt = {"survival": False, "removal": removal, "times": "none", "origin": "value"}
        v, err = impl_skyline(tips, br, origin, [], [2.0], [1.0], [0.5], [0.0], [1.0], opt)
        ref = ob.constant_rate(tips, br, origin, 2.0, 1.0, 0.5, 0.0, None, False)
        _anchor[key] = (None, err) if v is None else (v - ref, None)
    return _anchor[key]


# ------------------------------------------------------------------------------------------
# one item


def on_boundary(tips, br, origin, bounds, rho):
    """which kinds of events lie exactly on an internal boundary"""
    psi_tip = rho_tip = branch = False
    for j, b in enumerate(bounds):
        a = origin - b
        if a in tips:
            if rho[j] > 0.0:
                rho_tip = True
            else:
                psi_tip = True
        if a in br:
            branch = True
    return psi_tip, rho_tip, branch


def close(v, ref):
    return abs(v - ref) <= TOL * max(1.0, abs(ref))


def in_scope(tips, pattern_rho, opt, flags):
    # a fully contemporaneous sample needs a sampling event at the present
    if max(tips) == 0.0 and pattern_rho[-1] == 0.0:
        return False
    # removal probability is only defined for psi-sampled tips: no rho-sampled tips before the present
    if opt["removal"] and flags[1]:
        return False
    if opt.get("rho_form") == "short" and any(pattern_rho[:-1]):
        return False
    return True


def eval_case(item, pattern, opt, geo=None, cache=None):
    """evaluate one (item, pattern, options) triple; returns (list of (check, detail), sigflags,
    number of implementation evaluations, |deviation| or None)"""
    tips, br, origin, bounds = geo or geometry(item)
    n, m, seed = item["n"], item["m"], item["seed"]
    lam, mu, psi, rho, rem, idx, keep = expand(pattern, seed)
    flags = on_boundary(tips, br, origin, bounds, rho)
    sig = {"times": opt["times"], "removal": opt["removal"], "multi": m > 1,
           "psi_tip_on_boundary": flags[0], "rho_tip_on_boundary": flags[1],
           "branch_on_boundary": flags[2]}
    if not in_scope(tips, rho, opt, flags):
        return None
    if item["placement"] == "default" and ob.material_coincidences(
            tips, br, origin, bounds, lam, mu, psi, rho, rem if opt["removal"] else None):
        # The equidistant boundaries are computed by the implementation itself (cumulative sum of
        # origin/m); when one of them falls on an event time in exact arithmetic the two floating
        # point numbers may differ by one ulp in either direction, so the side of the event (or
        # whether a tip is rho-sampled) is not determined by the input.  Exact coincidences are
        # explored with explicitly given times instead.
        return None
    bad = []
    nev = 1
    v, err = impl_skyline(tips, br, origin, bounds, lam, mu, psi, rho, rem, opt)
    const, aerr = anchor_const(n, opt["removal"])
    if v is None:
        bad.append(("raises", err))
        return bad, sig, nev, None
    if not math.isfinite(v):
        bad.append(("not_finite", f"log_prob = {v!r}"))
        return bad, sig, nev, None
    if const is None:
        bad.append(("anchor_raises", f"anchor case (n={n}, one epoch, removal={opt['removal']}) raises: {aerr}"))
        return bad, sig, nev, None
    r = rem if opt["removal"] else None
    # (3) numerical integration of the master equations
    ckey = ("ax", jdump(pattern))
    if cache is not None and ckey in cache:
        ax = cache[ckey]
    else:
        ax = ob.axis(origin, bounds, lam, mu, psi, rho, tips + br)
        if cache is not None:
            cache[ckey] = ax
    acc = ob.acceptable(tips, br, origin, bounds, lam, mu, psi, rho, r, opt["survival"], ax=ax)
    dev = min(abs(v - const - a) / max(1.0, abs(a)) for a in acc)
    if not any(close(v - const, a) for a in acc):
        bad.append(("ode_value", f"log_prob {v!r} - constant {const:.12g} = {v - const!r}; master equations give "
                                 f"{acc} (one value per admissible side of an event lying on a boundary)"))
    # (1) one epoch: closed form
    if m == 1:
        ref = ob.constant_rate(tips, br, origin, lam[0], mu[0], psi[0], rho[0],
                               r[0] if r is not None else None, opt["survival"])
        if not close(ref, acc[0]):
            raise RuntimeError(f"closed form {ref!r} and integration {acc[0]!r} disagree on {item} {pattern}")
        if not close(v - const, ref):
            bad.append(("closed_form_value", f"log_prob {v!r} - constant {const:.12g} = {v - const!r}; "
                                             f"constant-rate density {ref!r}"))
    # (2) refinement: merge the runs of identical rates
    if len(pattern["runs"]) < m:
        mk = ("merged", jdump(pattern), jdump(opt))
        if cache is not None and mk in cache:
            w, werr = cache[mk]
        else:
            first = [0]
            for ln in pattern["runs"][:-1]:
                first.append(first[-1] + ln)
            last = [f + ln - 1 for f, ln in zip(first, pattern["runs"])]
            # (with the default equidistant boundaries the kept ones have to be passed explicitly)
            mopt = dict(opt, times="abs") if (opt["times"] == "none" and keep) else opt
            w, werr = impl_skyline(tips, br, origin, [bounds[i] for i in keep],
                                   [lam[i] for i in first], [mu[i] for i in first], [psi[i] for i in first],
                                   [rho[i] for i in last], [rem[i] for i in first], mopt)
            nev += 1
            if cache is not None:
                cache[mk] = (w, werr)
        if w is not None and math.isfinite(w) and not close(v, w):
            bad.append(("refinement", f"log_prob {v!r} with {m} epochs (runs {pattern['runs']} of identical rates, "
                                      f"rho = 0 inside a run) vs {w!r} with one epoch per run; boundaries "
                                      f"{bounds}, tips {tips}, branchings {br}, origin {origin}"))
    return bad, sig, nev, dev


def check_item(item):
    geo = geometry(item)
    m = item["m"]
    cache = {}
    out = []       # (check, detail, sig, case)
    nev = 0
    ncase = 0
    skipped = 0
    maxdev = 0.0
    seen = set()
    pats = patterns(m, item["tier"])
    opts = option_sets(m, item["placement"], item["tier"])
    npat = 0
    for pattern in pats:
        before = ncase
        for opt in opts + [None]:
            if opt is None:
                npat += 1 if ncase > before else 0
                continue
            if opt["times"] == "none" and item["placement"] != "default" and m > 1:
                raise RuntimeError("option set inconsistent with placement")
            res = eval_case(item, pattern, opt, geo, cache)
            if res is None:
                skipped += 1
                continue
            bad, sig, k, dev = res
            nev += k
            ncase += 1
            if dev is not None and not bad:
                maxdev = max(maxdev, dev)
            for name, detail in bad:
                s = dict(sig, check=name)
                key = jdump(s)
                if key in seen:
                    continue
                seen.add(key)
                out.append((name, detail, s, {"part": "grid", "item": item, "pattern": pattern, "opt": opt,
                                              "geo": list(geo)}))
    if ncase + skipped != len(pats) * len(opts):
        raise RuntimeError("case count does not match the size of the declared product")
    return out, nev, ncase, skipped, maxdev, npat


# ------------------------------------------------------------------------------------------
# JSON plumbing


def P(id_, v):
    return {"id": id_, "type": "Parameter", "tensor": v}


def tree_spec(inter, rule, tips, br):
    """TimeTreeModel specification of a labelled tree compatible with the event order; the
    internal heights are put in the model's own node order (root last)"""
    top, labels, order = gy.tree_of(inter, rule)
    spec = tb.time_tree(top, labels, list(tips), list(br))
    return spec, labels, order


def load_tree_and_fix_heights(spec, labels, order, br):
    import torch

    dic = tt.load(spec)
    tree = dic["tree"]
    cl = tb.index_clades(tree, labels)
    n = len(labels)
    h = [None] * (n - 1)
    age = dict(zip(order, br))
    for node, clade in cl.items():
        if node >= n:
            h[node - n] = age[clade]
    if h[-1] != br[-1]:
        raise RuntimeError("root is not the last internal node")
    dic["tree.heights"].tensor = torch.tensor(h)
    return dic


def json_items(tier, seed):
    out = []
    for n in (2, 3, 4):
        for inter in en.interleavings(n):
            rules = ("front",) if n == 2 else ("front", "last")
            for rule in rules:
                for m in (1, 2, 3):
                    out.append({"n": n, "inter": inter, "ties": [], "m": m, "seed": seed, "tier": tier,
                                "rule": rule})
    return out


def json_geometry(item):
    """one generic placement: the boundaries go into the first m-1 distinct odd gaps"""
    tree = tree_units(item["inter"], set(), item["seed"])
    D = len(tree["distinct"])
    pl = [(2 * k + 1) % D for k in range(item["m"] - 1)]
    it = dict(item, placement=sorted(pl))
    return geometry(it)


JSON_OPTS = {
    "survival": ("absent", True, False),
    "relative_times": ("absent", False, True),
    "origin_is_root_edge": ("absent", False, True),
    "removal_probability": ("absent", "param"),
    "times": ("absent", "list", "param", "ref"),
    "rho": ("absent", "short", "full"),
}


def bdsk_json_case(item, combo, geo=None):
    """Build BDSKModel from JSON with the option combination `combo` and compare with
    PiecewiseConstantBirthDeath constructed directly with the behaviour the options name."""
    import torch

    from torchtree.evolution.bdsk import PiecewiseConstantBirthDeath, epidemiology_to_birth_death

    tips, br, origin, bounds = geo or json_geometry(item)
    n, m, seed = item["n"], item["m"], item["seed"]
    mn = menu("A", seed)
    lam, mu, psi = mn["lam"][:m], mn["mu"][:m], mn["psi"][:m]
    # documented parameterisation: R = lambda/(mu+psi), delta = mu+psi, s = psi/(mu+psi)
    delta = [a + b for a, b in zip(mu, psi)]
    R = [a / d for a, d in zip(lam, delta)]
    s = [b / d for b, d in zip(psi, delta)]
    rho_full = ([0.3, 0.0, 0.2][: m - 1] + [0.25]) if m > 1 else [0.25]
    rem = REMOVAL[:m]
    surv = True if combo["survival"] == "absent" else combo["survival"]
    rel = False if combo["relative_times"] == "absent" else combo["relative_times"]
    edge = False if combo["origin_is_root_edge"] == "absent" else combo["origin_is_root_edge"]
    sig = {"options": ",".join(f"{k}={combo[k]}" for k in JSON_OPTS if combo[k] != "absent"), "multi": m > 1}
    tspec, labels, order = tree_spec(item["inter"], item["rule"], tips, br)
    spec = {"id": "bdsk", "type": "BDSKModel", "tree_model": "tree",
            "R": P("R", R), "delta": P("delta", delta), "s": P("s", s),
            "origin": P("origin", [origin - br[-1]] if edge else [origin])}
    pre = []
    tvals = [0.0] + ([b / origin for b in bounds] if rel else list(bounds))
    if combo["times"] == "list":
        spec["times"] = tvals
    elif combo["times"] == "param":
        spec["times"] = P("times", tvals)
    elif combo["times"] == "ref":
        pre.append(P("times", tvals))
        spec["times"] = "times"
    if combo["rho"] == "short":
        spec["rho"] = P("rho", rho_full[-1:])
        rho = [0.0] * (m - 1) + rho_full[-1:]
    elif combo["rho"] == "full":
        spec["rho"] = P("rho", rho_full)
        rho = rho_full
    else:
        rho = [0.0] * m
    for k in ("survival", "relative_times", "origin_is_root_edge"):
        if combo[k] != "absent":
            spec[k] = combo[k]
    if combo["removal_probability"] == "param":
        spec["removal_probability"] = P("removal", rem)
    bad = []
    # what the options name, constructed directly
    T = torch.tensor
    try:
        dic = load_tree_and_fix_heights(tspec, labels, order, br)
    except Exception as e:
        return [("json_tree_raises", f"{type(e).__name__}: {str(e)[:160]}")], sig, 0
    heights = dic["tree"].node_heights.detach().clone()
    want = werr = None
    try:
        if combo["removal_probability"] == "param":
            l_, m_, p_ = epidemiology_to_birth_death(T(R), T(delta), T(s), T(rem))
        else:
            l_, m_, p_ = T(lam), T(mu), T(psi)
        d = PiecewiseConstantBirthDeath(
            l_, m_, p_, rho=T(rho) if combo["rho"] != "short" else T(rho[-1:]),
            origin=T([origin - br[-1]] if edge else [origin]), origin_is_root_edge=edge,
            times=None if combo["times"] == "absent" else T(tvals), relative_times=rel, survival=surv,
            removal_probability=T(rem) if combo["removal_probability"] == "param" else None)
        want = float(d.log_prob(heights).reshape(-1)[0])
    except Exception as e:
        werr = f"{type(e).__name__}: {str(e)[:120]}"
    got = gerr = None
    try:
        tt.load(pre + [spec], dic)
        got = float(dic["bdsk"]().reshape(-1)[0])
    except Exception as e:
        gerr = f"{type(e).__name__}: {str(e)[:120]}"
    if want is None and got is None:
        return [], sig, 1  # the named behaviour itself fails (reported by the grid part)
    if got is None:
        words = gerr.split(":")[0]
        bad.append(("json_raises", f"BDSKModel from JSON raises {gerr}; PiecewiseConstantBirthDeath built directly "
                                   f"with the same options gives {want!r}; spec {jdump(spec)}"))
        sig = dict(sig, error=words)
    elif want is None:
        bad.append(("json_differs", f"BDSKModel from JSON gives {got!r} but the direct construction raises {werr}"))
    elif not abs(got - want) <= 1e-12 * max(1.0, abs(want)):
        bad.append(("json_differs", f"BDSKModel from JSON gives {got!r}; PiecewiseConstantBirthDeath built "
                                    f"directly with the options named gives {want!r}; spec {jdump(spec)}"))
    # value against the master equations where the parameterisation is documented
    if got is not None and combo["removal_probability"] == "absent" and not rel:
        b = bounds if combo["times"] != "absent" else [origin * k / m for k in range(1, m)]
        acc = ob.acceptable(tips, br, origin, b, lam, mu, psi, rho, None, surv)
        const, _ = anchor_const(n, False)
        if combo["times"] == "absent" and ob.material_coincidences(tips, br, origin, b, lam, mu, psi, rho):
            pass  # an event on the implementation's own equidistant grid: side undetermined (see eval_case)
        elif const is not None and not any(close(got - const, a) for a in acc):
            bad.append(("json_value", f"BDSKModel() = {got!r}; master equations give {acc} (+ constant {const:.6g})"))
    # history on the same model object: every named parameter replaced in turn, the model evaluated after
    # each replacement and compared with a model freshly built from the specification holding the new values
    if got is not None and not bad:
        import copy

        ids = [k for k in ("R", "delta", "s", "rho", "origin", "removal") if k in dic]
        cur = {}
        for k in ids:
            x = dic[k].tensor.detach().clone()
            cur[k] = x * (0.9 if k in ("s", "rho", "removal") else 1.1)
            try:
                dic[k].tensor = cur[k]
                live = float(dic["bdsk"]().reshape(-1)[0])
                spec2, pre2 = copy.deepcopy(spec), copy.deepcopy(pre)
                for o in [spec2] + list(spec2.values()) + pre2:
                    if isinstance(o, dict) and o.get("id") in cur:
                        o["tensor"] = cur[o["id"]].tolist()
                dic2 = load_tree_and_fix_heights(tspec, labels, order, br)
                tt.load(pre2 + [spec2], dic2)
                fresh = float(dic2["bdsk"]().reshape(-1)[0])
            except Exception as e:
                bad.append(("json_history", f"after replacing {list(cur)}: {type(e).__name__}: {str(e)[:120]}"))
                break
            if not (abs(live - fresh) <= 1e-12 * max(1.0, abs(fresh)) or (math.isnan(live) and math.isnan(fresh))):
                bad.append(("json_history", f"after replacing {list(cur)} in turn on one BDSKModel: model() = {live!r}, "
                                            f"a model freshly built with the same values gives {fresh!r}; "
                                            f"spec {jdump(spec)}"))
                break
    return bad, sig, 1


def bd_const_case(item, pat, how, geo=None):
    """the constant-rate classes of birth_death.py: `how` = 'dist' (BirthDeath.log_prob) or a
    survival key value for BirthDeathModel built from JSON ('absent', True, False)"""
    import torch

    from torchtree.evolution.birth_death import BirthDeath

    tips, br, origin, _ = geo or geometry(dict(item, m=1, placement=[]))
    n, seed = item["n"], item["seed"]
    mn = menu(pat["menu"], seed)
    lam, mu, psi, rho = mn["lam"][0], mn["mu"][0], mn["psi"][0], pat["rho"][0]
    if max(tips) == 0.0 and rho == 0.0:
        return None
    T = torch.tensor
    sig = {"contemporaneous": max(tips) == 0.0, "rho_positive": rho > 0.0}
    surv = True if how in ("dist", "absent") else how
    ref = ob.constant_rate(tips, br, origin, lam, mu, psi, rho, None, surv)
    key = ("bd", n)
    if key not in _anchor:
        a_t, a_b = ANCHOR_TIPS[n], ANCHOR_BR[n]
        try:
            _anchor[key] = float(BirthDeath(T([2.0]), T([1.0]), T([0.5]), T([0.0]), T([a_b[-1] + 1.0]),
                                            survival=False).log_prob(T(a_t + a_b)).reshape(-1)[0]) \
                - ob.constant_rate(a_t, a_b, a_b[-1] + 1.0, 2.0, 1.0, 0.5, 0.0, None, False)
        except Exception:
            _anchor[key] = 0.0
    const = _anchor[key]
    try:
        if how == "dist":
            d = BirthDeath(T([lam]), T([mu]), T([psi]), T([rho]), T([origin]), survival=True)
            got = float(d.log_prob(T(tips + br)).reshape(-1)[0])
        else:
            top, labels, order = gy.tree_of(item["inter"], "front")
            tspec = tb.time_tree(top, labels, list(tips), list(br))
            dic = load_tree_and_fix_heights(tspec, labels, order, br)
            spec = {"id": "bd", "type": "BirthDeathModel", "tree_model": "tree", "lambda": P("lambda", [lam]),
                    "mu": P("mu", [mu]), "psi": P("psi", [psi]), "rho": P("rho", [rho]),
                    "origin": P("origin", [origin])}
            if how != "absent":
                spec["survival"] = how
            tt.load([spec], dic)
            got = float(dic["bd"]().reshape(-1)[0])
    except Exception as e:
        name = "bd_dist_raises" if how == "dist" else "bd_model_raises"
        return [(name, f"{type(e).__name__}: {str(e)[:160]}")], dict(sig, error=type(e).__name__), 1
    if not (math.isfinite(got) and close(got - const, ref)):
        name = "bd_dist_value" if how == "dist" else "bd_model_value"
        return [(name, f"{got!r} vs constant-rate birth-death-sampling density {ref!r} "
                       f"(lambda {lam}, mu {mu}, psi {psi}, rho {rho}, origin {origin}, tips {tips}, "
                       f"branchings {br}, survival {surv})")], sig, 1
    return [], sig, 1


def check_json_item(item):
    """full cross product of the optional keys; of the failing combinations only the minimal
    ones are reported (no failing combination with a subset of its keys, same values)"""
    nev = 0
    geo = json_geometry(item)
    keys = list(JSON_OPTS)
    fails = []
    for vals in itertools.product(*[JSON_OPTS[k] for k in keys]):
        combo = dict(zip(keys, vals))
        bad, sig, k = bdsk_json_case(item, combo, geo)
        nev += k
        for name, detail in bad:
            fails.append((name, detail, dict(sig, check=name), combo))
    out = []
    for name, detail, s, combo in fails:
        present = {k: v for k, v in combo.items() if v != "absent"}
        dominated = False
        for name2, _, _, combo2 in fails:
            if name2 != name or combo2 is combo:
                continue
            present2 = {k: v for k, v in combo2.items() if v != "absent"}
            if len(present2) < len(present) and all(present.get(k) == v for k, v in present2.items()):
                dominated = True
                break
        if not dominated:
            out.append((name, detail, s, {"part": "json", "item": item, "combo": combo, "geo": list(geo)}))
    return out, nev


def check_bd_item(item):
    out = []
    nev = 0
    seen = set()
    geo = geometry(dict(item, m=1, placement=[]))
    for pat in patterns(1, item["tier"]):
        for how in ("dist", "absent", True, False):
            res = bd_const_case(item, pat, how, geo)
            if res is None:
                continue
            bad, sig, k = res
            nev += k
            for name, detail in bad:
                s = dict(sig, check=name)
                if jdump(s) in seen:
                    continue
                seen.add(jdump(s))
                out.append((name, detail, s, {"part": "bd", "item": item, "pattern": pat, "how": how,
                                              "geo": list(geo)}))
    return out, nev


# ------------------------------------------------------------------------------------------


def _work(chunk):
    res = []
    for kind, it in chunk:
        if kind == "grid":
            out, nev, ncase, skipped, maxdev, npat = check_item(it)
            res.append((kind, it, out, nev, ncase, skipped, maxdev, npat))
        elif kind == "json":
            out, nev = check_json_item(it)
            res.append((kind, it, out, nev, nev, 0, 0.0, 0))
        else:
            out, nev = check_bd_item(it)
            res.append((kind, it, out, nev, nev, 0, 0.0, 0))
    return res


def selftest():
    """the three integrators and the closed form agree; the oracle is refinement invariant"""
    tips, br, origin = [0.0, 0.75, 0.75, 2.5], [1.5, 2.25, 3.0], 4.0
    lam, mu, psi, rho = [2.1, 3.4, 1.3], [1.0, 2.3, 0.6], [0.5, 1.4, 0.8], [0.3, 0.0, 0.2]
    bounds = [0.625, 1.75]
    vals = [ob.skyline(tips, br, origin, bounds, lam, mu, psi, rho, [0.5, 0.7, 0.35], True, method=meth)
            for meth in ("taylor", "rk4", "mp")]
    if max(vals) - min(vals) > 1e-9:
        raise RuntimeError(f"integrators disagree: {vals}")
    a = ob.skyline(tips, br, origin, [], lam[:1], mu[:1], psi[:1], [0.2], [0.5], True)
    b = ob.skyline(tips, br, origin, [1.0, 3.25], lam[:1] * 3, mu[:1] * 3, psi[:1] * 3, [0.0, 0.0, 0.2],
                   [0.5] * 3, True)
    c = ob.constant_rate(tips, br, origin, lam[0], mu[0], psi[0], 0.2, 0.5, True)
    if max(abs(a - b), abs(a - c)) > 1e-11:
        raise RuntimeError(f"oracle not refinement invariant / closed form differs: {a} {b} {c}")
    return {"integrators": vals, "closed_form_minus_ode": a - c}


def run(run):
    tt.boot()
    st = selftest()
    its = items(run.tier, run.seed)
    work = [("grid", it) for it in its]
    work += [("json", it) for it in json_items(run.tier, run.seed)]
    bd_items = [{"n": n, "inter": inter, "ties": ties, "seed": run.seed, "tier": run.tier}
                for n, inter, ties in tree_patterns(run.tier)]
    work += [("bd", it) for it in bd_items]
    # big items first, round-robin over the shards
    work.sort(key=lambda w: -(w[1].get("m", 1) * 10 + w[1]["n"]) if w[0] == "grid" else -25)
    nsh = 96 if run.tier == "quick" else 384
    res = pmap(_work, [work[i::nsh] for i in range(nsh)])
    evals = cases = skipped = 0
    maxdev = 0.0
    distinct = 0
    per_m = {}
    parts = {"grid": 0, "json": 0, "bd": 0}
    found = []
    for chunk in res:
        for kind, it, out, nev, ncase, skip, dev, npat in chunk:
            evals += nev
            cases += ncase
            skipped += skip
            parts[kind] += ncase
            maxdev = max(maxdev, dev)
            if kind == "grid":
                per_m[it["m"]] = per_m.get(it["m"], 0) + 1
                if "cs" in it["inter"] or it["m"] >= 3:
                    distinct += npat
            for name, detail, sig, case in out:
                size = (it.get("m", 1), it["n"], len(it["ties"]), len(jdump(case)))
                found.append((size, case, f"{name}: {detail}", sig))
    found.sort(key=lambda f: f[0])  # smallest failing case of each signature first
    for _, case, detail, sig in found:
        run.violation(case, detail, sig)
    cov = {
        "evaluations": evals,
        "distinct_nontrivial": distinct,
        "rule": "every tree pattern (interleaving x tie pattern, n<=4) x every placement of m-1 epoch boundaries "
                "(multisets over gaps, on each sampling time, on each branching time; + default equidistant) x "
                "rate/rho pattern x option set, each compared with the integrated master equations (and the "
                "closed form for m=1, and the merged model for patterns with runs of identical rates); plus the "
                "full cross product of the optional JSON keys of BDSKModel and the BirthDeathModel/BirthDeath "
                "classes. evaluations = log_prob / model calls on the implementation; distinct_nontrivial = "
                "distinct (tree pattern, placement, rate/rho pattern) triples with a branching event between two "
                "sampling times or with at least two boundaries",
        "samples": [{"item": its[0], "pattern": patterns(1, run.tier)[0]},
                    {"item": its[len(its) // 2], "pattern": patterns(its[len(its) // 2]["m"], run.tier)[3]},
                    {"item": its[-1], "pattern": patterns(its[-1]["m"], run.tier)[-1],
                     "options": option_sets(its[-1]["m"], its[-1]["placement"], run.tier)[0]}],
        "exhaustive": True,
        "cases_compared": cases,
        "cases_outside_scope_skipped": skipped,
        "cases_per_part": parts,
        "grid_items_per_epoch_count": {str(k): v for k, v in sorted(per_m.items())},
        "tree_patterns": len(bd_items),
        "tolerance": TOL,
        "max_relative_deviation_of_passing_cases": maxdev,
        "oracle_selftest": st,
        "additive_constants_observed": {f"n={k[0]},removal={k[1]}": (v[0] if v[0] is not None else v[1])
                                        for k, v in sorted((k, v) for k, v in _anchor_parent(run).items())},
    }
    return run.finish(cov, assumptions=[
        "n <= 4 tips; m <= 3 (quick) / 8 (thorough) epochs; event times and boundaries are multiples of 1/64 "
        "with the origin a power of two, so that coincidences are exact in floating point in every time mode",
        "rates on two menus of pairwise distinct positive values (four for one epoch); rho in {0, 0.3, 1} at the "
        "present and {0, 0.3} at internal boundaries; removal probabilities distinct per run",
        "an additive constant depending only on (n, removal probability given) is allowed (measured on an anchor case)",
        "an event lying exactly on a boundary across which a rate or rho changes may take either one-sided limit; "
        "a tip lying on a boundary with rho > 0 is rho-sampled",
        "excluded as undefined: fully contemporaneous trees with rho = 0 at the present; removal probability "
        "together with rho-sampled tips before the present; rho = 1 at an internal boundary; no origin; with "
        "times=None, an event falling (in exact arithmetic) on an internal equidistant boundary across which "
        "something changes (the implementation's own grid is only accurate to one ulp)",
        "m <= 3: every merge pattern; m = 4: fixed family of 16 rate/rho patterns; m >= 5: 8 patterns x 8 option "
        "combinations (every option value occurs) and, for n = 4, no partial tie patterns; quick tier: no partial "
        "tie patterns for n = 4 at m = 3, rho = 1 at the present only with rho = 0 elsewhere at m = 3",
        "JSON part: removal-probability conversions use torchtree's own epidemiology_to_birth_death (plumbing only)",
    ])


def _anchor_parent(run):
    """the constants as measured in the parent process (workers measure them again)"""
    out = {}
    for n in (2, 3, 4):
        for rem in (False, True):
            out[(n, rem)] = anchor_const(n, rem)
    return out


def replay(case):
    part = case["part"]
    out = []
    geo = tuple(case["geo"]) if case.get("geo") else None  # explicit tips, branchings, origin, boundaries
    if part == "grid":
        res = eval_case(case["item"], case["pattern"], case["opt"], geo)
        if res is None:
            return []
        bad, sig, _, _ = res
    elif part == "json":
        bad, sig, _ = bdsk_json_case(case["item"], case["combo"], geo)
    else:
        res = bd_const_case(case["item"], case["pattern"], case["how"], geo)
        if res is None:
            return []
        bad, sig, _ = res
    for name, detail in bad:
        out.append({"case": case, "detail": f"{name}: {detail}", "sig": dict(sig, check=name)})
    return out
