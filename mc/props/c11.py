"""C11 – cached values never go stale.

Explicit-state search over operation histories on real model graphs (fixtures generated
once by torchtree-cli plus hand-written ones).  A state is reached by building a fresh
graph from its JSON specification and replaying the history; after the last operation
every observable of the live graph (every callable model, every derived parameter, node
heights, branch lengths, site-model rates ...) is compared with the same observable of a
graph freshly built from a specification holding the current base-parameter values.
States are merged on a canonical key made of every flag, scalar and cached tensor of every
reachable torchtree object."""
import itertools
import json

import numpy as np

from mc.env import tt
from mc.explore import graphstate as gs
from mc.runner import jdump, pmap

LEVEL = "model_checking"
STOCHASTIC = ("ELBO", "SELBO", "KLpq", "KLpqImportance", "VR", "CUBO")
HAND = {}  # name -> spec, filled below


def P(id_, v, **kw):
    d = {"id": id_, "type": "Parameter", "tensor": v}
    d.update(kw)
    return d


def hand_graphs():
    """hand-written graphs for the parameter kinds / classes the CLI fixtures do not contain"""
    g = {}
    # views, concatenations, a convex-combination transform holding a parameter, an affine
    # transform whose loc is a parameter, distributions over them, a joint on top
    g["hand_views_cat"] = [
        P("a", [0.7, 1.9, 0.4]),
        P("b", [2.2, 0.6]),
        {"id": "a.view", "type": "ViewParameter", "parameter": "a", "indices": "1:"},
        {"id": "ab", "type": "CatParameter", "parameters": ["a", "b"], "dim": -1},
        {"id": "w", "type": "Parameter", "tensor": [0.2, 0.3, 0.5]},
        {"id": "a.convex", "type": "TransformedParameter", "transform": "ConvexCombinationTransform",
         "x": "a", "parameters": {"weights": "w"}},
        P("loc", [1.5]),
        {"id": "b.shifted", "type": "TransformedParameter", "transform": "torch.distributions.AffineTransform",
         "x": "b", "parameters": {"loc": "loc", "scale": 1.0}},
        {"id": "joint", "type": "JointDistributionModel", "distributions": [
            {"id": "d.view", "type": "Distribution", "distribution": "torch.distributions.Gamma",
             "x": "a.view", "parameters": {"concentration": 2.0, "rate": 1.5}},
            {"id": "d.cat", "type": "Distribution", "distribution": "torch.distributions.LogNormal",
             "x": "ab", "parameters": {"loc": P("d.cat.loc", [0.1]), "scale": 1.3}},
            {"id": "d.convex", "type": "Distribution", "distribution": "torch.distributions.Gamma",
             "x": "a.convex", "parameters": {"concentration": 3.0, "rate": 2.0}},
            {"id": "d.shifted", "type": "Distribution", "distribution": "torch.distributions.Normal",
             "x": "b.shifted", "parameters": {"loc": "loc", "scale": P("d.shifted.scale", [0.8])}},
        ]},
    ]
    labels = ["t0", "t1", "t2", "t3"]
    g["hand_gammadir_named"] = [
        {"id": "prior", "type": "CompoundGammaDirichletPrior",
         "tree_model": {"id": "tree", "type": "UnRootedTreeModel", "newick": "((t0,t1),(t2,t3));",
                        "taxa": {"id": "taxa", "type": "Taxa",
                                 "taxa": [{"id": l, "type": "Taxon"} for l in labels]},
                        "branch_lengths": P("blens", [0.1, 0.25, 0.07, 0.31, 0.12])},
         "alpha": P("alpha", [1.3]), "c": P("c", [0.7]), "shape": P("shape", [2.1]), "rate": P("rate", [1.7])},
    ]
    seqs = ["ACGTACGGTA", "ACGAACGTTA", "TCGTACATTC", "TCGTACGTTC"]
    g["hand_timetree_plain"] = [
        {"id": "taxa", "type": "Taxa", "taxa": [{"id": l, "type": "Taxon", "attributes": {"date": d}}
                                                for l, d in zip(labels, [0.0, 0.5, 0.0, 1.0])]},
        {"id": "joint", "type": "JointDistributionModel", "distributions": [
            {"id": "like", "type": "TreeLikelihoodModel",
             "tree_model": {"id": "tree", "type": "TimeTreeModel", "newick": "((t0,t1),(t2,t3));",
                            "taxa": "taxa", "internal_heights": P("heights", [1.2, 1.9, 3.1])},
             "site_model": {"id": "site", "type": "ConstantSiteModel"},
             "substitution_model": {"id": "subst", "type": "JC69"},
             "branch_model": {"id": "clock", "type": "StrictClockModel", "tree_model": "tree",
                              "rate": P("rate", [0.07])},
             "site_pattern": {"id": "sp", "type": "SitePattern", "alignment": {
                 "id": "aln", "type": "Alignment", "datatype": "nucleotide", "taxa": "taxa",
                 "sequences": [{"taxon": l, "sequence": q} for l, q in zip(labels, seqs)]}}},
            {"id": "coalescent", "type": "ConstantCoalescentModel", "theta": P("theta", [2.5]),
             "tree_model": "tree"},
        ]},
    ]
    g["hand_birth_death_constant"] = [
        {"id": "taxa", "type": "Taxa", "taxa": [{"id": l, "type": "Taxon", "attributes": {"date": d}}
                                                for l, d in zip(labels, [0.0, 0.5, 0.0, 1.0])]},
        {"id": "bd", "type": "BirthDeathModel",
         "tree_model": {"id": "tree", "type": "ReparameterizedTimeTreeModel", "newick": "((t0,t1),(t2,t3));",
                        "taxa": "taxa", "ratios": P("tree.ratios", [0.4, 0.7]),
                        "root_height": P("tree.root_height", [3.1])},
         "lambda": P("bd.lambda", [2.1]), "mu": P("bd.mu", [0.9]), "psi": P("bd.psi", [0.6]),
         "rho": P("bd.rho", [0.3]), "origin": P("bd.origin", [4.5])},
    ]
    return g


C12_GRAPHS = ("tree:4:7:1:ratio", "tree:4:2:0:shift", "treelike:4:5:1:ratio", "gmrf:weights:3",
              "gmrf:integrated:3", "gmrf:integrated_weights:3", "gmrf:covariate:3", "gmrf:exp_field:3",
              "misc:scale_mixture", "misc:bridge", "misc:mvn", "misc:dists",
              "subst:GeneralSymHKY:weibull3_inv_mu:missing", "subst:GeneralNonSym:weibull4_inv:states",
              "subst:GeneralSymId:invariant:missing", "subst:MG94:weibull2:states", "unrooted:4:1",
              "subst:JC69:constant_mu:missing")
_GRAPH_CACHE = {}
THOROUGH_ONLY = {"c12/tree:4:2:0:shift"}
DEEP_MAX = 40


def all_graphs():
    if not _GRAPH_CACHE:
        out = {name: gs.load_fixture(name) for name in gs.fixtures()}
        out.update(hand_graphs())
        # model graphs written for the gradient check (C12): tree priors incl. the integrated ones,
        # GMRF variants, scale mixture, Bayesian bridge, multivariate normal, torchtree distributions
        from mc.props import c12

        for gid in C12_GRAPHS:
            out["c12/" + gid] = c12.graph(gid)[0]
        # an invariant-sites model with a rate multiplier (not among the C12 site models)
        import copy

        spec = copy.deepcopy(c12.graph("subst:HKY:invariant:missing")[0])

        def add_mu(o):
            if isinstance(o, dict):
                if o.get("type") == "InvariantSiteModel":
                    o["mu"] = P(o["id"] + ".mu", [1.7])
                for v in o.values():
                    add_mu(v)
            elif isinstance(o, list):
                for v in o:
                    add_mu(v)

        add_mu(spec)
        out["hand_invariant_mu"] = spec
        _GRAPH_CACHE.update(out)
    return _GRAPH_CACHE


# -- operations --------------------------------------------------------------------------------

def alphabet(name, spec, reduced):
    """list of operations (JSON-able tuples) for one graph, simplest first"""
    import torch

    from torchtree.core.abstractparameter import AbstractParameter
    from torchtree.core.model import CallableModel
    from torchtree.core.parameter import Parameter
    from torchtree.distributions.distributions import Distribution

    dic = tt.load(spec)
    ops = []
    base = gs.base_parameters(dic)
    # parameters that feed nothing observable (hyper-parameters given as plain numbers are anonymous)
    ev = []
    for k in sorted(dic, key=str):
        o = dic[k]
        if isinstance(o, CallableModel) and type(o).__name__ not in STOCHASTIC:
            ev.append(k)
    ops.append(("eval_all",))
    evs = ev if not reduced else [k for k in ev if k in ("joint", "like", "tree")]
    for k in evs:
        ops.append(("eval", k))
    for k in (base if not reduced else base[::max(1, len(base) // 5)][:5]):
        ops.append(("set", k, 1))
        if not reduced:
            ops.append(("set", k, 2))
    derived = [k for k in sorted(dic, key=str) if isinstance(dic[k], AbstractParameter)
               and type(dic[k]) is not Parameter]
    for k in (derived if not reduced else derived[::max(1, len(derived) // 3)][:3]):
        ops.append(("set_through", k))
    for k in base[: (1 if reduced else 4)]:
        ops.append(("inplace", k))
    for k in sorted(dic, key=str):
        o = dic[k]
        cls = type(o).__name__
        if cls.endswith("Operator") and cls != "HMCOperator":
            nop = sum(1 for o_ in ops if o_[0] == "op_reject")
            if reduced and nop >= 2:
                continue
            ops.append(("op_accept", k))
            ops.append(("op_reject", k))
        if cls == "Optimizer" and not reduced and "LBFGS" not in type(o.optimizer).__name__:
            # the real optimisation loop (in-place steps + notification): two iterations, and a
            # run that its convergence monitor ends after the first iteration
            ops.append(("opt_run", k))
            if o.convergence is not None:
                ops.append(("opt_run_stop", k))
        if isinstance(o, Distribution) and not reduced:
            ops.append(("sample", k))
        if cls in STOCHASTIC:
            ops.append(("objective", k))
    return [o for o in ops if meaningful(spec, o)]


def meaningful(spec, op):
    """an assignment through a derived parameter is an update of the model only if it can be
    expressed in the base parameters (the transform is invertible): after the assignment a
    graph rebuilt from the base values must show the assigned value.  A draw that changes the
    shape of the variable it is written into is not an update of the same model either."""
    import torch

    if op[0] not in ("set_through", "sample"):
        return True
    try:
        dic = tt.load(spec)
        shapes = {k: v.shape for k, v in gs.base_values(dic).items()}
        if op[0] == "sample":
            torch.manual_seed(977)
            dic[op[1]].sample()
            vals = gs.base_values(dic)
            return all(vals[k].shape == shapes[k] and bool(torch.isfinite(vals[k]).all()) for k in shapes)
        cur = dic[op[1]].tensor.detach().clone()
        y = _nudge(cur)
        dic[op[1]].tensor = y
        vals = gs.base_values(dic)
        if any(vals[k].shape != shapes[k] for k in shapes):
            return False
        fresh = tt.load(gs.with_values(spec, vals))
        return gs.same(fresh[op[1]].tensor.detach(), y, rtol=1e-9)
    except Exception:
        return False


def alt_value(x0, j):
    """a different generic value of the same shape (unconstrained parameters: additive)"""
    import torch

    n = x0.numel()
    pat = torch.tensor([((3 * i + j) % 5 - 2) * 0.07 + 0.031 * j for i in range(n)]).reshape(x0.shape)
    return x0 + pat.to(x0.dtype)


def safe_alt(dic, k, j):
    """alternative value for base parameter k that keeps it in its domain: parameters that are
    used directly (no transform) keep sign/normalisation by a multiplicative change"""
    import torch

    x0 = dic[k].tensor.detach().clone()
    if k.endswith((".unres", ".log", ".unshifted")) or bool((x0 < 0).any()):
        return alt_value(x0, j)
    y = x0 * (1.0 + 0.1 * j) + (0.0 if bool((x0 != 0).all()) else 0.05)
    s = float(x0.sum())
    if x0.numel() > 1 and abs(s - 1.0) < 1e-9:  # a simplex stays a simplex
        y = x0.clone()
        y[0] = y[0] * (1.0 - 0.2 * j / 3.0)
        y = y / y.sum()
    return y


def apply(dic, spec0, op, pos):
    """apply one operation to the live graph; returns (name, detail) of a violation or None"""
    import torch

    kind = op[0]
    if kind == "eval_all":
        gs.observe(dic)
        return None
    if kind == "eval":
        try:
            dic[op[1]]()
        except Exception:
            pass  # failures of evaluation are compared with the fresh graph by the probe
        return None
    try:
        if kind == "set":
            x0 = INITIAL[id(spec0)][op[1]]
            dic[op[1]].tensor = safe_alt({op[1]: _Wrap(x0)}, op[1], op[2])
        elif kind == "set_through":
            cur = dic[op[1]].tensor.detach().clone()
            dic[op[1]].tensor = cur * 1.0 if not cur.is_floating_point() else _nudge(cur)
        elif kind == "inplace":
            with torch.no_grad():
                dic[op[1]].tensor.add_(0.013)
            dic[op[1]].fire_parameter_changed()
        elif kind == "grad":
            dic[op[1]].requires_grad = True
        elif kind in ("op_accept", "op_reject"):
            torch.manual_seed(4242 + pos)
            dic[op[1]].step()
            if kind == "op_accept":
                dic[op[1]].accept()
            else:
                dic[op[1]].reject()
        elif kind in ("opt_run", "opt_run_stop"):
            import contextlib
            import io

            torch.manual_seed(555 + pos)
            o = dic[op[1]]
            o.iterations = o._epoch + 1
            o.checkpoint = None
            o.loggers = []
            if o.convergence is not None:
                o.convergence.every = 1
                o.convergence.tol_rel_obj = 1e9 if kind == "opt_run_stop" else -1.0
            with contextlib.redirect_stdout(io.StringIO()):
                o.run()
        elif kind == "sample":
            torch.manual_seed(977 + pos)
            dic[op[1]].sample()
        elif kind == "objective":
            torch.manual_seed(31 + pos)
            dic[op[1]]()
    except NotImplementedError as e:
        return ("unsupported", f"{op}: {type(e).__name__}")
    except Exception as e:
        return ("update_raises", f"{op}: {type(e).__name__}: {str(e)[:160]}")
    return None


class _Wrap:
    def __init__(self, t):
        self.tensor = t


def _nudge(cur):
    """a nearby value inside the image of the transform (positive stays positive, a simplex
    stays a simplex)"""
    import torch

    if cur.numel() > 1 and abs(float(cur.sum()) - 1.0) < 1e-9 and bool((cur > 0).all()):
        y = cur.clone()
        y[..., 0] = y[..., 0] * 0.9
        return y / y.sum(-1, keepdim=True)
    return cur * 1.05 if bool((cur != 0).all()) else cur + 0.02


INITIAL = {}


def probe(dic, spec0, cache, reverse=False):
    """compare every observable of the live graph with a graph freshly built from the current
    base values; returns list of (name, detail)"""
    import torch

    vals = gs.base_values(dic)
    for k, v in vals.items():
        if not bool(torch.isfinite(v).all()):
            return "nonfinite", []  # the history left the domain (e.g. a draw of 0): not judged
    key = tuple((k, tuple(v.reshape(-1).tolist())) for k, v in sorted(vals.items()))
    if key not in cache:
        try:
            fresh = tt.load(gs.with_values(spec0, vals))
            cache[key] = gs.observe(fresh)
        except Exception:
            cache[key] = None  # the history changed the shape of a parameter: no comparable fresh graph
    ref = cache[key]
    if ref is None:
        return "unbuildable", []
    live = gs.observe(dic, reverse=reverse)
    bad = []
    for name, rv in ref.items():
        lv = live.get(name)
        if lv is None:
            continue
        if not gs.same(lv, rv):
            if isinstance(lv, tuple):
                bad.append((name, f"raises on the live graph ({lv[1]}) but not on a fresh one"))
            elif isinstance(rv, tuple):
                continue  # fails on a fresh graph as well: not a staleness issue
            else:
                bad.append((name, f"live {lv.reshape(-1)[:4].tolist()} vs fresh {rv.reshape(-1)[:4].tolist()}"))
    return "ok", bad


def explore(item):
    name, depth, reduced = item["graph"], item["depth"], item["reduced"]
    spec0 = all_graphs()[name]
    first = tt.load(spec0)
    INITIAL[id(spec0)] = gs.base_values(first)
    ops = alphabet(name, spec0, reduced)
    if item.get("ops_slice"):
        lo, hi = item["ops_slice"]
        first_ops = ops[lo:hi]
    else:
        first_ops = ops
    cache = {}
    seen = {gs.state_key(first)}
    frontier = [[o] for o in first_ops]
    viols = []
    ntrans = 0
    nstates = 1
    maxdepth = 0
    unsupported = set()
    sample = None
    while frontier:
        hist = frontier.pop(0)
        dic = tt.load(spec0)
        err = None
        for pos, op in enumerate(hist):
            err = apply(dic, spec0, op, pos)
            if err:
                break
        ntrans += 1
        if err:
            if err[0] == "unsupported":
                unsupported.add(jdump(hist[-1]))
                continue
            viols.append({"case": {"graph": name, "history": hist},
                          "detail": f"[{name}] {hist}: {err[0]}: {err[1]}",
                          "sig": {"graph": name, "check": err[0], "last_op": hist[-1][0],
                                  "target": str(hist[-1][1]) if len(hist[-1]) > 1 else ""}})
            continue
        key_now = gs.state_key(dic) if len(hist) < depth else None  # before the probe fills caches
        status, bad = probe(dic, spec0, cache)
        if status != "ok":
            continue
        if not bad and not reduced:
            # the order in which the observables are read must not matter: second replica,
            # observables read in the opposite order
            dic_r = tt.load(spec0)
            for pos, op in enumerate(hist):
                apply(dic_r, spec0, op, pos)
            _, bad = probe(dic_r, spec0, cache, reverse=True)
            ntrans += 1
        for obs, detail in bad[:3]:
            upd = [o for o in hist if o[0] not in ("eval", "eval_all")]
            viols.append({"case": {"graph": name, "history": hist},
                          "detail": f"[{name}] after {hist}: {obs} is stale: {detail}",
                          "sig": {"graph": name, "check": "stale", "observable": obs,
                                  "last_update": jdump(upd[-1]) if upd else ""}})
        if bad:
            continue  # do not expand states that already violate
        # state after the history *before* the probe: replay once more (probe evaluated everything)
        if len(hist) < depth:
            k = key_now
            if k not in seen:
                seen.add(k)
                nstates += 1
                maxdepth = max(maxdepth, len(hist))
                if sample is None and len(hist) == 2:
                    sample = hist
                for o in ops:
                    frontier.append(hist + [o])
    return {"graph": name, "viols": viols, "states": nstates, "transitions": ntrans,
            "maxdepth": maxdepth, "nops": len(ops), "unsupported": sorted(unsupported),
            "sample": sample, "ops": [list(o) for o in ops[:60]]}


def classes_covered():
    names = set()
    for name, spec in all_graphs().items():
        dic = tt.load(spec)
        stack = list(dic.values())
        seen = set()
        while stack:
            o = stack.pop()
            if id(o) in seen:
                continue
            seen.add(id(o))
            names.add(type(o).__name__)
            for v in getattr(o, "__dict__", {}).values():
                if hasattr(v, "__dict__") and type(v).__module__.startswith("torchtree"):
                    stack.append(v)
                elif isinstance(v, dict):
                    stack.extend(x for x in v.values() if hasattr(x, "__dict__")
                                 and type(x).__module__.startswith("torchtree"))
            if hasattr(o, "transform"):
                names.add(type(o.transform).__name__)
    return names


EXCLUDED = {
    "NormalizingFlow": "neural flow (nn.Module state), out of scope of the parameter protocol",
    "RealNVP": "neural flow", "Module": "nn.Module wrapper", "ModuleParameter": "nn.Module wrapper",
    "Hamiltonian": "built inside the HMC operator per step, holds no cache across steps",
    "AttributePattern": "static data", "SitePattern": "static data (covered as part of every likelihood graph)",
    "FlexibleTimeTreeModel": "topology-changing tree, not reachable from the CLI",
    "PoissonTreeLikelihood": "not covered (no fixture)", 
    "DeterministicNormal": "not covered (no fixture)",
    
    
    "PiecewiseExponentialCoalescentGridModel": "cannot be evaluated at all (C08 finding)",
    "KLpq": "no fixture", "KLpqImportance": "no fixture", "SELBO": "no fixture", "VR": "no fixture", "CUBO": "no fixture",
    "EmpiricalSubstitutionModel": "no parameters", "GeneralJC69": "no parameters",
    "LG": "no parameters", "WAG": "no parameters",
}


def run(run):
    tt.boot()
    quick = run.tier == "quick"
    graphs = sorted(g for g in all_graphs() if not (quick and g in THOROUGH_ONLY))
    items = []
    for g in graphs:
        n_ops = len(alphabet(g, all_graphs()[g], False))
        # full alphabet to depth 2 (thorough 3), reduced alphabet one level deeper
        # (thorough: depth 3 for alphabets of at most DEEP_MAX operations, the larger graphs stay at 2)
        deep = (not quick) and n_ops <= DEEP_MAX
        step = 2 if deep else 6
        for lo in range(0, n_ops, step):
            items.append({"graph": g, "depth": 3 if deep else 2, "reduced": False, "ops_slice": [lo, lo + step]})
        n_red = len(alphabet(g, all_graphs()[g], True))
        for lo in range(0, n_red, 3):
            items.append({"graph": g, "depth": 3 if quick else 4, "reduced": True, "ops_slice": [lo, lo + 3]})
    res = pmap(explore, items)
    states = trans = 0
    per = {}
    samples = []
    for r in res:
        states += r["states"]
        trans += r["transitions"]
        p_ = per.setdefault(r["graph"], {"states": 0, "transitions": 0, "alphabet": r["nops"],
                                          "unsupported_ops": set()})
        p_["states"] += r["states"]
        p_["transitions"] += r["transitions"]
        p_["unsupported_ops"] |= set(r["unsupported"])
        if r["sample"] and len(samples) < 4:
            samples.append({"graph": r["graph"], "history": r["sample"]})
        run.absorb(r["viols"])
    for p_ in per.values():
        p_["unsupported_ops"] = sorted(p_["unsupported_ops"])
    # registry coverage
    from torchtree.core.abstractparameter import AbstractParameter
    from torchtree.core.model import Model
    from torchtree.core.utils import REGISTERED_CLASSES
    import inspect

    covered = classes_covered()
    missing = []
    for k, v in REGISTERED_CLASSES.items():
        if inspect.isclass(v) and issubclass(v, (Model, AbstractParameter)):
            if k not in covered and k not in EXCLUDED:
                missing.append(k)
    if missing:
        raise RuntimeError(f"registered model/parameter classes neither in a graph nor excluded: {missing}")
    samples.append({"alphabet_example": res[0]["ops"][:12]})
    cov = {
        "states": states,
        "transitions": trans,
        "traces_validated_against_impl": trans,
        "samples": samples,
        "exhaustive": True,
        "bound": f"all histories over the full alphabet to depth {2 if quick else f'3 (graphs with at most {DEEP_MAX} operations; 2 for the larger ones)'} and over the reduced "
                 f"alphabet to depth {3 if quick else 4}, each followed by a probe of every observable; states "
                 "merged on the canonical key (search started from every first operation independently)",
        "graphs": per,
        "classes_covered": sorted(covered),
        "classes_excluded": {k: v for k, v in EXCLUDED.items() if k not in covered},
    }
    return run.finish(cov, assumptions=[
        "graphs: torchtree-cli generated fixtures (committed JSON) + hand-written graphs; 4 taxa",
        "two objects are in the same state when every flag, scalar and cached tensor reachable from the registry agrees",
        "observables failing on a freshly built graph as well are not judged (they belong to other properties)",
    ])


def replay(case):
    spec0 = all_graphs()[case["graph"]]
    first = tt.load(spec0)
    INITIAL[id(spec0)] = gs.base_values(first)
    dic = tt.load(spec0)
    out = []
    hist = [tuple(o) for o in case["history"]]
    for pos, op in enumerate(hist):
        err = apply(dic, spec0, op, pos)
        if err and err[0] != "unsupported":
            return [{"case": case, "detail": f"{err[0]}: {err[1]}",
                     "sig": {"graph": case["graph"], "check": err[0], "last_op": op[0],
                             "target": str(op[1]) if len(op) > 1 else ""}}]
    status, bad = probe(dic, spec0, {})
    upd = [o for o in hist if o[0] not in ("eval", "eval_all")]
    for obs, detail in bad:
        out.append({"case": case, "detail": f"{obs} is stale: {detail}",
                    "sig": {"graph": case["graph"], "check": "stale", "observable": obs,
                            "last_update": jdump(upd[-1]) if upd else ""}})
    return out
