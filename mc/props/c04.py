"""C04 – P(t) = exp(Qt) of a properly normalised rate matrix.

Exhaustive enumeration of a finite lattice of (model, parameters) x t, compared on
every point with an independent numpy reference (rate matrix from the documented
parameterisation, matrix exponential by scaling-and-squaring Taylor, mpmath as
arbiter when the two disagree)."""
import itertools

import numpy as np

from mc.env import tt
from mc.oracle import expm as oexpm
from mc.oracle import ratematrix as orm
from mc.runner import chunked, jdump, pmap

LEVEL = "exploration"
TS = [0.0, 1e-6, 1e-3, 0.01, 0.1, 0.5, 1.0, 2.0, 10.0, 100.0]
TOL_P = 1e-9
SEMI = [(0.01, 0.1), (0.1, 0.5), (0.5, 0.5), (1.0, 2.0), (2.0, 10.0), (1e-3, 100.0)]

AA_LG = "torchtree.evolution.substitution_model.amino_acid.LG"
AA_WAG = "torchtree.evolution.substitution_model.amino_acid.WAG"


def P(id_, v):
    return {"id": id_, "type": "Parameter", "tensor": v}


def compositions(total, parts):
    """all ways to write total as an ordered sum of `parts` positive integers"""
    if parts == 1:
        yield (total,)
        return
    for first in range(1, total - parts + 2):
        for rest in compositions(total - first, parts - 1):
            yield (first,) + rest


def freq_lattice4(tier):
    pts = [tuple(c / 10.0 for c in comp) for comp in compositions(10, 4)]
    assert len(pts) == 84
    if tier == "thorough":  # the twentieths lattice contains the tenths lattice
        pts = [tuple(c / 20.0 for c in comp) for comp in compositions(20, 4)]
        assert len(pts) == 969
    pts += [(0.001, 0.002, 0.003, 0.994), (0.97, 0.01, 0.01, 0.01), (0.4989, 0.001, 0.4991, 0.001)]
    if tier == "quick":
        pts = pts[::4] + pts[-3:]
    return pts + tiny_freqs(4)


def tiny_freqs(n):
    """magnitude sweep of the smallest frequency, at every position"""
    base = [0.1 * (i + 1) for i in range(n)]
    out = []
    for eps in (1e-4, 2e-5, 1e-6, 1e-8):
        for pos in range(n):
            v = list(base)
            v[pos] = eps
            s = sum(v)
            out.append(tuple(x / s for x in v))
    return out


FREQ6 = [(0.25, 0.25, 0.25, 0.25), (0.1, 0.2, 0.3, 0.4), (0.4, 0.3, 0.2, 0.1),
         (0.001, 0.002, 0.003, 0.994), (0.7, 0.1, 0.15, 0.05), (0.05, 0.45, 0.05, 0.45)]


def jitter(vals, seed, k):
    """seed-dependent generic offset of continuous values (seed 0: none)"""
    if seed == 0:
        return list(vals)
    rng = np.random.default_rng(seed * 7919 + k)
    return [float(v * (1.0 + 1e-3 * rng.uniform(-1, 1))) for v in vals]


def renorm(pi):
    s = sum(pi)
    return [p / s for p in pi]


# -- the case list ---------------------------------------------------------------------

def cases(tier, seed):
    out = []
    k = 0
    # JC69 / GeneralJC69
    out.append({"model": "JC69"})
    for n in (2, 3, 4, 5, 6, 20, 61):
        out.append({"model": "GeneralJC69", "n": n})
    # HKY
    kappas = [1e-2, 0.1, 0.5, 1.0, 2.0, 10.0, 100.0]
    for kap in kappas:
        for pi in freq_lattice4(tier):
            k += 1
            out.append({"model": "HKY", "kappa": jitter([kap], seed, k)[0],
                        "pi": renorm(jitter(pi, seed, k))})
    # GTR
    rl = [1e-4, 1.0, 1e4] if tier == "quick" else [1e-4, 1e-2, 1.0, 1e4]
    rate_pts = list(itertools.product(rl, repeat=6))
    if tier == "quick":
        rate_pts = rate_pts[::9]
    for rates in rate_pts:
        for pi in (FREQ6 if tier == "thorough" else FREQ6[1:4]):
            k += 1
            out.append({"model": "GTR", "rates": jitter(rates, seed, k),
                        "pi": renorm(jitter(pi, seed, k))})
    # moderately generic GTR points (distinct rates)
    for pi in FREQ6 + tiny_freqs(4):
        k += 1
        out.append({"model": "GTR", "rates": jitter([0.7, 2.3, 0.4, 1.1, 3.7, 1.0], seed, k),
                    "pi": renorm(jitter(pi, seed, k))})
    # general symmetric: every mapping of the 6 (4 states) / 3 (3 states) positions onto K<=3 rates
    for m, npos in ((4, 6), (3, 3)):
        pis = [FREQ6[1], FREQ6[4]] if m == 4 else [(0.2, 0.3, 0.5), (0.6, 0.3, 0.1)]
        maps = list(itertools.product(range(3), repeat=npos))
        if tier == "quick" and m == 4:
            maps = maps[::3]
        for mp in maps:
            for pi in pis:
                for rates in ([0.3, 1.7, 4.1], [2.5, 0.6, 0.05]):
                    k += 1
                    out.append({"model": "GeneralSymmetric", "m": m, "mapping": list(mp),
                                "rates": jitter(rates, seed, k), "pi": renorm(jitter(pi, seed, k))})
    for pi in tiny_freqs(4)[::3]:
        out.append({"model": "GeneralSymmetric", "m": 4, "mapping": [0, 1, 0, 0, 1, 0],
                    "rates": [0.9, 3.1], "pi": list(pi)})
    # identity mapping (GTR-like) on 4 and 5 states
    out.append({"model": "GeneralSymmetric", "m": 4, "mapping": list(range(6)),
                "rates": [0.7, 2.3, 0.4, 1.1, 3.7, 1.0], "pi": list(FREQ6[1])})
    out.append({"model": "GeneralSymmetric", "m": 5, "mapping": list(range(10)),
                "rates": [0.7, 2.3, 0.4, 1.1, 3.7, 1.0, 0.2, 5.0, 0.9, 1.3],
                "pi": [0.1, 0.15, 0.2, 0.25, 0.3]})
    # general non-symmetric: every mapping onto <=2 rates + identity
    for m, npos in ((3, 6), (4, 12)):
        pis = [FREQ6[1]] if m == 4 else [(0.2, 0.3, 0.5)]
        maps = list(itertools.product(range(2), repeat=npos))
        if m == 4:
            maps = maps[::(16 if tier == "quick" else 2)]
        for mp in maps:
            for pi in pis:
                k += 1
                out.append({"model": "GeneralNonSymmetric", "m": m, "mapping": list(mp),
                            "rates": jitter([0.4, 2.9], seed, k), "pi": renorm(jitter(pi, seed, k))})
        out.append({"model": "GeneralNonSymmetric", "m": m, "mapping": list(range(npos)),
                    "rates": [0.3 + 0.37 * i for i in range(npos)], "pi": list(pis[0])})
    # empirical amino-acid models
    out.append({"model": "LG"})
    out.append({"model": "WAG"})
    # MG94, every genetic code
    codes = ["Universal", "Vertebrate Mitochondrial", "Yeast", "Mold Protozoan Mitochondrial",
             "Mycoplasma", "Invertebrate Mitochondrial", "Ciliate", "Echinoderm Mitochondrial",
             "Euplotid Nuclear", "Bacterial", "Alternative Yeast", "Ascidian Mitochondrial",
             "Flatworm Mitochondrial", "Blepharisma Nuclear", "No stops"]
    abk = list(itertools.product([0.1, 1.0, 5.0], repeat=3))
    if tier == "quick":
        abk = [(0.1, 1.0, 5.0), (5.0, 0.1, 1.0), (1.0, 5.0, 0.1)]
    for code in codes:
        for (a, b, kap) in abk:
            for fkind in ("equal", "skewed", "tiny"):
                k += 1
                a2, b2, k2 = jitter([a, b, kap], seed, k)
                out.append({"model": "MG94", "code": code, "alpha": a2, "beta": b2,
                            "kappa": k2, "freq": fkind})
    return out


def codon_freqs(n, kind):
    if kind == "equal":
        return [1.0 / n] * n
    if kind == "tiny":
        w = np.array([1.0 + ((7 * i) % 11) for i in range(n)], dtype=float)
        w[3] = 1e-5
        w[n - 2] = 1e-3
        return (w / w.sum()).tolist()
    w = np.array([1.0 + ((7 * i) % 11) for i in range(n)], dtype=float)
    return (w / w.sum()).tolist()


# -- building the implementation object and the reference -----------------------------

def build(case):
    """returns (model, Q_ref_unnormalised, pi, reversible)"""
    import torch

    m = case["model"]
    if m == "JC69":
        spec = {"id": "m", "type": "JC69"}
        Q, pi = orm.jc69(4), [0.25] * 4
    elif m == "GeneralJC69":
        n = case["n"]
        spec = {"id": "m", "type": "GeneralJC69", "state_count": n}
        Q, pi = orm.jc69(n), [1.0 / n] * n
    elif m == "HKY":
        spec = {"id": "m", "type": "HKY", "kappa": P("k", [case["kappa"]]),
                "frequencies": P("f", case["pi"])}
        Q, pi = orm.hky(case["kappa"], case["pi"]), case["pi"]
    elif m == "GTR":
        spec = {"id": "m", "type": "GTR", "rates": P("r", case["rates"]),
                "frequencies": P("f", case["pi"])}
        Q, pi = orm.gtr(case["rates"], case["pi"]), case["pi"]
    elif m in ("GeneralSymmetric", "GeneralNonSymmetric"):
        codes = list("ACGTE")[: case["m"]]
        spec = {"id": "m",
                "type": "GeneralSymmetricSubstitutionModel" if m == "GeneralSymmetric"
                else "GeneralNonSymmetricSubstitutionModel",
                "data_type": {"id": "dt", "type": "GeneralDataType", "codes": codes},
                "mapping": case["mapping"], "rates": P("r", case["rates"]),
                "frequencies": P("f", case["pi"])}
        fn = orm.general_symmetric if m == "GeneralSymmetric" else orm.general_nonsymmetric
        Q, pi = fn(case["mapping"], case["rates"], case["pi"]), case["pi"]
    elif m in ("LG", "WAG"):
        spec = {"id": "m", "type": AA_LG if m == "LG" else AA_WAG}
        Q = pi = None  # taken from the published tables the model exposes, below
    elif m == "MG94":
        from torchtree.evolution.datatype import CodonDataType

        idx = [c.lower() for c in CodonDataType.GENETIC_CODE_NAMES].index(case["code"].lower())
        table = CodonDataType.GENETIC_CODE_TABLES[idx]
        nsense = sum(1 for c in table if c != "*")
        pi = codon_freqs(nsense, case["freq"])
        spec = {"id": "m", "type": "MG94",
                "data_type": {"id": "dt", "type": "CodonDataType", "genetic_code": case["code"]},
                "alpha": P("a", [case["alpha"]]), "beta": P("b", [case["beta"]]),
                "kappa": P("k", [case["kappa"]]), "frequencies": P("f", pi)}
        Q, _ = orm.mg94(table, case["alpha"], case["beta"], case["kappa"], pi)
    else:
        raise ValueError(m)
    dic = tt.load(spec)
    model = dic["m"]
    if m in ("LG", "WAG"):
        pi = model.frequencies.tolist()
        Q = orm.empirical(model._rates.tolist(), pi)
    return model, np.asarray(Q), np.asarray(pi, dtype=float), m != "GeneralNonSymmetric"


def check_case(case):
    """returns list of (check_name, detail)"""
    import torch

    bad = []
    try:
        model, Qref, pi, reversible = build(case)
    except Exception as e:
        return [("build", f"cannot build/evaluate the model: {type(e).__name__}: {e}")]
    n = len(pi)
    try:
        Q = model.q().detach().numpy().reshape(n, n)
        t = torch.tensor(TS).reshape(-1, 1)
        Pm = model.p_t(t).detach().numpy().reshape(len(TS), n, n)
        # the likelihood passes t with shape [branches, categories]: every arrangement of
        # the same values must give the same matrices
        for shape in ((5, 2), (2, 5), (1, 10)):
            Pk = model.p_t(torch.tensor(TS).reshape(shape)).detach().numpy()
            if Pk.shape != shape + (n, n):
                bad.append(("p_t_shape", f"t of shape {shape} gives P of shape {Pk.shape}"))
            else:
                ek = np.abs(Pk.reshape(len(TS), n, n) - Pm).max()
                if ek > 1e-12:
                    bad.append(("p_t_shape", f"t of shape {shape} (branches x categories) "
                                             f"differs from the same values one by one: {ek:.3e}"))
        fr = model.frequencies.detach().numpy().reshape(-1)
    except Exception as e:
        return [("evaluate", f"q()/p_t() raised {type(e).__name__}: {e}")]
    scale = max(1.0, float(np.abs(Q).max()))
    if np.abs(Q.sum(axis=1)).max() > 1e-12 * scale * n:
        bad.append(("q_rows_sum_zero", f"max |row sum| = {np.abs(Q.sum(axis=1)).max():.3e}"))
    off = Q - np.diag(np.diag(Q))
    if off.min() < 0:
        bad.append(("q_offdiag_nonneg", f"min off-diagonal = {off.min():.3e}"))
    if np.abs(fr - pi).max() > 1e-14:
        bad.append(("frequencies", "model.frequencies differ from the supplied ones"))
    err_q = np.abs(Q - Qref).max() / max(1e-300, np.abs(Qref).max())
    if err_q > 1e-12:
        bad.append(("q_matches_parameterisation",
                    f"q() differs from the documented rate matrix: rel {err_q:.3e}"))
    Qn = orm.normalise(Qref, pi)
    # P(t) against the reference exponential
    A = np.stack([Qn * tt_ for tt_ in TS])
    Pref = oexpm.expm(A)
    err = np.abs(Pm - Pref).reshape(len(TS), -1).max(axis=1)
    for i, e in enumerate(err):
        if not (e <= TOL_P):
            e2 = e
            if e < 1e-6 and n <= 20:
                # borderline: let a 40-digit exponential arbitrate (reference accuracy)
                Pmp = oexpm.expm_mp(Qn * TS[i])
                e2 = np.abs(Pm[i] - Pmp).max()
            if not (e2 <= TOL_P):
                bad.append(("p_equals_expm", f"t={TS[i]}: max |P - exp(Qt)| = {e2:.3e} "
                                             f"(numpy ref {e:.3e})"))
    rs = np.abs(Pm.sum(axis=-1) - 1.0).max()
    if rs > 1e-9:
        bad.append(("p_rows_sum_one", f"max |row sum - 1| = {rs:.3e}"))
    if Pm.min() < -1e-12:
        bad.append(("p_nonneg", f"min entry = {Pm.min():.3e}"))
    if np.abs(Pm[0] - np.eye(n)).max() > 1e-12:
        bad.append(("p0_identity", f"|P(0) - I| = {np.abs(Pm[0] - np.eye(n)).max():.3e}"))
    # semigroup
    try:
        for s, u in SEMI:
            tri = model.p_t(torch.tensor([[s], [u], [s + u]])).detach().numpy().reshape(3, n, n)
            e = np.abs(tri[0] @ tri[1] - tri[2]).max()
            if e > 1e-9:
                bad.append(("semigroup", f"|P({s})P({u}) - P({s + u})| = {e:.3e}"))
    except Exception as e:
        bad.append(("evaluate", f"p_t raised {type(e).__name__}: {e}"))
    if reversible:
        e = np.abs(pi @ Pm - pi).max()
        if e > 1e-10:
            bad.append(("stationarity", f"|pi P - pi| = {e:.3e}"))
        F = pi[None, :, None] * Pm
        e = np.abs(F - np.swapaxes(F, -1, -2)).max()
        if e > 1e-10:
            bad.append(("detailed_balance", f"|pi_i P_ij - pi_j P_ji| = {e:.3e}"))
    return bad


def check_batched(pair):
    """two parameter points of the same model stacked along a leading dimension must give
    the stack of the single evaluations (call convention of the likelihood: t has shape
    sample_shape + (B, K)); every subset of {frequencies, other parameters} carries the
    batch dimension, the rest is shared (unbatched)."""
    out = []
    for mode in ("all", "rates_only", "freqs_only"):
        r = _check_batched(pair, mode)
        if r is None:
            return None
        out += [(name + ("" if mode == "all" else "_" + mode), d) for name, d in r]
    return out


def _check_batched(pair, mode):
    import torch

    c1, c2 = pair
    c2 = dict(c2)
    m = c1["model"]
    nonfreq = [k for k in ("kappa", "rates", "alpha", "beta") if k in c1]
    if mode == "rates_only":
        if "pi" in c1:
            c2["pi"] = c1["pi"]
        if m == "MG94":
            c2["freq"] = c1["freq"]
    elif mode == "freqs_only":
        for k in nonfreq:
            c2[k] = c1[k]
        if m == "MG94" and c1["freq"] == c2["freq"]:
            return []

    def bat(key, wrap):
        """batched or shared parameter value"""
        shared = (mode == "rates_only" and key == "pi") or (mode == "freqs_only" and key != "pi")
        v1 = [c1[key]] if wrap else c1[key]
        v2 = [c2[key]] if wrap else c2[key]
        return v1 if shared else [v1, v2]

    try:
        m1, _, pi1, _ = build(c1)
        m2, _, pi2, _ = build(c2)
        n = len(pi1)
        if m == "HKY":
            spec = {"id": "m", "type": "HKY", "kappa": P("k", bat("kappa", True)),
                    "frequencies": P("f", bat("pi", False))}
        elif m == "GTR":
            spec = {"id": "m", "type": "GTR", "rates": P("r", bat("rates", False)),
                    "frequencies": P("f", bat("pi", False))}
        elif m in ("GeneralSymmetric", "GeneralNonSymmetric"):
            codes = list("ACGTE")[: c1["m"]]
            spec = {"id": "m",
                    "type": "GeneralSymmetricSubstitutionModel" if m == "GeneralSymmetric"
                    else "GeneralNonSymmetricSubstitutionModel",
                    "data_type": {"id": "dt", "type": "GeneralDataType", "codes": codes},
                    "mapping": c1["mapping"], "rates": P("r", bat("rates", False)),
                    "frequencies": P("f", bat("pi", False))}
        elif m == "MG94":
            fr = pi1.tolist() if mode == "rates_only" else [pi1.tolist(), pi2.tolist()]
            spec = {"id": "m", "type": "MG94",
                    "data_type": {"id": "dt", "type": "CodonDataType", "genetic_code": c1["code"]},
                    "alpha": P("a", bat("alpha", True)), "beta": P("b", bat("beta", True)),
                    "kappa": P("k", bat("kappa", True)), "frequencies": P("f", fr)}
        else:
            return None
        ts = [0.0, 0.01, 0.5, 2.0]
        mb = tt.load(spec)["m"]
    except Exception as e:
        return [("build", f"{type(e).__name__}: {e}")]
    try:
        t1 = torch.tensor(ts).reshape(-1, 1)
        single = np.stack([mm.p_t(t1).detach().numpy().reshape(len(ts), n, n) for mm in (m1, m2)])
        tb = torch.tensor([ts, ts]).reshape(2, len(ts), 1)
        got = mb.p_t(tb).detach().numpy()
    except Exception:
        return []  # an unsupported shape combination that raises is allowed (C10)
    if got.shape[0] != 2 or got.size != single.size:
        return [("batched_shape", f"batched p_t returned shape {got.shape}")]
    e = np.abs(got.reshape(single.shape) - single).max()
    if e > 1e-11:
        return [("batched_equals_single", f"{mode}: max diff {e:.3e}")]
    return []


def check_history(pair):
    """one model object: evaluate at the first point, move every parameter to the second point through
    the public parameter interface (a new tensor; an in-place edit followed by the notification), evaluate
    again: must be P(t) of the second point"""
    import torch

    c1, c2 = pair
    m = c1["model"]
    try:
        m1, _, pi1, _ = build(c1)
        m2, _, pi2, _ = build(c2)
    except Exception as e:
        return [("build", f"{type(e).__name__}: {e}")]

    def spec_vals(c, pi):
        if m == "HKY":
            return ({"id": "m", "type": "HKY", "kappa": P("k", [c["kappa"]]), "frequencies": P("f", list(c["pi"]))},
                    {"k": [c["kappa"]], "f": list(c["pi"])})
        if m == "GTR":
            return ({"id": "m", "type": "GTR", "rates": P("r", list(c["rates"])), "frequencies": P("f", list(c["pi"]))},
                    {"r": list(c["rates"]), "f": list(c["pi"])})
        if m in ("GeneralSymmetric", "GeneralNonSymmetric"):
            codes = list("ACGTE")[: c["m"]]
            return ({"id": "m", "type": "GeneralSymmetricSubstitutionModel" if m == "GeneralSymmetric"
                     else "GeneralNonSymmetricSubstitutionModel",
                     "data_type": {"id": "dt", "type": "GeneralDataType", "codes": codes},
                     "mapping": c["mapping"], "rates": P("r", list(c["rates"])), "frequencies": P("f", list(c["pi"]))},
                    {"r": list(c["rates"]), "f": list(c["pi"])})
        if m == "MG94":
            return ({"id": "m", "type": "MG94",
                     "data_type": {"id": "dt", "type": "CodonDataType", "genetic_code": c["code"]},
                     "alpha": P("a", [c["alpha"]]), "beta": P("b", [c["beta"]]), "kappa": P("k", [c["kappa"]]),
                     "frequencies": P("f", pi.tolist())},
                    {"a": [c["alpha"]], "b": [c["beta"]], "k": [c["kappa"]], "f": pi.tolist()})
        return None, None

    spec1, _ = spec_vals(c1, pi1)
    _, vals2 = spec_vals(c2, pi2)
    if spec1 is None:
        return None
    ts = [0.0, 0.01, 0.5, 2.0]
    t1 = torch.tensor(ts).reshape(-1, 1)
    n = len(pi1)
    bad = []
    try:
        want = m2.p_t(t1).detach().numpy().reshape(len(ts), n, n)
    except Exception:
        return []
    for how in ("assign", "inplace"):
        try:
            dic = tt.load(spec1)
            mm = dic["m"]
            with torch.no_grad():
                mm.p_t(t1)
            for k, v in vals2.items():
                if how == "assign":
                    dic[k].tensor = torch.tensor(v)
                else:
                    with torch.no_grad():
                        dic[k].tensor.copy_(torch.tensor(v))
                    dic[k].fire_parameter_changed()
            with torch.no_grad():
                got = mm.p_t(t1).detach().numpy().reshape(len(ts), n, n)
        except Exception as e:
            bad.append(("update_raises", f"{how}: {type(e).__name__}: {str(e)[:120]}"))
            continue
        e = np.abs(got - want).max()
        if not e <= 1e-11:
            bad.append(("update_history", f"after moving every parameter to the next lattice point ({how}): "
                                          f"max |P - P_fresh| = {e:.3e}"))
    return bad


def nontrivial(case):
    m = case["model"]
    if m in ("JC69", "GeneralJC69"):
        return False
    if "pi" in case and max(case["pi"]) - min(case["pi"]) < 1e-9:
        return False
    if m == "MG94" and case["freq"] == "equal":
        return False
    return True


def _work(chunk):
    res = []
    for kind, c in chunk:
        if kind == "single":
            bad = check_case(c)
        else:
            bad = (check_batched(c) or []) + (check_history(c) or [])
        res.append((kind, c, bad))
    return res


def sig_of(kind, c, name):
    cc = c if kind == "single" else c[0]
    return {"model": cc["model"], "check": name, "batched": kind != "single"}


def run(run):
    cs = cases(run.tier, run.seed)
    items = [("single", c) for c in cs]
    # batched: consecutive lattice points of the same model
    by = {}
    for c in cs:
        by.setdefault((c["model"], c.get("m"), c.get("code"), jdump(c.get("mapping"))), []).append(c)
    nb = 0
    for key, lst in by.items():
        for a, b in zip(lst[::2], lst[1::2]):
            items.append(("batched", (a, b)))
            nb += 1
    # mpmath cross-check of the numpy reference on a fixed subset (harness self-test)
    for c in [x for x in cs if x["model"] in ("HKY", "GTR")][:: max(1, len(cs) // 12)][:8]:
        _, Qref, pi, _ = build(c)
        Qn = orm.normalise(Qref, pi)
        for t in (0.1, 10.0):
            d = np.abs(oexpm.expm(Qn * t) - oexpm.expm_mp(Qn * t)).max()
            if d > 1e-11:
                raise RuntimeError(f"reference expm disagrees with mpmath by {d:.3e} on {c}")
    res = pmap(_work, chunked(items, 64))
    evals = 0
    distinct = set()
    outcomes = set()
    samples = []
    for chunk in res:
        for kind, c, bad in chunk:
            evals += len(TS) if kind == "single" else 4 + 8
            if kind == "single" and nontrivial(c):
                distinct.add(jdump(c))
            outcomes.add(bool(bad))
            for name, detail in bad:
                run.violation({"kind": kind, "case": c},
                              f"{c if kind == 'single' else c[0]}: {name}: {detail}",
                              sig_of(kind, c, name))
    samples = [cs[0], cs[10], cs[len(cs) // 2], cs[-1]]
    per_model = {}
    for c in cs:
        per_model[c["model"]] = per_model.get(c["model"], 0) + 1
    cov = {
        "evaluations": evals,
        "distinct_nontrivial": len(distinct),
        "rule": "every point of the declared lattice (model x parameters) x 10 values of t, plus "
                "consecutive lattice points stacked as a batch; non-trivial = parameter point away "
                "from the symmetric point (unequal frequencies, not JC)",
        "samples": samples,
        "exhaustive": True,
        "parameter_points": len(cs),
        "per_model": per_model,
        "batched_pairs": nb,
        "t_values": TS,
        "tolerance_P": TOL_P,
    }
    return run.finish(cov, assumptions=[
        "continuous parameters are represented by the finite lattice listed in per_model; "
        "agreement between lattice points is not claimed",
        "MG94 exchangeabilities for multi-nucleotide changes are 1 (pinned by the repository's own test)",
    ])


def replay(case):
    kind, c = case["kind"], case["case"]
    bad = check_case(c) if kind == "single" else (check_batched(tuple(c)) or [])
    return [{"case": case, "detail": f"{name}: {detail}", "sig": sig_of(kind, c, name)}
            for name, detail in bad]
