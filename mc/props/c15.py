"""C15 – every MCMC transition is a Metropolis-Hastings step on the stated target.

Deviation-bounded exhaustive exploration of the environment of the real `MCMC.run`: every
random draw (operator pick, proposal uniforms / indices / normals / Dirichlet draws,
acceptance uniform) is a choice point with a small menu; all executions with at most d
non-default answers over a horizon of T iterations are run (operator picks are free), and
on every transition of every execution the record reconstructed from outside (wrapped
operators, joint proxy, scripted draws) is checked against the Metropolis-Hastings rule
with independently computed target densities and Hastings ratios."""
import contextlib
import io
import math

import numpy as np

from mc.env import rng, tt
from mc.explore import graphstate as gs
from mc.runner import jdump, pmap

LEVEL = "model_checking"


def P(id_, v):
    return {"id": id_, "type": "Parameter", "tensor": v}


# -- targets -------------------------------------------------------------------------------

def target_toy(adapt):
    return [
        {"id": "joint", "type": "JointDistributionModel", "distributions": [
            {"id": "dx", "type": "Distribution", "distribution": "torch.distributions.Normal",
             "x": P("x", [0.4, -0.7]), "parameters": {"loc": 0.3, "scale": 1.2}},
            {"id": "dy", "type": "Distribution", "distribution": "torch.distributions.Gamma",
             "x": P("y", [0.8, 1.9]), "parameters": {"concentration": 2.0, "rate": 1.5}},
        ]},
        {"id": "mcmc", "type": "MCMC", "joint": "joint", "iterations": 3, "every": 0,
         "checkpoint_frequency": 1000000,
         "operators": [
             {"id": "op.x", "type": "SlidingWindowOperator", "parameters": ["x"], "width": 0.9,
              "weight": 1.0, "disable_adaptation": not adapt},
             {"id": "op.y", "type": "ScalerOperator", "parameters": ["y"], "scaler": 0.6,
              "weight": 1.0, "disable_adaptation": not adapt},
         ],
         "loggers": [{"id": "logger", "type": "Logger", "parameters": ["joint", "x", "y"], "every": 1}]},
    ]


def target_toy_bounded(adapt):
    """a sliding window wide enough to leave the support of its target (a move whose proposed
    density is not finite is rejected outright)"""
    return [
        {"id": "joint", "type": "JointDistributionModel", "distributions": [
            {"id": "dx", "type": "Distribution", "distribution": "torch.distributions.Normal",
             "x": P("x", [0.4]), "parameters": {"loc": 0.3, "scale": 1.2}},
            {"id": "dy", "type": "Distribution", "distribution": "torch.distributions.Gamma",
             "x": P("y", [0.8]), "parameters": {"concentration": 2.0, "rate": 1.5}},
        ]},
        {"id": "mcmc", "type": "MCMC", "joint": "joint", "iterations": 3, "every": 0,
         "checkpoint_frequency": 1000000,
         "operators": [
             {"id": "op.y", "type": "SlidingWindowOperator", "parameters": ["y"], "width": 4.0,
              "weight": 1.0, "disable_adaptation": not adapt},
             {"id": "op.x", "type": "SlidingWindowOperator", "parameters": ["x"], "width": 0.9,
              "weight": 1.0, "disable_adaptation": not adapt},
         ],
         "loggers": [{"id": "logger", "type": "Logger", "parameters": ["joint", "x", "y"], "every": 1}]},
    ]


def target_hky(adapt):
    labels = ["t0", "t1", "t2"]
    seqs = ["ACGTACGGTA", "ACGAACGTTA", "TCGTACATTC"]
    return [
        {"id": "taxa", "type": "Taxa", "taxa": [{"id": l, "type": "Taxon"} for l in labels]},
        {"id": "joint", "type": "JointDistributionModel", "distributions": [
            {"id": "like", "type": "TreeLikelihoodModel",
             "tree_model": {"id": "tree", "type": "UnRootedTreeModel", "newick": "((t0,t1),t2);",
                            "taxa": "taxa", "branch_lengths": P("blens", [0.11, 0.23, 0.31])},
             "site_model": {"id": "site", "type": "ConstantSiteModel"},
             "substitution_model": {"id": "subst", "type": "HKY", "kappa": P("kappa", [2.3]),
                                    "frequencies": P("freqs", [0.22, 0.31, 0.19, 0.28])},
             "site_pattern": {"id": "sp", "type": "SitePattern", "alignment": {
                 "id": "aln", "type": "Alignment", "datatype": "nucleotide", "taxa": "taxa",
                 "sequences": [{"taxon": l, "sequence": s} for l, s in zip(labels, seqs)]}}},
            {"id": "p.kappa", "type": "Distribution", "distribution": "torch.distributions.LogNormal",
             "x": "kappa", "parameters": {"loc": 1.0, "scale": 1.25}},
            {"id": "p.freqs", "type": "Distribution", "distribution": "torch.distributions.Dirichlet",
             "x": "freqs", "parameters": {"concentration": [1.5, 1.0, 2.0, 1.2]}},
            {"id": "p.blens", "type": "Distribution", "distribution": "torch.distributions.Exponential",
             "x": "blens", "parameters": {"rate": 10.0}},
        ]},
        {"id": "mcmc", "type": "MCMC", "joint": "joint", "iterations": 3, "every": 0,
         "checkpoint_frequency": 1000000,
         "operators": [
             {"id": "op.kappa", "type": "ScalerOperator", "parameters": ["kappa"], "scaler": 0.5,
              "weight": 1.0, "disable_adaptation": not adapt},
             {"id": "op.freqs", "type": "DirichletOperator", "parameters": ["freqs"], "scaler": 30.0,
              "weight": 1.0, "disable_adaptation": not adapt},
             {"id": "op.blens", "type": "ScalerOperator", "parameters": ["blens"], "scaler": 0.7,
              "weight": 1.0, "disable_adaptation": not adapt},
         ],
         "loggers": [{"id": "logger", "type": "Logger", "parameters": ["joint", "like", "kappa", "freqs", "blens"],
                      "every": 1}]},
    ]


def target_fixture(name, adapt, keep_ops=None):
    spec = gs.load_fixture(name)
    import copy

    spec = copy.deepcopy(spec)
    for o in spec:
        if isinstance(o, dict) and o.get("type") == "MCMC":
            o["iterations"] = 3
            o["every"] = 0
            o["checkpoint_frequency"] = 1000000
            if keep_ops is not None:
                o["operators"] = [op for op in o["operators"] if any(k in op["id"] for k in keep_ops)]
            for op in o["operators"]:
                op["disable_adaptation"] = not adapt
            o["loggers"] = [{"id": "logger", "type": "Logger", "parameters": [o["joint"]], "every": 1}]
    return spec


def target_hmc_toy(adapt, dense=False):
    mass = [[1.5, 0.3], [0.3, 0.8]] if dense else [1.5, 0.8]
    adaptors = []
    if adapt:
        adaptors = [
            {"id": "adapt.mass", "type": "MassMatrixAdaptor", "parameters": ["x"], "mass_matrix": "mass",
             "update_frequency": 5},
            {"id": "adapt.step", "type": "AdaptiveStepSize", "integrator": "leapfrog",
             "target_acceptance_probability": 0.8},
        ]
    return [
        {"id": "joint", "type": "JointDistributionModel", "distributions": [
            {"id": "dx", "type": "Distribution", "distribution": "torch.distributions.Normal",
             "x": P("x", [0.4, -0.7]), "parameters": {"loc": [0.3, -0.2], "scale": [1.2, 0.5]}},
        ]},
        {"id": "mcmc", "type": "MCMC", "joint": "joint", "iterations": 3, "every": 0,
         "checkpoint_frequency": 1000000,
         "operators": [
             {"id": "op.hmc", "type": "HMCOperator", "joint": "joint", "parameters": ["x"],
              "integrator": {"id": "leapfrog", "type": "LeapfrogIntegrator", "steps": 3, "step_size": 0.2},
              "mass_matrix": P("mass", mass), "adaptors": adaptors, "disable_adaptation": not adapt},
         ],
         "loggers": [{"id": "logger", "type": "Logger", "parameters": ["joint", "x"], "every": 1}]},
    ]


def target_hmc_block(adapt):
    """HMC on a block of the parameters, a second operator on a parameter the block's gradient
    depends on"""
    return [
        {"id": "joint", "type": "JointDistributionModel", "distributions": [
            {"id": "dx", "type": "Distribution", "distribution": "torch.distributions.Normal",
             "x": P("x", [0.4, -0.7]), "parameters": {"loc": P("mu", [0.3]), "scale": [0.8, 0.8]}},
            {"id": "dmu", "type": "Distribution", "distribution": "torch.distributions.Normal",
             "x": "mu", "parameters": {"loc": 0.0, "scale": 2.0}},
        ]},
        {"id": "mcmc", "type": "MCMC", "joint": "joint", "iterations": 3, "every": 0,
         "checkpoint_frequency": 1000000,
         "operators": [
             {"id": "op.hmc", "type": "HMCOperator", "joint": "joint", "parameters": ["x"],
              "integrator": {"id": "leapfrog", "type": "LeapfrogIntegrator", "steps": 3, "step_size": 0.2},
              "mass_matrix": P("mass", [1.5, 0.8]), "adaptors": [], "disable_adaptation": not adapt},
             {"id": "op.mu", "type": "SlidingWindowOperator", "parameters": ["mu"], "width": 1.5,
              "weight": 1.0, "disable_adaptation": not adapt},
         ],
         "loggers": [{"id": "logger", "type": "Logger", "parameters": ["joint", "x", "mu"], "every": 1}]},
    ]


def target_hmc_bounded(adapt):
    """HMC on a positive parameter sampled without a transform: a trajectory that crosses zero raises
    inside the operator, which then draws a new momentum and tries again"""
    return [
        {"id": "joint", "type": "JointDistributionModel", "distributions": [
            {"id": "dx", "type": "Distribution", "distribution": "torch.distributions.Gamma",
             "x": P("x", [0.6, 1.1]), "parameters": {"concentration": [1.0, 3.0], "rate": 2.0}},
        ]},
        {"id": "mcmc", "type": "MCMC", "joint": "joint", "iterations": 3, "every": 0,
         "checkpoint_frequency": 1000000,
         "operators": [
             # the first coordinate has density 2 exp(-2x): with momentum 0 the first half step already
             # carries it across zero, with momentum +e_1 it does not
             {"id": "op.hmc", "type": "HMCOperator", "joint": "joint", "parameters": ["x"],
              "integrator": {"id": "leapfrog", "type": "LeapfrogIntegrator", "steps": 1, "step_size": 1.0},
              "mass_matrix": P("mass", [1.0, 1.0]), "adaptors": [], "disable_adaptation": not adapt},
         ],
         "loggers": [{"id": "logger", "type": "Logger", "parameters": ["joint", "x"], "every": 1}]},
    ]


TARGETS = {
    "hmc_bounded": lambda adapt: target_hmc_bounded(adapt),
    "hmc_block": lambda adapt: target_hmc_block(adapt),
    "hmc_toy_diag": lambda adapt: target_hmc_toy(adapt, False),
    "hmc_toy_dense": lambda adapt: target_hmc_toy(adapt, True),
    "toy": lambda adapt: target_toy(adapt),
    "toy_bounded": lambda adapt: target_toy_bounded(adapt),
    "hky": lambda adapt: target_hky(adapt),
    "skygrid_block": lambda adapt: target_fixture("strict_hky_w4_skygrid", adapt,
                                                  keep_ops=("coalescent.theta.log", "gmrf.precision", "tree.ratios")),
    "hmc": lambda adapt: target_fixture("hmc_strict_hky_constant", adapt),
    # the same block-update set-up started from a tuning value close to its lower end
    "skygrid_block_low": lambda adapt: _low_scaler(target_fixture(
        "strict_hky_w4_skygrid", adapt, keep_ops=("coalescent.theta.log",))),
}


def _low_scaler(spec):
    for o in spec:
        if isinstance(o, dict) and o.get("type") == "MCMC":
            for op in o["operators"]:
                if "scaler" in op:
                    op["scaler"] = 1.004
    return spec



# -- one execution -----------------------------------------------------------------------------

class Recorder:
    def __init__(self, dic, spec):
        import torch

        self.torch = torch
        self.dic = dic
        self.spec = spec
        self.mcmc = next(v for v in dic.values() if type(v).__name__ == "MCMC")
        self.base = gs.base_parameters(dic)
        self.iters = []
        self.cur = None
        self.joint_calls = []
        self.script = None

    def snapshot(self):
        return {k: self.dic[k].tensor.detach().clone() for k in self.base}

    def reversal(self, op_id, integrator, q0, p0, p1, inverse_mass_matrix):
        """the leapfrog map of the current target is an involution after a momentum flip: an
        independent integrator on a graph freshly built at the end point, started with -p1, must
        come back to (q0, -p0).  Returns None (consistent / not judged) or a text."""
        torch = self.torch
        try:
            if not bool(torch.isfinite(p1).all()):
                return None
            fresh = tt.load(gs.with_values(self.spec, self.snapshot()))
            fop = fresh[op_id]
            integ = fop._integrator
            integ.step_size = integrator.step_size
            integ.steps = integrator.steps
            back = integ(fop._hamiltonian.joint, fop.parameters, -p1.detach().clone(), inverse_mass_matrix)
            qb = torch.cat([p_.tensor.detach().clone() for p_ in fop.parameters], -1)
            scale = max(1.0, float(q0.abs().max()), float(p0.abs().max()))
            dq, dp = float((qb - q0).abs().max()), float((back + p0).abs().max())
            if not (dq <= 1e-6 * scale and dp <= 1e-6 * scale):
                from mc.props.c12 import degenerate_spectrum

                start = tt.load(gs.with_values(self.spec, self.cur["before"]))
                if any(type(o).__name__ == "TreeLikelihoodModel" and degenerate_spectrum(o)
                       for o in start.values()):
                    # the trajectory starts where the symmetrised rate matrix has a repeated eigenvalue: the
                    # eigh backward pass returns garbage there (open C12 finding), the "gradient" is not a function
                    return ("DEGENERATE an independent leapfrog from the proposal with the momentum negated does "
                            f"not return to the start: |dq| = {dq:.3e}, |dp| = {dp:.3e}; the trajectory starts at a "
                            "point with a repeated eigenvalue of the symmetrised rate matrix, where the gradient "
                            "of the tree likelihood is not well defined (see the C12 finding)")
                return (f"an independent leapfrog from the proposal with the momentum negated does not return to "
                        f"the start: |dq| = {dq:.3e}, |dp| = {dp:.3e} (the proposal is not the leapfrog map of "
                        f"the current target)")
        except Exception:
            return None
        return None

    def install(self):
        mcmc = self.mcmc
        rec = self
        real_joint = mcmc.joint

        class JointProxy:
            def __call__(self_inner, *a, **k):
                try:
                    v = real_joint(*a, **k)
                except ValueError as e:
                    if "within the support" in str(e) and rec.cur is not None and rec.cur.get("stepped") \
                            and "proposed_lp" not in rec.cur:
                        # the target refuses the proposal: its density there is zero
                        rec.cur["proposed_lp"] = rec.torch.tensor(-math.inf)
                    raise
                rec.joint_calls.append((len(rec.script.points), v.detach().clone(), rec.snapshot()))
                if rec.cur is not None and "proposed_lp" not in rec.cur and rec.cur.get("stepped"):
                    rec.cur["proposed_lp"] = v.detach().clone()
                return v

            def __getattr__(self_inner, name):
                return getattr(real_joint, name)

        mcmc.joint = JointProxy()
        for op in mcmc._operators:
            self._wrap(op)

    def _wrap(self, op):
        rec = self
        step, accept, reject, tune = op.step, op.accept, op.reject, op.tune
        if hasattr(op, "_integrator"):
            real = op._integrator

            class IntegratorProxy:
                def __call__(self_inner, model, parameters, momentum, inverse_mass_matrix):
                    info = {"p0": momentum.detach().clone(), "mass": op.mass_matrix.detach().clone()}
                    q0 = rec.torch.cat([p_.tensor.detach().clone() for p_ in parameters], -1)
                    p1 = real(model, parameters, momentum, inverse_mass_matrix)
                    info["p1"] = p1.detach().clone()
                    info["reversal"] = rec.reversal(op.id, real, q0, info["p0"], info["p1"],
                                                    inverse_mass_matrix.detach().clone())
                    if rec.cur is not None:
                        rec.cur["hmc"] = info
                    return p1

                def __getattr__(self_inner, name):
                    return getattr(real, name)

                def __setattr__(self_inner, name, value):
                    setattr(real, name, value)

            op._integrator = IntegratorProxy()

        def w_step():
            rec.cur = {"op": op.id, "before": rec.snapshot(), "point0": len(rec.script.points),
                       "tuning_before": op.tuning_parameter}
            h = step()
            rec.cur["stepped"] = True
            rec.cur["hastings"] = h.detach().clone()
            rec.cur["proposal"] = rec.snapshot()
            rec.cur["point1"] = len(rec.script.points)
            return h

        def w_accept():
            rec.cur["decision"] = "accept"
            accept()
            rec.cur["after"] = rec.snapshot()

        def w_reject():
            rec.cur["decision"] = "reject"
            reject()
            rec.cur["after"] = rec.snapshot()

        def w_tune(acceptance_prob, sample, accepted):
            rec.cur["acceptance_prob"] = float(acceptance_prob)
            rec.cur["target"] = op.target_acceptance_probability
            tune(acceptance_prob, sample=sample, accepted=accepted)
            rec.cur["tuning_after"] = op.tuning_parameter
            rec.cur["point2"] = len(rec.script.points)
            rec.cur["end"] = rec.snapshot()  # adaptors may have changed tuning parameters (mass matrix)
            rec.iters.append(rec.cur)
            rec.cur = None

        op.step, op.accept, op.reject, op.tune = w_step, w_accept, w_reject, w_tune


SCRATCH = {}


def from_scratch(spec, values, target_id):
    """target density of a graph freshly built with the given base values (memoised)"""
    key = (id(spec), target_id, tuple((k, tuple(v.reshape(-1).tolist())) for k, v in sorted(values.items())))
    if key not in SCRATCH:
        if len(SCRATCH) > 200000:
            SCRATCH.clear()
        try:
            fresh = tt.load(gs.with_values(spec, values))
            import torch

            with torch.no_grad():
                v = fresh[target_id]()
            SCRATCH[key] = float(v.sum())
        except ValueError as e:
            if "within the support" in str(e):
                SCRATCH[key] = -math.inf  # the density of a point outside the support is zero
            else:
                SCRATCH[key] = ("raises", f"{type(e).__name__}: {str(e)[:100]}")
        except Exception as e:
            SCRATCH[key] = ("raises", f"{type(e).__name__}: {str(e)[:100]}")
    return SCRATCH[key]


def hastings_oracle(op_type, tuning, before, proposal, params):
    """independent log ratio of reverse to forward proposal density; None = not judged here"""
    b = np.concatenate([before[p].reshape(-1).numpy() for p in params])
    a = np.concatenate([proposal[p].reshape(-1).numpy() for p in params])
    changed = np.nonzero(a != b)[0]
    if op_type == "ScalerOperator":
        if len(changed) == 0:
            return 0.0, None
        if len(changed) != 1:
            return None, f"scaler changed {len(changed)} components"
        s = a[changed[0]] / b[changed[0]]
        lo, hi = tuning, 1.0 / tuning
        if not (min(lo, hi) - 1e-12 <= s <= max(lo, hi) + 1e-12):
            return None, f"scale factor {s} outside [{lo}, {hi}]"
        return -math.log(s), None
    if op_type == "SlidingWindowOperator":
        if len(changed) > 1:
            return None, f"window changed {len(changed)} components"
        if len(changed) == 1 and abs(a[changed[0]] - b[changed[0]]) > tuning / 2.0 + 1e-12:
            return None, f"shift {a[changed[0]] - b[changed[0]]} larger than half the width {tuning}"
        return 0.0, None
    if op_type == "DirichletOperator":
        def ldir(x, alpha):
            return (math.lgamma(alpha.sum()) - sum(math.lgamma(t) for t in alpha)
                    + float(np.sum((alpha - 1.0) * np.log(x))))
        return ldir(b, tuning * a) - ldir(a, tuning * b), None
    return None, None


def boldness(op_type, tuning):
    if op_type == "ScalerOperator":
        return 1.0 / tuning - tuning
    if op_type == "DirichletOperator":
        return 1.0 / tuning
    return tuning  # window width, HMC step size, block scaler


def execute(spec, script, horizon):
    """one real MCMC.run under the scripted environment; returns (records, logger rows, error)"""
    import torch

    dic = tt.load(spec)
    mcmc = next(v for v in dic.values() if type(v).__name__ == "MCMC")
    mcmc.iterations = horizon
    rec = Recorder(dic, spec)
    rec.script = script
    rec.install()
    out = io.StringIO()
    err = None
    initial = rec.snapshot()
    with rng.scripted(script):
        with contextlib.redirect_stdout(out):
            try:
                mcmc.run()
            except rng.Divergence:
                raise
            except Exception as e:
                err = f"{type(e).__name__}: {str(e)[:200]}"
    rows = []
    lines = [l for l in out.getvalue().splitlines() if l.strip()]
    header = None
    for l in lines:
        parts = l.split(",") if "," in l else l.split("\t")
        if parts[0] == "sample":
            header = parts
            continue
        if header is None or len(parts) != len(header):
            continue
        try:
            rows.append(dict(zip(header, [float(x) for x in parts])))
        except ValueError:
            pass
    return rec, initial, rows, err


def check_execution(tname, spec, script, horizon, adapt):
    rec, initial, rows, err = execute(spec, script, horizon)
    bad = []
    target_id = None
    for o in spec:
        if isinstance(o, dict) and o.get("type") == "MCMC":
            target_id = o["joint"]
            op_types = {op["id"]: op["type"] for op in o["operators"]}
            op_params = {op["id"]: op.get("parameters") for op in o["operators"]}
    if err and not (err.startswith("ZeroDivisionError") and len(rec.iters) == horizon):
        # (the end-of-run summary of MCMC.run divides by the number of moves of each operator and fails
        # when an operator was never picked in a short run – after the last iteration, outside this property)
        return [("run_raises", err)], 0, None
    pts = rec.script.points
    uniforms = rng.UNIFORMS
    cur_vals = initial
    outcomes = []
    for it, r in enumerate(rec.iters):
        where = f"iteration {it + 1} operator {r['op']}"
        otype = op_types[r["op"]]
        if not _same(r["before"], cur_vals):
            bad.append(("state_continuity", f"{where}: state before the proposal differs from the state "
                                            "left by the previous iteration"))
        lp_cur = from_scratch(spec, r["before"], target_id)
        lp_prop = from_scratch(spec, r["proposal"], target_id)
        h = float(r["hastings"])
        # (1) density used for the proposal == target from scratch
        used = r.get("proposed_lp")
        if math.isinf(h):
            expect_accept = False
        else:
            if used is None:
                bad.append(("no_target_evaluation", f"{where}: the target was not evaluated for the proposal"))
                expect_accept = None
            else:
                u_ = float(used.sum())
                if isinstance(lp_prop, tuple):
                    expect_accept = None
                elif not (math.isnan(u_) and math.isnan(lp_prop)) and not _close(u_, lp_prop):
                    bad.append(("proposal_density", f"{where}: density used for the proposal {u_!r} but the target "
                                                    f"evaluated from scratch at the proposed state is {lp_prop!r}"))
            # (2) Hastings ratio and decision
            params = op_params[r["op"]]
            params = params if isinstance(params, list) else [params]
            if otype in ("ScalerOperator", "SlidingWindowOperator", "DirichletOperator"):
                href, msg = hastings_oracle(otype, r["tuning_before"], r["before"], r["proposal"], params)
                if msg:
                    bad.append(("proposal_support", f"{where}: {msg}"))
                elif href is not None and not _close(h, href, 1e-9):
                    bad.append(("hastings_ratio", f"{where}: operator returned log Hastings ratio {h!r}, the log "
                                                  f"ratio of reverse to forward proposal density is {href!r}"))
            if otype == "HMCOperator" and "hmc" in r:
                M = r["hmc"]["mass"].numpy()
                p0, p1 = r["hmc"]["p0"].numpy(), r["hmc"]["p1"].numpy()
                Minv = np.diag(1.0 / M) if M.ndim == 1 else np.linalg.inv(M)
                href = 0.5 * p0 @ Minv @ p0 - 0.5 * p1 @ Minv @ p1
                if r["hmc"].get("reversal"):
                    txt = r["hmc"]["reversal"]
                    bad.append(("hmc_not_reversible_degenerate" if txt.startswith("DEGENERATE") else
                                "hmc_not_reversible", f"{where}: {txt}"))
                if not _close(h, float(href), 1e-9):
                    bad.append(("hastings_ratio", f"{where}: operator returned {h!r} but K(p0) - K(p1) under the "
                                                  f"current mass matrix {M.tolist()} is {float(href)!r}"))
                # the momentum must be a draw from N(0, M): sqrt(M) z for the scripted z
                zpts = [i for i in range(r["point0"], r["point1"]) if pts[i][0] == "normal"]
                if zpts:
                    c = pts[zpts[-1]][2]
                    d = len(p0)
                    z = np.zeros(d)
                    if c > 0:
                        z[(c - 1) // 2] = 1.0 if (c - 1) % 2 == 0 else -1.0
                    pref = np.sqrt(M) * z if M.ndim == 1 else np.linalg.cholesky(M) @ z
                    if not np.allclose(p0, pref, rtol=1e-10, atol=1e-12):
                        bad.append(("momentum_draw", f"{where}: momentum {p0.tolist()} is not sqrt(M) z = {pref.tolist()}"))
            # the acceptance uniform is the last 'uniform' point before the decision
            upts = [i for i in range(r["point1"], len(pts)) if pts[i][0] == "uniform"]
            if isinstance(lp_cur, tuple) or isinstance(lp_prop, tuple):
                expect_accept = None
            elif math.isnan(lp_prop) or math.isinf(lp_prop):
                expect_accept = False
            else:
                if not upts:
                    expect_accept = None
                else:
                    u = uniforms[pts[upts[0]][2]]
                    log_alpha = (lp_prop - lp_cur) + h
                    alpha = math.exp(min(0.0, log_alpha))
                    if abs(u - alpha) < 1e-9:
                        expect_accept = None
                    else:
                        expect_accept = u < alpha
        if expect_accept is not None and (r.get("decision") == "accept") != expect_accept:
            bad.append(("decision", f"{where}: {'accepted' if r.get('decision') == 'accept' else 'rejected'} although "
                                    f"u vs min(1, exp(delta + H)) says {'accept' if expect_accept else 'reject'} "
                                    f"(from-scratch densities {lp_cur!r} -> {lp_prop!r}, H {h!r})"))
        outcomes.append(r.get("decision"))
        # (3) rejection restores bit-identical values; acceptance keeps the proposal
        after = r.get("after")
        if after is None:
            bad.append(("no_decision", f"{where}: neither accept() nor reject() was called"))
            after = r["proposal"]
        elif r["decision"] == "reject" and not _same(after, r["before"], exact=True):
            diff = [k for k in after if not rec.torch.equal(after[k], r["before"][k])]
            bad.append(("reject_restores", f"{where}: after rejection {diff} differ from their values before the proposal"))
        elif r["decision"] == "accept" and not _same(after, r["proposal"], exact=True):
            bad.append(("accept_keeps", f"{where}: after acceptance the state differs from the proposal"))
        cur_vals = r.get("end", after)
        sampled = set()
        for pp in op_params.values():
            sampled |= set(pp if isinstance(pp, list) else [pp])
        if "end" in r and any(not rec.torch.equal(r["end"][k], after[k]) for k in after if k in sampled):
            bad.append(("tuning_changes_state", f"{where}: tuning changed a sampled parameter"))
        # (5) tuning direction
        if "tuning_after" in r and "acceptance_prob" in r:
            b0, b1 = boldness(otype, r["tuning_before"]), boldness(otype, r["tuning_after"])
            ap, tg = r["acceptance_prob"], r["target"]
            # the acceptance probability of THIS move, from the from-scratch densities
            ap_true = None
            if math.isinf(h):
                ap_true = 0.0
            elif not isinstance(lp_prop, tuple) and not isinstance(lp_cur, tuple):
                ap_true = 0.0 if (math.isnan(lp_prop) or math.isinf(lp_prop)) else \
                    math.exp(min(0.0, (lp_prop - lp_cur) + h))
            if ap_true is not None:
                if adapt and abs(float(ap) - ap_true) > 1e-9:
                    bad.append(("tuning_acceptance", f"{where} ({otype}): the tuner was given acceptance probability "
                                                     f"{float(ap)!r}, this move has {ap_true!r}"))
                ap = ap_true
            if not adapt:
                if b0 != b1:
                    bad.append(("tuning_disabled", f"{where}: adaptation disabled but tuning changed {r['tuning_before']} -> {r['tuning_after']}"))
            elif otype != "HMCOperator" or True:
                if ap > tg + 1e-12 and b1 < b0 - 1e-15:
                    bad.append(("tuning_direction", f"{where} ({otype}): acceptance {ap:.3f} above target {tg} but the "
                                                    f"proposal became more timid (tuning {r['tuning_before']!r} -> {r['tuning_after']!r})"))
                if ap < tg - 1e-12 and b1 > b0 + 1e-15:
                    bad.append(("tuning_direction", f"{where} ({otype}): acceptance {ap:.3f} below target {tg} but the "
                                                    f"proposal became bolder (tuning {r['tuning_before']!r} -> {r['tuning_after']!r})"))
        # (4) logger row of this iteration
        row = next((x for x in rows if int(x["sample"]) == it + 1), None)
        if row is None:
            bad.append(("logger_row_missing", f"{where}: no logger row for sample {it + 1}"))
        else:
            lp_after = from_scratch(spec, after, target_id)
            if not isinstance(lp_after, tuple) and target_id in row and not _close(row[target_id], lp_after, 1e-9):
                bad.append(("logger_consistency", f"{where}: logged {target_id} = {row[target_id]!r} but the target at "
                                                  f"the state of that iteration is {lp_after!r}"))
            for k in rec.base:
                cols = [c for c in row if c.startswith(k + ".")]
                if cols:
                    logged = [row[f"{k}.{i}"] for i in range(len(cols))]
                    if not np.allclose(logged, after[k].reshape(-1).numpy(), rtol=1e-12, atol=0):
                        bad.append(("logger_consistency", f"{where}: logged {k} = {logged} but the state is {after[k].tolist()}"))
        if bad:
            break
    if len(rec.iters) != horizon and not bad:
        bad.append(("iterations", f"{len(rec.iters)} transitions recorded for {horizon} iterations"))
    return bad, len(rec.iters), tuple(outcomes)


def _same(a, b, exact=False):
    import torch

    for k in a:
        if exact:
            if not torch.equal(a[k], b[k]):
                return False
        elif not torch.allclose(a[k], b[k], rtol=0, atol=0, equal_nan=True):
            return False
    return True


def _close(x, y, rtol=1e-10):
    if math.isnan(x) or math.isnan(y):
        return math.isnan(x) and math.isnan(y)
    if math.isinf(x) or math.isinf(y):
        return x == y
    return abs(x - y) <= rtol * max(1.0, abs(x), abs(y))


def explore_target(item):
    tname, adapt, bound, horizon, first = item["target"], item["adapt"], item["bound"], item["horizon"], item["first"]
    spec = TARGETS[tname](adapt)
    viols = []
    nexec = ntrans = 0
    outcomes = set()
    replay_checked = False
    sample = None

    def run_one(script):
        return check_execution(tname, spec, script, horizon, adapt)

    # restrict the exploration to prefixes starting with `first`
    def explore_from(first_choice):
        stack = [[first_choice]]
        while stack:
            prefix = stack.pop()
            script = rng.Script(prefix)
            try:
                obs = run_one(script)
            except rng.Divergence:
                continue
            pts = script.points
            taken = script.taken()
            yield taken, pts, obs
            devs = 0
            cost_before = []
            for (kind, m, c, free) in pts:
                cost_before.append(devs)
                if c != 0 and not free:
                    devs += 1
            for i in range(len(prefix), len(pts)):
                kind, m, c, free = pts[i]
                for alt in range(1, m):
                    if cost_before[i] + (0 if free else 1) > bound:
                        continue
                    stack.append(taken[:i] + [alt])

    for taken, pts, (bad, nt, outs) in explore_from(first):
        nexec += 1
        ntrans += nt
        outcomes.add(outs)
        if sample is None and nexec == 5:
            sample = {"choices": taken, "points": [p[0] for p in pts]}
        if not replay_checked:
            # determinism: the same choice sequence twice gives the same observations
            s2 = rng.Script(taken)
            bad2, nt2, outs2 = run_one(s2)
            if (bad2, nt2, outs2) != (bad, nt, outs) or s2.points != pts:
                raise RuntimeError("replaying a recorded schedule gave different observations")
            replay_checked = True
        seen = set()
        for name, detail in bad:
            if name in seen:
                continue
            seen.add(name)
            opname = detail.split("operator ")[1].split(":")[0].split(" ")[0] if "operator " in detail else ""
            viols.append({"case": {"target": tname, "adapt": adapt, "horizon": horizon, "choices": taken},
                          "detail": f"[{tname} adapt={adapt}] choices {taken}: {name}: {detail}",
                          "sig": {"target": tname, "check": name, "operator": opname}})
    return {"item": item, "viols": viols, "executions": nexec, "transitions": ntrans,
            "outcomes": len(outcomes), "sample": sample}


def n_first(tname):
    spec = TARGETS[tname](True)
    for o in spec:
        if isinstance(o, dict) and o.get("type") == "MCMC":
            return len(o["operators"])


def run(run):
    tt.boot()
    quick = run.tier == "quick"
    items = []
    for tname in TARGETS:
        for adapt in (True, False):
            if tname == "hmc_bounded":  # every failed trial adds a draw: many more points per execution
                bound, horizon = (1, 2) if quick else (2, 2)
            elif tname in ("toy", "hky", "toy_bounded", "hmc_block"):
                bound, horizon = (2, 3) if quick else (3, 4)
            elif tname.startswith("hmc_toy"):
                bound, horizon = (1, 7) if quick else (2, 11)
            else:
                bound, horizon = (1, 2) if quick else (2, 3)
            for first in range(n_first(tname)):
                items.append({"target": tname, "adapt": adapt, "bound": bound, "horizon": horizon, "first": first})
    res = pmap(explore_target, items)
    states = trans = 0
    per = {}
    samples = []
    for r in res:
        it = r["item"]
        k = f"{it['target']}/adapt={it['adapt']}"
        p_ = per.setdefault(k, {"executions": 0, "transitions": 0, "distinct_decision_sequences": 0,
                                "bound": it["bound"], "horizon": it["horizon"]})
        p_["executions"] += r["executions"]
        p_["transitions"] += r["transitions"]
        p_["distinct_decision_sequences"] += r["outcomes"]
        states += r["executions"]
        trans += r["transitions"]
        if r["sample"] and len(samples) < 4:
            samples.append({"target": it["target"], **r["sample"]})
        run.absorb(r["viols"])
    cov = {
        "states": states,
        "transitions": trans,
        "traces_validated_against_impl": states,
        "samples": samples,
        "exhaustive": True,
        "bound": "all executions of the real MCMC.run with at most d non-default environment answers over T "
                 "iterations (d,T per target below); operator picks are free; menus: uniforms "
                 f"{list(rng.UNIFORMS)}, every index, normals {{0, +-e_i}}, 3 Dirichlet draws",
        "per_target": per,
        "executions": states,
    }
    return run.finish(cov, assumptions=[
        "states = complete executions explored; transitions = MCMC iterations checked",
        "target densities from scratch = a graph freshly built from the JSON specification with the state's values",
        "HMC and GMRF block-update Hastings ratios are taken as returned (their geometry is checked by C16 / C20); "
        "for them the proposal density, the decision rule, rejection and logging are checked",
    ])


def replay(case):
    spec = TARGETS[case["target"]](case["adapt"])
    script = rng.Script(case["choices"])
    bad, _, _ = check_execution(case["target"], spec, script, case["horizon"], case["adapt"])
    out = []
    for name, detail in bad:
        opname = detail.split("operator ")[1].split(":")[0].split(" ")[0] if "operator " in detail else ""
        out.append({"case": case, "detail": f"{name}: {detail}",
                    "sig": {"target": case["target"], "check": name, "operator": opname}})
    return out
