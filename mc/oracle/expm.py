"""Reference matrix exponential: scaling and squaring with a degree-24 Taylor
polynomial, plain numpy float64, batched over leading dimensions.  Shares no code
with torchtree (which uses eigendecomposition / torch.matrix_exp)."""
import math

import numpy as np


def expm(A):
    A = np.asarray(A, dtype=np.float64)
    n = A.shape[-1]
    norm = np.max(np.sum(np.abs(A), axis=-1), axis=-1)  # inf-norm per matrix
    normmax = float(np.max(norm)) if norm.size else 0.0
    s = 0
    if normmax > 0.25:
        s = max(0, int(math.ceil(math.log2(normmax / 0.25))))
    B = A / (2.0 ** s)
    eye = np.broadcast_to(np.eye(n), A.shape).copy()
    term = eye.copy()
    out = eye.copy()
    for k in range(1, 25):
        term = term @ B / k
        out = out + term
    for _ in range(s):
        out = out @ out
    return out


def expm_mp(A, digits=40):
    """High-precision cross-check (mpmath), single matrix."""
    import mpmath as mp

    with mp.workdps(digits):
        M = mp.matrix(np.asarray(A, dtype=np.float64).tolist())
        E = mp.expm(M)
        return np.array([[float(E[i, j]) for j in range(E.cols)] for i in range(E.rows)])
