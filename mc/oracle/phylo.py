"""Reference tree likelihood: literal summation over every assignment of states to the
internal nodes and every rate category (no pruning), plus an independent log-domain
pruning variant with extended range for large trees.  numpy only."""
import itertools
import math

import numpy as np

from mc.explore import enumerate as en
from mc.oracle import expm as oexpm

NUC = "ACGT"
IUPAC = {
    "A": "A", "C": "C", "G": "G", "T": "T", "U": "T",
    "R": "AG", "Y": "CT", "M": "AC", "W": "AT", "S": "CG", "K": "GT",
    "B": "CGT", "D": "AGT", "H": "ACT", "V": "ACG",
    "N": "ACGT", "?": "ACGT", "-": "ACGT",
}
AA = "ACDEFGHIKLMNPQRSTVWY"
AA_AMBIG = {"B": "DN", "Z": "EQ", "X": AA, "*": AA, "?": AA, "-": AA}


def nuc_vector(sym, mode):
    """mode 'union': ambiguity = union of states; 'missing': every symbol that is not one
    of ACGTU is treated as missing (all ones)"""
    s = sym.upper()
    if mode == "missing" and s not in "ACGTU":
        return [1.0] * 4
    return [1.0 if c in IUPAC[s] else 0.0 for c in NUC]


def aa_vector(sym, mode):
    s = sym.upper()
    if s in AA:
        return [1.0 if c == s else 0.0 for c in AA]
    if mode == "missing":
        return [1.0] * 20
    return [1.0 if c in AA_AMBIG[s] else 0.0 for c in AA]


def general_vector(sym, codes):
    if sym in codes:
        return [1.0 if c == sym else 0.0 for c in codes]
    return [1.0] * len(codes)


def codon_vector(triplet, sense):
    """sense: list of sense codons (strings) in state order"""
    t = triplet.upper().replace("U", "T")
    if t in sense:
        return [1.0 if c == t else 0.0 for c in sense]
    return [1.0] * len(sense)


def site_likelihoods(top, blen, Qn, pi, rates, probs, tips):
    """top: nested tuple topology over leaf labels; blen: dict clade(frozenset) -> branch
    length (substitutions, before the site rate) for every non-root clade incl. leaves;
    Qn: normalised rate matrix; pi: root frequencies; rates/probs: category rates and
    probabilities; tips: dict label -> array [N, S] of tip compatibility vectors.
    Returns the array [N] of site likelihoods."""
    S = len(pi)
    leaves = en.leaves(top)
    internals = en.clades(top)  # post-order, root last
    root = internals[-1]
    pm = en.parent_map(top)
    N = next(iter(tips.values())).shape[0]
    idx = {c: i for i, c in enumerate(internals)}
    total = np.zeros(N)
    nint = len(internals)
    for r, p in zip(rates, probs):
        if p == 0.0:
            continue
        Pm = {c: oexpm.expm(Qn * (blen[c] * r)) for c in pm}
        # leaf factors: M_l[N, state of parent]
        M = {}
        for lab in leaves:
            c = frozenset([lab])
            M[lab] = tips[lab] @ Pm[c].T  # [N,S] : sum_s P[a, s] tip[s]
        nassign = S ** nint
        if nassign * N * len(leaves) <= 5e6:
            lik = np.zeros(N)
            for a in itertools.product(range(S), repeat=nint):
                w = pi[a[idx[root]]]
                for c in internals[:-1]:
                    w *= Pm[c][a[idx[pm[c]]], a[idx[c]]]
                if w == 0.0:
                    continue
                f = np.full(N, w)
                for lab in leaves:
                    f = f * M[lab][:, a[idx[pm[frozenset([lab])]]]]
                lik += f
        else:
            lik = _prune(top, Pm, pi, tips)
        total += p * lik
    return total


def _prune(top, Pm, pi, tips):
    def rec(x):
        if not isinstance(x, tuple):
            return tips[x]  # [N,S]
        out = None
        for ch in x:
            c = frozenset(en.leaves(ch))
            part = rec(ch) @ Pm[c].T  # [N, S_parent]
            out = part if out is None else out * part
        return out

    return rec(top) @ np.asarray(pi)


def log_site_likelihoods_extended(top, blen, Qn, pi, rates, probs, tips):
    """log-domain pruning with per-node rescaling (extended range): returns log L per site,
    finite even when L underflows double precision.  Iterative (no recursion limit)."""
    leaves = en.leaves(top)
    N = next(iter(tips.values())).shape[0]
    per_cat = []
    for r, p in zip(rates, probs):
        if p == 0.0:
            continue
        # iterative post-order
        stack = [(top, False)]
        vals = []
        cache = {}
        while stack:
            node, done = stack.pop()
            if not isinstance(node, tuple):
                vals.append((tips[node], np.zeros(N), frozenset([node])))
                continue
            if not done:
                stack.append((node, True))
                stack.append((node[1], False))
                stack.append((node[0], False))
            else:
                (b, lb, cb) = vals.pop()
                (a, la, ca) = vals.pop()
                Pa = _P(cache, Qn, blen[ca] * r)
                Pb = _P(cache, Qn, blen[cb] * r)
                part = (a @ Pa.T) * (b @ Pb.T)
                m = part.max(axis=1)
                m[m == 0] = 1.0
                vals.append((part / m[:, None], la + lb + np.log(m), ca | cb))
        part, ls, _ = vals.pop()
        with np.errstate(divide="ignore"):  # a category may have likelihood exactly 0 (invariant, variable site)
            per_cat.append(np.log(part @ np.asarray(pi)) + ls + math.log(p))
    per_cat = np.stack(per_cat)
    mx = per_cat.max(axis=0)
    return mx + np.log(np.exp(per_cat - mx).sum(axis=0))


def _P(cache, Qn, t):
    key = round(t, 15)
    if key not in cache:
        cache[key] = oexpm.expm(Qn * t)
    return cache[key]
