"""Reference rate matrices, written from the documented parameterisations
(docstrings of HKY / GTR / general models).  Plain numpy."""
import itertools

import numpy as np

NUC = "ACGT"


def _finish(R, pi):
    """Q_ij = R_ij * pi_j (i != j), rows sum to zero."""
    Q = np.array(R, dtype=np.float64) * np.asarray(pi, dtype=np.float64)[None, :]
    np.fill_diagonal(Q, 0.0)
    np.fill_diagonal(Q, -Q.sum(axis=1))
    return Q


def normalise(Q, pi):
    """Scale to one expected substitution per unit time under pi."""
    beta = -float(np.sum(np.diag(Q) * np.asarray(pi)))
    return Q / beta


def jc69(k=4):
    Q = np.full((k, k), 1.0 / (k - 1))
    np.fill_diagonal(Q, -1.0)
    return Q


def hky(kappa, pi):
    R = np.ones((4, 4))
    for a, b in (("A", "G"), ("C", "T")):
        i, j = NUC.index(a), NUC.index(b)
        R[i, j] = R[j, i] = kappa
    return _finish(R, pi)


def gtr(rates, pi):
    # order a,b,c,d,e,f = AC, AG, AT, CG, CT, GT
    R = np.zeros((4, 4))
    for r, (i, j) in zip(rates, itertools.combinations(range(4), 2)):
        R[i, j] = R[j, i] = r
    return _finish(R, pi)


def general_symmetric(mapping, rates, pi):
    m = len(pi)
    R = np.zeros((m, m))
    for g, (i, j) in zip(mapping, itertools.combinations(range(m), 2)):
        R[i, j] = R[j, i] = rates[g]
    return _finish(R, pi)


def general_nonsymmetric(mapping, rates, pi):
    """First half of the mapping: upper off-diagonal entries (row-major), second
    half: the mirrored lower entries."""
    m = len(pi)
    pairs = list(itertools.combinations(range(m), 2))
    half = len(pairs)
    R = np.zeros((m, m))
    for g, (i, j) in zip(mapping[:half], pairs):
        R[i, j] = rates[g]
    for g, (i, j) in zip(mapping[half:], pairs):
        R[j, i] = rates[g]
    return _finish(R, pi)


def empirical(rates, pi):
    m = len(pi)
    R = np.zeros((m, m))
    for r, (i, j) in zip(rates, itertools.combinations(range(m), 2)):
        R[i, j] = R[j, i] = r
    return _finish(R, pi)


TRIPLETS = ["".join(t) for t in itertools.product(NUC, repeat=3)]
TRANSITIONS = {("A", "G"), ("G", "A"), ("C", "T"), ("T", "C")}


def mg94(table, alpha, beta, kappa, pi):
    """Codon model as shipped: sense codons of the genetic-code `table` (64 letters,
    '*' = stop, codons in lexicographic ACGT order).  A pair of codons differing at
    exactly one position has exchangeability kappa^[transition] * (alpha if the amino
    acid is unchanged else beta); every other pair has exchangeability 1 (this is what
    the repository's own test pins: with all parameters 1 every off-diagonal entry is
    pi_j)."""
    sense = [i for i in range(64) if table[i] != "*"]
    m = len(sense)
    R = np.ones((m, m))
    for a in range(m):
        for b in range(m):
            if a == b:
                continue
            c1, c2 = TRIPLETS[sense[a]], TRIPLETS[sense[b]]
            diff = [k for k in range(3) if c1[k] != c2[k]]
            if len(diff) == 1:
                k = diff[0]
                r = 1.0
                if (c1[k], c2[k]) in TRANSITIONS:
                    r *= kappa
                r *= alpha if table[sense[a]] == table[sense[b]] else beta
                R[a, b] = r
    return _finish(R, pi), m
