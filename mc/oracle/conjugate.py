"""Closed-form reference for conjugate Bayesian models (C14).

Plain `math` / numpy / mpmath; no torch, no torchtree.  Every model object exposes

* ``logZ``               closed-form log marginal likelihood  log p(D),
* ``log_joint(v)``       log p(D, v) in the coordinate the variational distribution
                         samples (including the log-Jacobian of a constraining transform
                         when the latent coordinate is the unconstrained one),
* ``log_post(v)``        log density of the exact posterior in the same coordinate,
* ``entropy``            differential entropy of the posterior in the coordinate of the
                         variational *distribution objects* (None where not available),
* ``to_base(x)``         the value of the base (unconstrained) parameter for a draw x made
                         in the constrained space.

``self_test`` asserts  log_joint - log_post == logZ  at several points with the closed
forms written independently of each other (the marginal likelihoods are the text-book
formulas, not differences of the densities)."""
import math

import mpmath as mp
import numpy as np

LOG_2PI = math.log(2.0 * math.pi)


def digamma(x):
    return float(mp.digamma(x))


def lbeta(a, b):
    return math.lgamma(a) + math.lgamma(b) - math.lgamma(a + b)


def lchoose(n, k):
    return math.lgamma(n + 1.0) - math.lgamma(k + 1.0) - math.lgamma(n - k + 1.0)


# -- densities ----------------------------------------------------------------

def gamma_logpdf(x, a, b):
    return a * math.log(b) - math.lgamma(a) + (a - 1.0) * math.log(x) - b * x


def gamma_entropy(a, b):
    return a - math.log(b) + math.lgamma(a) + (1.0 - a) * digamma(a)


def normal_logpdf(x, m, s):
    return -0.5 * LOG_2PI - math.log(s) - 0.5 * ((x - m) / s) ** 2


def normal_entropy(s):
    return 0.5 + 0.5 * LOG_2PI + math.log(s)


def lognormal_logpdf(x, m, s):
    return normal_logpdf(math.log(x), m, s) - math.log(x)


def beta_logpdf(x, a, b):
    return (a - 1.0) * math.log(x) + (b - 1.0) * math.log1p(-x) - lbeta(a, b)


def beta_entropy(a, b):
    return (lbeta(a, b) - (a - 1.0) * digamma(a) - (b - 1.0) * digamma(b)
            + (a + b - 2.0) * digamma(a + b))


def exponential_logpdf(y, rate):
    return math.log(rate) - rate * y


def poisson_logpmf(k, rate):
    return k * math.log(rate) - rate - math.lgamma(k + 1.0)


def binomial_logpmf(k, n, p):
    return lchoose(n, k) + k * math.log(p) + (n - k) * math.log1p(-p)


def mvn_logpdf(x, m, cov):
    x = np.asarray(x, float)
    m = np.asarray(m, float)
    cov = np.asarray(cov, float)
    d = x - m
    sol = np.linalg.solve(cov, d)
    sign, logdet = np.linalg.slogdet(cov)
    return float(-0.5 * len(x) * LOG_2PI - 0.5 * logdet - 0.5 * d @ sol)


def mvn_entropy(cov):
    cov = np.asarray(cov, float)
    sign, logdet = np.linalg.slogdet(cov)
    return float(0.5 * cov.shape[0] * (1.0 + LOG_2PI) + 0.5 * logdet)


# -- transforms (constrained value x  <->  base value z) ----------------------

class Identity:
    name = "identity"

    def to_base(self, x):
        return x

    def log_jac(self, x):  # log |dx/dz| as a function of the constrained value
        return 0.0


class Exp(Identity):
    name = "exp"

    def to_base(self, x):
        return math.log(x)

    def log_jac(self, x):
        return math.log(x)


class Sigmoid(Identity):
    name = "sigmoid"

    def to_base(self, x):
        return math.log(x) - math.log1p(-x)

    def log_jac(self, x):
        return math.log(x) + math.log1p(-x)


class Affine(Identity):
    name = "affine"

    def __init__(self, loc, scale):
        self.loc, self.scale = loc, scale

    def to_base(self, x):
        return (x - self.loc) / self.scale

    def log_jac(self, x):
        return math.log(abs(self.scale))


# -- conjugate models ----------------------------------------------------------
# The latent value handed to log_joint/log_post is always the CONSTRAINED value
# (theta, p, mu); `transform` says which base coordinate the density is taken in.

class Model:
    transform = Identity()
    entropy = None
    dim = 1

    def log_joint(self, v):
        return self.log_lik(v) + self.log_prior(v) + self.transform.log_jac(v)

    def log_post(self, v):
        return self.log_post_constrained(v) + self.transform.log_jac(v)

    def to_base(self, v):
        return self.transform.to_base(v)

    def self_test(self, points):
        for v in points:
            d = self.log_joint(v) - self.log_post(v)
            if not abs(d - self.logZ) <= 1e-11 * max(1.0, abs(self.logZ)):
                raise RuntimeError(
                    f"conjugate oracle inconsistent: {type(self).__name__} at {v}: "
                    f"log_joint-log_post={d!r} logZ={self.logZ!r}")


class GammaExponential(Model):
    """theta ~ Gamma(a, rate b);  y_i ~ Exponential(rate theta)."""

    def __init__(self, a, b, y, transform=None):
        self.a, self.b, self.y = a, b, list(y)
        n, sy = len(y), math.fsum(y)
        self.pa, self.pb = a + n, b + sy
        self.logZ = (a * math.log(b) - math.lgamma(a) + math.lgamma(self.pa)
                     - self.pa * math.log(self.pb))
        if transform is not None:
            self.transform = transform
        else:
            self.entropy = gamma_entropy(self.pa, self.pb)

    def log_lik(self, v):
        return math.fsum(exponential_logpdf(yi, v) for yi in self.y)

    def log_prior(self, v):
        return gamma_logpdf(v, self.a, self.b)

    def log_post_constrained(self, v):
        return gamma_logpdf(v, self.pa, self.pb)


class GammaPoisson(Model):
    """theta ~ Gamma(a, rate b);  k_i ~ Poisson(theta)."""

    def __init__(self, a, b, k, transform=None):
        self.a, self.b, self.k = a, b, list(k)
        n, sk = len(k), math.fsum(k)
        self.pa, self.pb = a + sk, b + n
        self.logZ = (a * math.log(b) - math.lgamma(a) + math.lgamma(self.pa)
                     - self.pa * math.log(self.pb)
                     - math.fsum(math.lgamma(ki + 1.0) for ki in k))
        if transform is not None:
            self.transform = transform
        else:
            self.entropy = gamma_entropy(self.pa, self.pb)

    def log_lik(self, v):
        return math.fsum(poisson_logpmf(ki, v) for ki in self.k)

    def log_prior(self, v):
        return gamma_logpdf(v, self.a, self.b)

    def log_post_constrained(self, v):
        return gamma_logpdf(v, self.pa, self.pb)


class NormalNormal(Model):
    """mu ~ N(m0, s0);  y_i ~ N(mu, sigma), sigma known.  With an affine transform the
    sampled coordinate is z = (mu - loc)/scale and the entropy is that of z."""

    def __init__(self, m0, s0, sigma, y, transform=None):
        self.m0, self.s0, self.sigma, self.y = m0, s0, sigma, list(y)
        n = len(y)
        prec = 1.0 / s0 ** 2 + n / sigma ** 2
        self.ps = math.sqrt(1.0 / prec)
        self.pm = (m0 / s0 ** 2 + math.fsum(y) / sigma ** 2) / prec
        # text-book marginal: y ~ N(m0 1, sigma^2 I + s0^2 11')
        cov = sigma ** 2 * np.eye(n) + s0 ** 2 * np.ones((n, n))
        self.logZ = mvn_logpdf(self.y, [m0] * n, cov)
        if transform is not None:
            self.transform = transform
            self.entropy = normal_entropy(self.ps / abs(transform.scale))
        else:
            self.entropy = normal_entropy(self.ps)

    def log_lik(self, v):
        return math.fsum(normal_logpdf(yi, v, self.sigma) for yi in self.y)

    def log_prior(self, v):
        return normal_logpdf(v, self.m0, self.s0)

    def log_post_constrained(self, v):
        return normal_logpdf(v, self.pm, self.ps)

    # parameters of the exact posterior of the base coordinate
    def base_loc_scale(self):
        t = self.transform
        if isinstance(t, Affine):
            return (self.pm - t.loc) / t.scale, self.ps / abs(t.scale)
        return self.pm, self.ps


class LogNormalExp(Model):
    """theta = exp(z);  theta ~ LogNormal(m0, s0);  y_i ~ N(z, sigma).  The posterior of z is
    normal - the form `torchtree-cli advi` uses (normal on the unconstrained coordinate,
    exp transform, Jacobian in the joint)."""

    transform = Exp()

    def __init__(self, m0, s0, sigma, y):
        self.m0, self.s0, self.sigma, self.y = m0, s0, sigma, list(y)
        n = len(y)
        prec = 1.0 / s0 ** 2 + n / sigma ** 2
        self.ps = math.sqrt(1.0 / prec)
        self.pm = (m0 / s0 ** 2 + math.fsum(y) / sigma ** 2) / prec
        cov = sigma ** 2 * np.eye(n) + s0 ** 2 * np.ones((n, n))
        self.logZ = mvn_logpdf(self.y, [m0] * n, cov)
        self.entropy = normal_entropy(self.ps)  # of z

    def log_lik(self, v):
        return math.fsum(normal_logpdf(yi, math.log(v), self.sigma) for yi in self.y)

    def log_prior(self, v):
        return lognormal_logpdf(v, self.m0, self.s0)

    def log_post_constrained(self, v):
        return lognormal_logpdf(v, self.pm, self.ps)

    def base_loc_scale(self):
        return self.pm, self.ps


class BetaBinomial(Model):
    """p ~ Beta(a, b);  k_i ~ Binomial(N_i, p)."""

    def __init__(self, a, b, N, k, transform=None):
        self.a, self.b, self.N, self.k = a, b, list(N), list(k)
        sk = math.fsum(k)
        sf = math.fsum(n - ki for n, ki in zip(N, k))
        self.pa, self.pb = a + sk, b + sf
        self.logZ = (math.fsum(lchoose(n, ki) for n, ki in zip(N, k))
                     + lbeta(self.pa, self.pb) - lbeta(a, b))
        if transform is not None:
            self.transform = transform
        else:
            self.entropy = beta_entropy(self.pa, self.pb)

    def log_lik(self, v):
        return math.fsum(binomial_logpmf(ki, n, v) for n, ki in zip(self.N, self.k))

    def log_prior(self, v):
        return beta_logpdf(v, self.a, self.b)

    def log_post_constrained(self, v):
        return beta_logpdf(v, self.pa, self.pb)


class MVNormalDiag(Model):
    """mu ~ N_d(m0, S0) (full covariance);  y_ji ~ N(mu_j, sigma_j) independently
    (n_j >= 1 observations of coordinate j).  Posterior N_d(pm, pcov)."""

    def __init__(self, m0, S0, sigmas, ys):
        self.m0 = np.asarray(m0, float)
        self.S0 = np.asarray(S0, float)
        self.sigmas = list(sigmas)
        self.ys = [list(y) for y in ys]
        self.dim = d = len(m0)
        L0 = np.linalg.inv(self.S0)
        lam = L0 + np.diag([len(y) / s ** 2 for y, s in zip(self.ys, sigmas)])
        self.pcov = np.linalg.inv(lam)
        self.pcov = 0.5 * (self.pcov + self.pcov.T)
        rhs = L0 @ self.m0 + np.array([math.fsum(y) / s ** 2 for y, s in zip(self.ys, sigmas)])
        self.pm = self.pcov @ rhs
        # text-book marginal: stacked y ~ N(A m0, D + A S0 A')
        rows, var, flat = [], [], []
        for j in range(d):
            for yi in self.ys[j]:
                e = np.zeros(d)
                e[j] = 1.0
                rows.append(e)
                var.append(sigmas[j] ** 2)
                flat.append(yi)
        A = np.array(rows)
        self.logZ = mvn_logpdf(flat, A @ self.m0, np.diag(var) + A @ self.S0 @ A.T)
        self.entropy = mvn_entropy(self.pcov)

    def log_lik(self, v):
        return math.fsum(normal_logpdf(yi, v[j], self.sigmas[j])
                         for j in range(self.dim) for yi in self.ys[j])

    def log_prior(self, v):
        return mvn_logpdf(v, self.m0, self.S0)

    def log_joint(self, v):
        return self.log_lik(v) + self.log_prior(v)

    def log_post(self, v):
        return mvn_logpdf(v, self.pm, self.pcov)

    def to_base(self, v):
        return list(v)


class Product(Model):
    """Independent conjugate blocks in one joint model; the posterior factorises, so a
    mean-field variational distribution contains it."""

    def __init__(self, blocks):
        self.blocks = list(blocks)
        self.logZ = math.fsum(b.logZ for b in blocks)
        ents = [b.entropy for b in blocks]
        self.entropy = None if any(e is None for e in ents) else math.fsum(ents)
        self.dim = len(blocks)

    def log_joint(self, v):
        return math.fsum(b.log_joint(x) for b, x in zip(self.blocks, v))

    def log_post(self, v):
        return math.fsum(b.log_post(x) for b, x in zip(self.blocks, v))

    def to_base(self, v):
        return [b.to_base(x) for b, x in zip(self.blocks, v)]

    def self_test(self, points):
        for v in points:
            d = self.log_joint(v) - self.log_post(v)
            if not abs(d - self.logZ) <= 1e-11 * max(1.0, abs(self.logZ)):
                raise RuntimeError(f"conjugate oracle inconsistent: Product at {v}")
