"""Reference models for birth-death-sampling tree densities.  Plain Python floats / mpmath,
no code shared with torchtree.

Conventions (all times are AGES, i.e. time before the present; the youngest tip is at age 0,
the process starts with one lineage at age `origin`):

* `constant_rate`  - closed form of Stadler (2010, J. Theor. Biol. 267:396), Theorem 3.5 /
  Corollary for sampled individuals that are removed with probability r, written from the
  paper in its un-normalised form (c1, c2, q(t), p0(t)); density of the *oriented* tree.
* `skyline`        - numerical integration of the master equations backward in time
      E'(a) = mu - (lambda + mu + psi) E + lambda E^2          (no sampled descendant)
      g'(a) = (-(lambda + mu + psi) + 2 lambda E(a)) g          (lineage of the sampled tree)
  with piecewise-constant rates, the jump E -> (1 - rho_j) E and the factor (1 - rho_j) per
  lineage when a boundary with a rho-sampling event is crossed, g = rho_j at a rho-sampled tip,
  g = psi (r + (1 - r) E) at a psi-sampled tip and a factor lambda at each branching.
  Two interchangeable integrators: an adaptive Taylor-series method (default, ~1e-14) and a
  classical RK4 with step halving; `mp_check` integrates with mpmath.odefun.

Epochs are indexed FORWARD in time (epoch 0 starts at the origin); `bounds` are the forward
times t_1 < ... < t_{m-1} of the rate shifts measured from the origin, rho[i] is the sampling
probability of the event at the END of epoch i (rho[m-1] at the present).
"""
import itertools
import math

# ----------------------------------------------------------------------------------------
# constant rates: closed form


def _c12(lam, mu, psi, rho):
    c1 = abs(math.sqrt((lam - mu - psi) ** 2 + 4.0 * lam * psi))
    c2 = -(lam - mu - 2.0 * lam * rho - psi) / c1
    return c1, c2


def log_q_const(t, c1, c2):
    """log of q(t) = 2(1-c2^2) + exp(-c1 t)(1-c2)^2 + exp(c1 t)(1+c2)^2"""
    return c1 * t + 2.0 * math.log((1.0 + c2) + (1.0 - c2) * math.exp(-c1 * t))


def p0_const(t, lam, mu, psi, c1, c2):
    e = math.exp(-c1 * t)
    return (lam + mu + psi + c1 * (e * (1.0 - c2) - (1.0 + c2)) / (e * (1.0 - c2) + (1.0 + c2))) / (2.0 * lam)


def constant_rate(tip_ages, branch_ages, origin, lam, mu, psi, rho, r=None, survival=True):
    """log density of the oriented sampled tree; tips at age 0 are rho-sampled when rho > 0
    and psi-sampled otherwise; r = probability that a psi-sampled individual is removed
    (None = 1)."""
    c1, c2 = _c12(lam, mu, psi, rho)
    n = len(tip_ages)
    if len(branch_ages) != n - 1:
        raise ValueError("need n-1 branching ages")
    lp = (n - 1) * math.log(lam)
    for x in list(branch_ages) + [origin]:
        lp -= log_q_const(x, c1, c2)
    for y in tip_ages:
        if y == 0.0 and rho > 0.0:
            lp += math.log(4.0 * rho)
        else:
            lp += math.log(psi) + log_q_const(y, c1, c2)
            if r is not None:
                lp += math.log(r + (1.0 - r) * p0_const(y, lam, mu, psi, c1, c2))
    if survival:
        lp -= math.log(1.0 - p0_const(origin, lam, mu, psi, c1, c2))
    return lp


# ----------------------------------------------------------------------------------------
# integrators for  E' = mu - s E + lam E^2,  G' = -s + 2 lam E   (s = lam + mu + psi)
# over one stretch of constant rates, returning (E, G) at the requested ages


def _taylor_step(E, lam, mu, s, h_max, order=24):
    """one adaptive Taylor step of length <= h_max from the state E; returns (h, E(h), dG)"""
    e = [0.0] * (order + 1)
    e[0] = E
    for k in range(order):
        conv = 0.0
        for j in range(k + 1):
            conv += e[j] * e[k - j]
        e[k + 1] = ((mu if k == 0 else 0.0) - s * e[k] + lam * conv) / (k + 1)
    h = h_max
    while True:
        # the last two terms bound the truncation error of a convergent series
        tail = abs(e[order]) * h ** order + abs(e[order - 1]) * h ** (order - 1)
        if tail <= 1e-18 * max(1.0, abs(E)):
            break
        h *= 0.5
        if h < 1e-12:
            raise RuntimeError("Taylor step size underflow")
    En = 0.0
    Gn = 0.0  # integral of E over the step
    for k in range(order, -1, -1):
        En = En * h + e[k]
    for k in range(order, -1, -1):
        Gn = Gn * h + e[k] / (k + 1)
    Gn *= h
    return h, En, -s * h + 2.0 * lam * Gn


def taylor_segment(E, G, a, b, lam, mu, psi):
    s = lam + mu + psi
    t = a
    while t < b:
        h, E, dG = _taylor_step(E, lam, mu, s, b - t)
        G += dG
        # guard against accumulation of rounding in t: land exactly on b
        t = b if (b - (t + h)) <= 1e-15 * max(1.0, abs(b)) else t + h
    return E, G


def _rk4(E, G, a, b, lam, mu, psi, nsteps):
    s = lam + mu + psi
    h = (b - a) / nsteps

    def f(e):
        return mu - s * e + lam * e * e, -s + 2.0 * lam * e

    for _ in range(nsteps):
        k1e, k1g = f(E)
        k2e, k2g = f(E + 0.5 * h * k1e)
        k3e, k3g = f(E + 0.5 * h * k2e)
        k4e, k4g = f(E + h * k3e)
        E += h * (k1e + 2 * k2e + 2 * k3e + k4e) / 6.0
        G += h * (k1g + 2 * k2g + 2 * k3g + k4g) / 6.0
    return E, G


def rk4_segment(E, G, a, b, lam, mu, psi, tol=1e-10):
    """RK4 with step halving until two successive resolutions agree to `tol`; returns the
    Richardson-extrapolated value"""
    if b <= a:
        return E, G
    n = max(8, int(math.ceil((b - a) * (lam + mu + psi) * 16)))
    prev = _rk4(E, G, a, b, lam, mu, psi, n)
    for _ in range(12):
        n *= 2
        cur = _rk4(E, G, a, b, lam, mu, psi, n)
        if abs(cur[0] - prev[0]) <= tol and abs(cur[1] - prev[1]) <= tol:
            return (cur[0] + (cur[0] - prev[0]) / 15.0, cur[1] + (cur[1] - prev[1]) / 15.0)
        prev = cur
    raise RuntimeError("RK4 step halving did not converge")


def mp_segment(E, G, a, b, lam, mu, psi):
    import mpmath as mp

    if b <= a:
        return E, G
    with mp.workdps(30):
        s = lam + mu + psi
        f = mp.odefun(lambda t, y: [mu - s * y[0] + lam * y[0] * y[0], -s + 2 * lam * y[0]],
                      0, [mp.mpf(E), mp.mpf(G)])
        y = f(mp.mpf(b) - mp.mpf(a))
        return float(y[0]), float(y[1])


SEGMENT = {"taylor": taylor_segment, "rk4": rk4_segment, "mp": mp_segment}


# ----------------------------------------------------------------------------------------
# skyline: the axis functions E(a), G(a) at a set of ages


def axis(origin, bounds, lam, mu, psi, rho, ages, method="taylor"):
    """Integrate (E, G) from age 0 to `origin`.  Returns {age: (E_young, E_old, G)} for every
    requested age (E_young / E_old: value just below / just above that age; they differ only at
    a boundary with rho > 0), the origin included."""
    m = len(lam)
    if not (len(mu) == len(psi) == len(rho) == m and len(bounds) == m - 1):
        raise ValueError("inconsistent epoch vectors")
    seg = SEGMENT[method]
    b_age = [origin - t for t in bounds]  # decreasing in forward order
    for x, y in zip([origin] + b_age, b_age + [0.0]):
        if not x > y:
            raise ValueError(f"epoch boundaries not strictly inside (0, origin): {bounds} {origin}")
    stops = sorted(set([float(a) for a in ages] + b_age + [origin]))
    if stops[0] < 0.0 or stops[-1] > origin:
        raise ValueError("age outside [0, origin]")
    out = {}
    E = 1.0
    G = 0.0
    cur = 0.0
    epoch = m - 1
    # the sampling event at the present
    E_young = E
    E = (1.0 - rho[epoch]) * E
    if stops[0] == 0.0:
        out[0.0] = (E_young, E, G)
        stops = stops[1:]
    for a in stops:
        E, G = seg(E, G, cur, a, lam[epoch], mu[epoch], psi[epoch])
        cur = a
        E_young = E
        if epoch > 0 and a == b_age[epoch - 1]:
            E = (1.0 - rho[epoch - 1]) * E
            epoch -= 1
        out[a] = (E_young, E, G)
    return out


def epoch_of(age, origin, bounds, tie):
    """index of the epoch an event at `age` belongs to; an event exactly on boundary j
    (1-based, forward time bounds[j-1]) goes to the older epoch j-1 if tie[j] == 'old', to the
    younger epoch j if 'young'"""
    t = origin - age
    idx = 0
    for j, b in enumerate(bounds, start=1):
        if t > b:
            idx = j
        elif t == b:
            idx = j if tie.get(j, "old") == "young" else j - 1
    return idx


def coincidences(tip_ages, branch_ages, origin, bounds):
    """1-based indices of the boundaries that carry an event exactly"""
    ev = set(float(a) for a in tip_ages) | set(float(a) for a in branch_ages)
    return [j for j, b in enumerate(bounds, start=1) if (origin - b) in ev]


def skyline(tip_ages, branch_ages, origin, bounds, lam, mu, psi, rho, r=None, survival=True,
            tie=None, method="taylor", ax=None):
    """log density of the oriented sampled tree under the birth-death skyline model.
    r: list of removal probabilities per epoch or None.  tie: {boundary index: 'old'|'young'}
    for events lying exactly on a boundary (irrelevant when rates and rho agree across it)."""
    tie = tie or {}
    m = len(lam)
    n = len(tip_ages)
    b_age = [origin - t for t in bounds]
    if ax is None:
        ax = axis(origin, bounds, lam, mu, psi, rho, list(tip_ages) + list(branch_ages), method)
    lp = 0.0
    # edges: sum over lineages of G(top) - G(bottom)
    lp += ax[origin][2]
    for x in branch_ages:
        lp += ax[float(x)][2]
    for y in tip_ages:
        lp -= ax[float(y)][2]
    # branchings
    for x in branch_ages:
        lp += math.log(lam[epoch_of(x, origin, bounds, tie)])
    # tips
    for y in tip_ages:
        y = float(y)
        rho_here = None
        if y == 0.0:
            rho_here = rho[m - 1]
        else:
            for j, a in enumerate(b_age, start=1):
                if a == y:
                    rho_here = rho[j - 1]
        if rho_here is not None and rho_here > 0.0:
            lp += math.log(rho_here)  # rho-sampled (and removed)
            continue
        k = m - 1 if y == 0.0 else epoch_of(y, origin, bounds, tie)
        lp += math.log(psi[k])
        if r is not None:
            E = ax[y][0]  # continuous here: rho = 0 at this age
            lp += math.log(r[k] + (1.0 - r[k]) * E)
    # lineages crossing a boundary that carries a sampling event
    for j, a in enumerate(b_age, start=1):
        if rho[j - 1] <= 0.0:
            continue
        older = sum(1 for y in tip_ages if y <= a) - sum(1 for x in branch_ages if x <= a)
        # `older` = lineages just above age a (tips at a included, branchings at a merged)
        cross = older - sum(1 for y in tip_ages if y == a)
        if tie.get(j, "old") == "old":
            cross += sum(1 for x in branch_ages if x == a)
        if cross > 0:
            if rho[j - 1] >= 1.0:
                return -math.inf
            lp += cross * math.log(1.0 - rho[j - 1])
    if survival:
        lp -= math.log(1.0 - ax[origin][0])
    return lp


def material_coincidences(tip_ages, branch_ages, origin, bounds, lam, mu, psi, rho, r=None):
    """boundaries that carry an event exactly AND across which a rate, the removal probability
    or the sampling probability changes (on the others the side of the event is immaterial)"""
    co = []
    for j in coincidences(tip_ages, branch_ages, origin, bounds):
        same = (lam[j - 1] == lam[j] and mu[j - 1] == mu[j] and psi[j - 1] == psi[j]
                and rho[j - 1] == 0.0 and (r is None or r[j - 1] == r[j]))
        if not same:
            co.append(j)
    return co


def acceptable(tip_ages, branch_ages, origin, bounds, lam, mu, psi, rho, r=None, survival=True,
               method="taylor", ax=None):
    """the set of values the density may take: one value when no event lies on a boundary
    across which something changes, otherwise both one-sided limits per such boundary"""
    co = material_coincidences(tip_ages, branch_ages, origin, bounds, lam, mu, psi, rho, r)
    if ax is None:
        ax = axis(origin, bounds, lam, mu, psi, rho, list(tip_ages) + list(branch_ages), method)
    vals = []
    for choice in itertools.product(("old", "young"), repeat=len(co)):
        vals.append(skyline(tip_ages, branch_ages, origin, bounds, lam, mu, psi, rho, r, survival,
                            dict(zip(co, choice)), method, ax))
    return vals
