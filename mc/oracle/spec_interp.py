"""Reference interpreter of the *id semantics* of a torchtree JSON specification.

Shares no code with torchtree.  It implements the documented rules only:

* a specification is a list of objects processed in document order;
* a dict with an ``id`` *defines* an object, a string in an object slot *refers* to an
  object that must already be defined (completely – an enclosing object is not yet
  defined while its children are being read);
* ids are unique over the whole document, at any nesting depth;
* keys starting with ``_`` and dicts carrying ``"ignore": true`` are as if absent;
* a ``Plate`` element of a list stands for its ``object`` repeated over ``range`` with
  ``${var}`` (or a trailing ``*``) in every ``id`` replaced by the index.

`interpret` returns either the classes of id errors present (the document must be
rejected) or the alias relation: which slot of which holder denotes which id.
`evaluate` computes the value every object of a well-formed document denotes (plain
numpy) so that sharing can also be observed through values.

Only the small class family used by the C13 check is known (see SCHEMA); a document
outside it raises OutOfGrammar (a harness error, never a verdict)."""
import copy
import math

import numpy as np


class OutOfGrammar(Exception):
    pass


# slots in the order the documents are written (and the classes read them):
# (key path, 'one' | 'list', category of the object expected there)
SCHEMA = {
    "Parameter": {"cat": "p", "slots": []},
    "ViewParameter": {"cat": "p", "slots": [(("parameter",), "one", "p")]},
    "TransformedParameter": {"cat": "p", "slots": [(("x",), "one", "p")]},
    "CatParameter": {"cat": "p", "slots": [(("parameters",), "list", "p")]},
    "Distribution": {"cat": "m", "slots": [(("x",), "one", "p"),
                                           (("parameters", "loc"), "one", "p")]},
    "JointDistributionModel": {"cat": "m", "slots": [(("distributions",), "list", "m")]},
    # container-like registered classes (UserDict / UserList: empty instances are falsy)
    "Taxon": {"cat": "t", "slots": []},
    "Taxa": {"cat": "a", "slots": [(("taxa",), "list0", "t")]},
}

TYPE_NAMES = {
    "Parameter": ["Parameter", "torchtree.Parameter", "torchtree.core.parameter.Parameter"],
    "ViewParameter": ["ViewParameter", "torchtree.ViewParameter",
                      "torchtree.core.parameter.ViewParameter"],
    "TransformedParameter": ["TransformedParameter", "torchtree.TransformedParameter",
                             "torchtree.core.parameter.TransformedParameter"],
    "CatParameter": ["CatParameter", "torchtree.CatParameter",
                     "torchtree.core.parameter.CatParameter"],
    "Distribution": ["Distribution", "torchtree.distributions.Distribution",
                     "torchtree.distributions.distributions.Distribution"],
    "JointDistributionModel": [
        "JointDistributionModel",
        "torchtree.distributions.joint_distribution.JointDistributionModel"],
    "Taxon": ["Taxon", "torchtree.evolution.taxa.Taxon"],
    "Taxa": ["Taxa", "torchtree.evolution.taxa.Taxa"],
}
_SHORT = {alias: short for short, aliases in TYPE_NAMES.items() for alias in aliases}


def short_type(obj):
    try:
        return _SHORT[obj["type"]]
    except KeyError:
        raise OutOfGrammar(f"unknown type in {obj!r}") from None


# -- comments ---------------------------------------------------------------------

def _ignored(x):
    return isinstance(x, dict) and x.get("ignore") is True


def strip_comments(x):
    """New structure without `_keys` and without dicts marked ``"ignore": true``."""
    if isinstance(x, list):
        return [strip_comments(e) for e in x if not _ignored(e)]
    if isinstance(x, dict):
        return {k: strip_comments(v) for k, v in x.items()
                if not k.startswith("_") and not _ignored(v)}
    return x


# -- plates -----------------------------------------------------------------------

def _is_plate(x):
    return isinstance(x, dict) and isinstance(x.get("type"), str) and x["type"].endswith("Plate")


def _subst(x, var, i):
    if isinstance(x, list):
        return [_subst(e, var, i) for e in x]
    if isinstance(x, dict):
        out = {}
        for k, v in x.items():
            if k == "id" and isinstance(v, str):
                if var is not None:
                    v = v.replace("${" + var + "}", str(i))
                elif v.endswith("*"):
                    v = v[:-1] + str(i)
            else:
                v = _subst(v, var, i)
            out[k] = v
        return out
    return x


def expand_plates(x):
    """New structure in which every plate element of a list is replaced by its clones."""
    if isinstance(x, list):
        out = []
        for e in x:
            if _is_plate(e):
                bounds = [int(s) for s in e["range"].split(":")]
                for i in range(*bounds):
                    out.append(expand_plates(_subst(copy.deepcopy(e["object"]), e.get("var"), i)))
            else:
                out.append(expand_plates(e))
        return out
    if isinstance(x, dict):
        if _is_plate(x):
            raise OutOfGrammar("plate outside a list")
        return {k: expand_plates(v) for k, v in x.items()}
    return x


def preprocess(spec):
    return expand_plates(strip_comments(spec))


# -- id semantics -----------------------------------------------------------------

def _get(obj, keypath):
    cur = obj
    for k in keypath:
        if not isinstance(cur, dict) or k not in cur:
            raise OutOfGrammar(f"missing slot {keypath} in object {obj.get('id')!r}")
        cur = cur[k]
    return cur


def slot_values(obj):
    """[(slot name, index or None, category, value)] in document order"""
    out = []
    for keypath, arity, cat in SCHEMA[short_type(obj)]["slots"]:
        name = ".".join(keypath)
        v = _get(obj, keypath)
        if arity == "one":
            out.append((name, None, cat, v))
        else:
            if not isinstance(v, list) or (not v and arity == "list"):
                raise OutOfGrammar(f"slot {name} must be a non-empty list")
            for i, e in enumerate(v):
                out.append((name, i, cat, e))
    return out


def _definitions(x, acc):
    """all (id, category) definitions anywhere, document order"""
    acc.append((x["id"], SCHEMA[short_type(x)]["cat"]))
    for _, _, _, v in slot_values(x):
        if isinstance(v, dict):
            _definitions(v, acc)
    return acc


def interpret(spec):
    """spec: list of object dicts (already preprocessed).  Returns a dict:

    verdict   'error' | 'ok'
    errors    sorted list of the classes of id errors present
    typed     False if some reference names an id whose definition(s) have the wrong
              category for the slot (such documents are outside the language judged)
    ids       {id: short type}           (verdict ok)
    order     ids in definition order    (verdict ok)
    slots     [(holder id, slot name, index, target id, 'ref'|'inline')]  (verdict ok)
    """
    if not isinstance(spec, list) or not spec:
        raise OutOfGrammar("a specification is a non-empty list")
    alldefs = []
    for el in spec:
        if not isinstance(el, dict) or "id" not in el:
            raise OutOfGrammar("top-level elements are object definitions")
        _definitions(el, alldefs)
    cats = {}
    for i, c in alldefs:
        cats.setdefault(i, set()).add(c)

    defined = {}  # id -> (short type, parent key)
    open_ids = []
    errors = set()
    typed = [True]
    slots = []
    order = []

    def define(obj, parent):
        id_ = obj["id"]
        if not isinstance(id_, str):
            raise OutOfGrammar("id must be a string")
        if id_ in open_ids:
            errors.add("dup_ancestor")
        elif id_ in defined:
            if defined[id_][1] == parent:
                errors.add("dup_toplevel" if parent is None else "dup_sibling")
            else:
                errors.add("dup_nested")
        open_ids.append(id_)
        me = object()  # identity of this definition as a parent
        for name, idx, cat, v in slot_values(obj):
            if isinstance(v, str):
                if cats.get(v) and cats[v] != {cat}:
                    typed[0] = False
                if v in defined:
                    slots.append((id_, name, idx, v, "ref"))
                elif v in open_ids:
                    errors.add("ref_ancestor")
                elif v in cats:
                    errors.add("ref_forward")
                else:
                    errors.add("ref_dangling")
            elif isinstance(v, dict):
                if "id" not in v or "type" not in v:
                    raise OutOfGrammar("inline slot value without id/type")
                if SCHEMA[short_type(v)]["cat"] != cat:
                    typed[0] = False
                define(v, me)
                slots.append((id_, name, idx, v["id"], "inline"))
            else:
                raise OutOfGrammar(f"slot value {v!r}")
        open_ids.pop()
        if id_ not in defined:
            defined[id_] = (short_type(obj), parent)
            order.append(id_)

    for el in spec:
        define(el, None)
    res = {"verdict": "error" if errors else "ok", "errors": sorted(errors), "typed": typed[0]}
    if not errors:
        res["ids"] = {i: t for i, (t, _) in defined.items()}
        res["order"] = order
        res["slots"] = slots
    return res


# -- values -----------------------------------------------------------------------

def objects_by_id(spec):
    """{id: object dict} of a well-formed (preprocessed) document"""
    out = {}

    def rec(o):
        out[o["id"]] = o
        for _, _, _, v in slot_values(o):
            if isinstance(v, dict):
                rec(v)

    for el in spec:
        rec(el)
    return out


def evaluate(spec, override=None):
    """{id: numpy array | None} for a well-formed document.  `override` maps ids of
    Parameters to the values they currently hold.  None = the value is undefined
    (shapes that do not broadcast).  A Taxon denotes its attribute dict, a Taxa the list of
    the ids of its members."""
    override = override or {}
    objs = objects_by_id(spec)
    memo = {}

    def tid(v):
        return v if isinstance(v, str) else v["id"]

    def val(i):
        if i in memo:
            return memo[i]
        o = objs[i]
        t = short_type(o)
        if t == "Taxon":
            r = dict(o.get("attributes", {}))
        elif t == "Taxa":
            r = [tid(v) for v in o["taxa"]]
        elif t == "Parameter":
            r = np.array(override[i] if i in override else o["tensor"], dtype=float)
        elif t == "ViewParameter":
            lo, hi = (int(s) for s in o["indices"].split(":"))
            r = val(tid(o["parameter"]))[lo:hi]
        elif t == "TransformedParameter":
            if not o["transform"].endswith("ExpTransform"):
                raise OutOfGrammar(o["transform"])
            r = np.exp(val(tid(o["x"])))
        elif t == "CatParameter":
            r = np.concatenate([val(tid(v)) for v in o["parameters"]])
        elif t == "Distribution":
            if not o["distribution"].endswith(".Normal"):
                raise OutOfGrammar(o["distribution"])
            x = val(tid(o["x"]))
            loc = val(tid(o["parameters"]["loc"]))
            s = float(o["parameters"]["scale"])
            try:
                np.broadcast_shapes(x.shape, loc.shape)
            except ValueError:
                r = None
            else:
                r = -((x - loc) ** 2) / (2 * s * s) - math.log(s) - 0.5 * math.log(2 * math.pi)
        else:
            parts = [val(tid(v)) for v in o["distributions"]]
            r = None if any(p is None for p in parts) else np.array(sum(float(p.sum()) for p in parts))
        memo[i] = r
        return r

    return {i: val(i) for i in objs}
