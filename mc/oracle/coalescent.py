"""Reference Kingman coalescent densities: -sum_intervals C(k,2) * int 1/N(t) dt
- sum_coal log N(t_coal), with N(t) the documented population-size function of each model.
Plain Python floats (math), closed-form integrals per piece."""
import math


def events(samp, coal):
    ev = [(t, +1) for t in samp] + [(t, -1) for t in coal]
    # ties: samplings before coalescences at the same time never occur by construction
    ev.sort(key=lambda e: (e[0], -e[1]))
    return ev


def kingman(samp, coal, int_inv_n, log_n_at):
    """int_inv_n(a, b, ncoal_before) integrates 1/N over [a, b]; log_n_at(t, ncoal_before)"""
    ev = events(samp, coal)
    k = 0
    ncoal = 0
    lp = 0.0
    prev = ev[0][0]
    for t, kind in ev:
        if t > prev and k >= 2:
            lp -= k * (k - 1) / 2.0 * int_inv_n(prev, t, ncoal)
        if kind == -1:
            lp -= log_n_at(t, ncoal)
            ncoal += 1
            k -= 1
        else:
            k += 1
        prev = t
    return lp


def constant(samp, coal, theta):
    return kingman(samp, coal, lambda a, b, c: (b - a) / theta, lambda t, c: math.log(theta))


def exponential(samp, coal, theta, g):
    """N(t) = theta * exp(-g t)"""
    def ii(a, b, c):
        if g == 0.0:
            return (b - a) / theta
        return (math.exp(g * b) - math.exp(g * a)) / (theta * g)
    return kingman(samp, coal, ii, lambda t, c: math.log(theta) - g * t)


def skyride(samp, coal, thetas):
    """N(t) = thetas[number of coalescent events younger than t]"""
    return kingman(samp, coal, lambda a, b, c: (b - a) / thetas[c], lambda t, c: math.log(thetas[c]))


def _segments(a, b, grid):
    """split [a,b] at the grid points; yields (lo, hi, index of the piece = number of grid points <= lo)"""
    pts = [a] + [g for g in grid if a < g < b] + [b]
    for lo, hi in zip(pts[:-1], pts[1:]):
        mid = 0.5 * (lo + hi)
        idx = sum(1 for g in grid if g <= mid)
        yield lo, hi, idx


def skygrid(samp, coal, thetas, grid):
    """N(t) = thetas[i] for grid[i-1] < t <= grid[i] (grid[-1] = 0), thetas[-1] beyond the last
    grid point"""
    def ii(a, b, c):
        return sum((hi - lo) / thetas[i] for lo, hi, i in _segments(a, b, grid))

    def ln(t, c):
        return math.log(thetas[sum(1 for g in grid if g < t)])
    return kingman(samp, coal, ii, ln)


def linear_n(t, thetas, grid):
    g0 = [0.0] + list(grid)
    if t >= g0[-1]:
        return thetas[-1]
    i = max(j for j in range(len(g0)) if g0[j] <= t)
    return thetas[i] + (thetas[i + 1] - thetas[i]) * (t - g0[i]) / (g0[i + 1] - g0[i])


def piecewise_linear(samp, coal, thetas, grid):
    """N(t): linear interpolation of thetas at the points 0, grid[0], ..., constant beyond"""
    def ii(a, b, c):
        tot = 0.0
        for lo, hi, i in _segments(a, b, grid):
            na, nb = linear_n(lo, thetas, grid), linear_n(hi, thetas, grid)
            if abs(nb - na) < 1e-14 * max(na, nb):
                tot += (hi - lo) / na
            else:
                tot += (hi - lo) * (math.log(nb) - math.log(na)) / (nb - na)
        return tot
    return kingman(samp, coal, ii, lambda t, c: math.log(linear_n(t, thetas, grid)))


def quad_check(samp, coal, nfun, breaks):
    """same density by numerical quadrature (mpmath) of 1/N – cross-check of the closed forms"""
    import mpmath as mp

    def ii(a, b, c):
        pts = [a] + [x for x in breaks if a < x < b] + [b]
        return float(mp.quad(lambda t: 1 / mp.mpf(nfun(float(t))), pts))
    return kingman(samp, coal, ii, lambda t, c: math.log(nfun(t - 1e-13)))
