"""Reference computations for C20 (plain math / numpy / mpmath, no torchtree code).

* quadratic form  x' Q x  with exact summation,
* the gamma and inverse-gamma log densities as written in the docstrings of
  GMRFGammaIntegrated / ConstantCoalescentIntegrated,
* a log-domain trapezoid quadrature on a logarithmic abscissa (the integrands are
  analytic in u = log(scale parameter) and decay at least exponentially on both sides,
  so the trapezoid rule converges geometrically; the rule is evaluated with step h and
  h/2 and the two values must agree, otherwise the *harness* fails),
* an mpmath cross-check of that quadrature on closed-form integrands.
"""
import math

import numpy as np

LOG_2PI = math.log(2.0 * math.pi)


def quadratic_form(Q, x):
    """x' Q x over ALL entries of Q (exactly rounded sum of the float64 products)."""
    Q = np.asarray(Q, dtype=float)
    x = np.asarray(x, dtype=float)
    n = x.shape[0]
    if Q.shape != (n, n):
        raise ValueError(f"precision matrix of shape {Q.shape} for a field of length {n}")
    terms = []
    for i in range(n):
        xi = float(x[i])
        row = Q[i]
        for j in range(n):
            q = float(row[j])
            if q != 0.0:
                terms.append(q * xi * float(x[j]))
    return math.fsum(terms)


def gaussian_form_logdensity(Q, x, precision):
    """(N-1)/2 log tau - 1/2 x'Qx - (N-1)/2 log 2 pi  -- the intrinsic first-order GMRF
    normalisation documented in the GMRF docstring, with the quadratic form taken from Q."""
    n = len(x)
    return 0.5 * (n - 1) * math.log(precision) - 0.5 * quadratic_form(Q, x) - 0.5 * (n - 1) * LOG_2PI


def log_gamma_pdf(u, shape, rate):
    """log of  rate^shape / Gamma(shape) * tau^(shape-1) * exp(-rate tau)  as a function of
    u = log(tau) (vectorised; stays finite over hundreds of orders of magnitude)."""
    u = np.asarray(u, dtype=float)
    return shape * math.log(rate) - math.lgamma(shape) + (shape - 1.0) * u - rate * np.exp(u)


def log_invgamma_pdf(u, alpha, beta):
    """log of  beta^alpha / Gamma(alpha) * theta^(-alpha-1) * exp(-beta/theta), u = log theta"""
    u = np.asarray(u, dtype=float)
    return alpha * math.log(beta) - math.lgamma(alpha) - (alpha + 1.0) * u - beta * np.exp(-u)


def logsumexp(v):
    v = np.asarray(v, dtype=float)
    m = np.max(v)
    if not np.isfinite(m):
        return float(m)
    return float(m + math.log(math.fsum(np.exp(v - m).tolist())))


class QuadratureError(RuntimeError):
    pass


def grid(lo, hi, h):
    """abscissae lo, lo+h/2, ..., hi (even positions form the coarse rule of step h)"""
    m = int(round((hi - lo) / (h / 2.0)))
    return lo + (h / 2.0) * np.arange(m + 1)


def log_integral(u, log_integrand, h, tail=40.0, agree=1e-11):
    """log of the integral over u of exp(log_integrand) by the trapezoid rule on the nested
    grids of step h/2 (all nodes) and h (every other node).  Raises QuadratureError unless
    both rules agree to `agree` (absolute, in log) and the integrand has dropped by at
    least `tail` (in log) at both ends."""
    v = np.asarray(log_integrand, dtype=float)
    if v.shape != u.shape:
        raise QuadratureError(f"integrand shape {v.shape} for {u.shape} nodes")
    if np.any(np.isnan(v)) or np.any(v == np.inf):
        raise QuadratureError("integrand is nan/+inf on the quadrature grid")
    fine = logsumexp(v) + math.log(h / 2.0)
    coarse = logsumexp(v[::2]) + math.log(h)
    m = np.max(v)
    if not (v[0] < m - tail and v[-1] < m - tail):
        raise QuadratureError(f"integration range too short: ends at {v[0] - m:.1f}, {v[-1] - m:.1f} below the mode")
    if abs(fine - coarse) > agree * max(1.0, abs(fine)):
        raise QuadratureError(f"trapezoid rules disagree: {fine!r} vs {coarse!r}")
    return fine


# -- mpmath cross-check of the quadrature ------------------------------------------------

def mp_log_integral_gamma_gmrf(ssq, n, precision_shape, precision_rate):
    """mpmath quadrature of  Gamma(tau; a, b) * prod_{i<n} N(d_i; 0, 1/tau)  over tau, where
    ssq = sum d_i^2  (closed-form integrand, used only to validate log_integral)."""
    import mpmath as mp

    with mp.workdps(30):
        a, b, s, d = mp.mpf(precision_shape), mp.mpf(precision_rate), mp.mpf(ssq), mp.mpf(n - 1)

        def f(u):
            t = mp.e ** u
            return mp.e ** (a * mp.log(b) - mp.loggamma(a) + (a - 1) * u - b * t
                            + d / 2 * u - s / 2 * t - d / 2 * mp.log(2 * mp.pi) + u)

        mode = mp.log((a + d / 2) / (b + s / 2))
        sd = 1 / mp.sqrt(a + d / 2)  # width of the peak in u
        pts = sorted({mode - 400, mode - 150, mode - 60} | {mode + k * sd for k in range(-40, 17)})
        return float(mp.log(mp.quad(f, pts)))


def mp_log_integral_invgamma_coalescent(total, n_coal, alpha, beta):
    """mpmath quadrature of InvGamma(theta; alpha, beta) * theta^(-n_coal) exp(-total/theta)"""
    import mpmath as mp

    with mp.workdps(30):
        a, b, s, k = mp.mpf(alpha), mp.mpf(beta), mp.mpf(total), mp.mpf(n_coal)

        def f(u):
            return mp.e ** (a * mp.log(b) - mp.loggamma(a) - (a + 1) * u - b * mp.e ** (-u)
                            - k * u - s * mp.e ** (-u) + u)

        mode = mp.log((b + s) / (a + k))
        sd = 1 / mp.sqrt(a + k)
        pts = sorted({mode + 400, mode + 150, mode + 60} | {mode - j * sd for j in range(-40, 17)})
        return float(mp.log(mp.quad(f, pts)))
