"""Reference model for the HMC checks (C16): closed-form log densities (and their
gradients) of the small targets, kinetic energy, and a plain numpy leapfrog.

Nothing here imports torch or torchtree.  The gradients and the reference integrator are
used ONLY to classify a trajectory (does a leapfrog trajectory from this point stay finite,
how strongly does it amplify a perturbation) so that tolerances for "up to round-off" can be
stated; they are never compared value-by-value with the implementation.  The log densities
ARE the oracle for the potential energy in the energy-error / acceptance checks."""
import math

import numpy as np

LOG2PI = math.log(2.0 * math.pi)


# -- fixed generic menus ---------------------------------------------------------------

def generic_vector(d, lo, hi, salt):
    """d pairwise distinct values in [lo, hi] (deterministic, irrational spacing)"""
    out = []
    for i in range(d):
        f = ((i + 1) * 0.6180339887498949 + salt * 0.4142135623730951) % 1.0
        out.append(lo + (hi - lo) * f)
    return np.array(out)


def generic_spd(d, lo, hi, salt):
    """dense SPD matrix with eigenvalues = generic_vector(d, lo, hi) and a fixed generic
    rotation (product of Givens rotations with irrational angles)"""
    ev = generic_vector(d, lo, hi, salt + 3)
    R = np.eye(d)
    k = 0
    for i in range(d):
        for j in range(i + 1, d):
            k += 1
            th = 0.7 + 1.1 * ((k * 0.7548776662466927 + salt * 0.5698402909980532) % 1.0)
            G = np.eye(d)
            c, s = math.cos(th), math.sin(th)
            G[i, i] = c
            G[j, j] = c
            G[i, j] = -s
            G[j, i] = s
            R = R @ G
    A = R @ np.diag(ev) @ R.T
    return 0.5 * (A + A.T)


def mass_menu(d):
    """name -> mass matrix (1-D array = diagonal form, 2-D array = dense form)"""
    m = {"ones": np.ones(d), "eye": np.eye(d)}
    for k in range(3):
        m[f"diag{k + 1}"] = generic_vector(d, 0.5, 4.0, 10 + k)
    for k in range(3):
        m[f"dense{k + 1}"] = generic_spd(d, 0.5, 4.0, 20 + k)
    if d == 1:
        # a 1x1 dense matrix is still a distinct code path (matrix product)
        pass
    return m


def inverse_mass(M):
    M = np.asarray(M, dtype=float)
    if M.ndim == 1:
        return 1.0 / M
    return np.linalg.inv(M)


def apply_inverse_mass(M, p):
    M = np.asarray(M, dtype=float)
    if M.ndim == 1:
        return p / M
    return np.linalg.solve(M, p)


def kinetic(p, M):
    """K = 1/2 p' M^-1 p for the mass matrix M (diagonal given as a vector)"""
    p = np.asarray(p, dtype=float)
    return 0.5 * float(np.dot(p, apply_inverse_mass(M, p)))


# -- targets ----------------------------------------------------------------------------

class Normal:
    """independent normal coordinates with distinct locations and scales"""

    def __init__(self, d, salt=0):
        self.d = d
        self.loc = generic_vector(d, -0.4, 0.4, 1 + salt)
        self.scale = generic_vector(d, 0.8, 2.0, 2 + salt)

    def logp(self, q):
        z = (q - self.loc) / self.scale
        return float(np.sum(-0.5 * z * z - np.log(self.scale) - 0.5 * LOG2PI))

    def grad(self, q):
        return -(q - self.loc) / self.scale ** 2


class MVN:
    """correlated normal with a fixed generic covariance"""

    def __init__(self, d, salt=0):
        self.d = d
        self.loc = generic_vector(d, -0.4, 0.4, 4 + salt)
        self.cov = generic_spd(d, 0.5, 3.0, 5 + salt)
        self.prec = np.linalg.inv(self.cov)
        self.logdet = float(np.linalg.slogdet(self.cov)[1])

    def logp(self, q):
        r = q - self.loc
        return float(-0.5 * r @ self.prec @ r - 0.5 * self.logdet - 0.5 * self.d * LOG2PI)

    def grad(self, q):
        return -self.prec @ (q - self.loc)


class GammaExp:
    """x_i = exp(q_i) ~ Gamma(shape a_i, rate b_i); density of q (includes log|dx/dq| = q)"""

    def __init__(self, d, salt=0):
        self.d = d
        self.a = generic_vector(d, 2.0, 4.0, 6 + salt)
        self.b = generic_vector(d, 0.6, 1.5, 7 + salt)

    def logp(self, q):
        with np.errstate(all="ignore"):
            x = np.exp(q)
            lg = np.array([math.lgamma(a) for a in self.a])
            return float(np.sum(self.a * np.log(self.b) - lg + (self.a - 1.0) * q - self.b * x + q))

    def grad(self, q):
        with np.errstate(all="ignore"):
            return self.a - self.b * np.exp(q)


class JC69Star:
    """three sequences on the star tree (= the unrooted 3-taxon tree), JC69, branch lengths
    b_i = exp(q_i) with independent Exponential(rate) priors; density of q (with Jacobian).
    Likelihood by explicit summation over the state at the centre."""

    def __init__(self, seqs, rate):
        self.d = 3
        self.seqs = list(seqs)
        self.rate = float(rate)
        assert len(self.seqs) == 3 and len({len(s) for s in self.seqs}) == 1
        n = len(self.seqs[0])
        # mask[site, state, taxon] = observed state of the taxon equals the centre state
        self.mask = np.zeros((n, 4, 3), dtype=bool)
        for i, s in enumerate(self.seqs):
            for k, c in enumerate(s):
                self.mask[k, "ACGT".index(c), i] = True

    def _terms(self, q):
        b = np.exp(q)
        e = np.exp(-4.0 * b / 3.0)
        f = np.where(self.mask, 0.25 + 0.75 * e, 0.25 - 0.25 * e)   # [site, state, taxon]
        df = np.where(self.mask, -e, e / 3.0)                       # d f / d b
        return b, f, df

    def logp(self, q):
        with np.errstate(all="ignore"):
            b, f, _ = self._terms(q)
            site = 0.25 * np.sum(np.prod(f, axis=2), axis=1)
            return float(np.sum(np.log(site)) + np.sum(math.log(self.rate) - self.rate * b) + np.sum(q))

    def grad(self, q):
        with np.errstate(all="ignore"):
            b, f, df = self._terms(q)
            site = 0.25 * np.sum(np.prod(f, axis=2), axis=1)
            g = np.zeros(3)
            for i in range(3):
                others = [j for j in range(3) if j != i]
                dsite = 0.25 * np.sum(df[:, :, i] * f[:, :, others[0]] * f[:, :, others[1]], axis=1)
                g[i] = np.sum(dsite / site)
            return (g - self.rate) * b + 1.0


class Product:
    """independent product of targets over consecutive coordinate blocks"""

    def __init__(self, parts):
        self.parts = parts
        self.d = sum(p.d for p in parts)

    def _split(self, q):
        out = []
        s = 0
        for p in self.parts:
            out.append(q[s:s + p.d])
            s += p.d
        return out

    def logp(self, q):
        return float(sum(p.logp(x) for p, x in zip(self.parts, self._split(q))))

    def grad(self, q):
        return np.concatenate([p.grad(x) for p, x in zip(self.parts, self._split(q))])


# -- reference leapfrog (classification only) ----------------------------------------

def leapfrog(target, M, q, p, eps, L):
    """kick-drift-kick leapfrog on U = -logp.  Returns (q, p, biggest magnitude met);
    non-finite values propagate (no exception)."""
    q = np.array(q, dtype=float)
    p = np.array(p, dtype=float)
    big = 0.0
    with np.errstate(all="ignore"):
        g = -target.grad(q)
        p = p - 0.5 * eps * g
        for _ in range(L):
            q = q + eps * apply_inverse_mass(M, p)
            g = -target.grad(q)
            p = p - eps * g
            m = max(float(np.max(np.abs(q))), float(np.max(np.abs(p))))
            big = m if (m > big or not math.isfinite(m)) else big
            if not math.isfinite(m):
                return q, p, math.inf
        p = p + 0.5 * eps * g
    return q, p, big


def amplification(target, M, q, p, eps, L, h=1e-6):
    """largest entry (absolute value) of the Jacobian of the reference map, by central
    differences on the numpy reference; inf if anything is non-finite"""
    d = len(q)
    x0 = np.concatenate([q, p])
    worst = 0.0
    for i in range(2 * d):
        xp = x0.copy()
        xm = x0.copy()
        xp[i] += h
        xm[i] -= h
        a = leapfrog(target, M, xp[:d], xp[d:], eps, L)
        b = leapfrog(target, M, xm[:d], xm[d:], eps, L)
        col = (np.concatenate(a[:2]) - np.concatenate(b[:2])) / (2 * h)
        if not np.all(np.isfinite(col)):
            return math.inf
        worst = max(worst, float(np.max(np.abs(col))))
    return worst


def self_test():
    """gradients agree with central differences of the log densities (harness assertion)"""
    seqs = ["ACGTACGTAA", "ACGTACCTAG", "ATGTTCGTAC"]
    for t in (Normal(3), MVN(3), GammaExp(2), JC69Star(seqs, 10.0),
              Product([GammaExp(1), Normal(2, 1)])):
        q = generic_vector(t.d, -1.0, 1.0, 9)
        g = t.grad(q)
        for i in range(t.d):
            h = 1e-6
            a = q.copy()
            b = q.copy()
            a[i] += h
            b[i] -= h
            fd = (t.logp(a) - t.logp(b)) / (2 * h)
            if abs(fd - g[i]) > 1e-6 * (1 + abs(fd)):
                raise RuntimeError(f"oracle gradient self-test failed for {type(t).__name__}: {fd} vs {g[i]}")
    for d in (1, 2, 4, 8):
        for name, M in mass_menu(d).items():
            ev = np.linalg.eigvalsh(np.diag(M) if M.ndim == 1 else M)
            if ev.min() <= 0.4 or ev.max() >= 4.1:
                raise RuntimeError(f"mass matrix {name} d={d} outside the declared spectrum: {ev}")
