"""Engine A – generators of small discrete structures, each with a closed-form count."""
import itertools
import math


def double_factorial(k):
    return 1 if k <= 0 else k * double_factorial(k - 2)


def rooted_topologies(labels):
    """All labelled rooted binary topologies on `labels` as nested tuples (children in a
    canonical order).  Count: (2n-3)!!"""
    labels = list(labels)
    if len(labels) == 1:
        return [labels[0]]
    out = []
    trees = [labels[0]]
    # insert leaves one at a time on every edge (including above the root)
    for lab in labels[1:]:
        new = []
        for t in trees:
            new.extend(_insert_everywhere(t, lab))
        trees = new
    return trees


def _insert_everywhere(t, lab):
    res = [(t, lab)]  # above the root of this subtree
    if isinstance(t, tuple):
        a, b = t
        for a2 in _insert_everywhere(a, lab):
            res.append((a2, b))
        for b2 in _insert_everywhere(b, lab):
            res.append((a, b2))
    return res


def n_rooted(n):
    return double_factorial(2 * n - 3)


def leaves(t):
    if isinstance(t, tuple):
        return leaves(t[0]) + leaves(t[1])
    return [t]


def clades(t):
    """frozenset of leaf labels for every internal node, post-order"""
    out = []

    def rec(x):
        if not isinstance(x, tuple):
            return frozenset([x])
        s = rec(x[0]) | rec(x[1])
        out.append(s)
        return s

    rec(t)
    return out


def newick(t, blens=None, root=True):
    """blens: dict clade(frozenset)->length; leaves keyed by frozenset([label])"""
    def rec(x):
        if isinstance(x, tuple):
            s = "(" + rec(x[0])[0] + "," + rec(x[1])[0] + ")"
            c = frozenset(leaves(x))
        else:
            s = str(x)
            c = frozenset([x])
        if blens is not None and c in blens:
            s += ":" + repr(float(blens[c]))
        return s, c

    return rec(t)[0] + ";"


def orientations(t):
    """all 2^(n-1) ways of ordering the children of the internal nodes"""
    if not isinstance(t, tuple):
        return [t]
    out = []
    for a in orientations(t[0]):
        for b in orientations(t[1]):
            out.append((a, b))
            out.append((b, a))
    return out


def parent_map(t):
    """child clade -> parent clade, for every non-root node (leaves as singleton sets)"""
    pm = {}

    def rec(x):
        if not isinstance(x, tuple):
            return frozenset([x])
        a = rec(x[0])
        b = rec(x[1])
        s = a | b
        pm[a] = s
        pm[b] = s
        return s

    rec(t)
    return pm


def shapes(kind, n, labels=None):
    """named tree shapes for large n: caterpillar, balanced"""
    labels = labels or [f"t{i}" for i in range(n)]
    if kind == "caterpillar":
        t = labels[0]
        for lab in labels[1:]:
            t = (t, lab)
        return t
    if kind == "balanced":
        def rec(ls):
            if len(ls) == 1:
                return ls[0]
            m = len(ls) // 2
            return (rec(ls[:m]), rec(ls[m:]))
        return rec(labels)
    raise ValueError(kind)


def interleavings(n):
    """All event orders of a genealogy with n tips sampled serially: sequences over
    {'s','c'} (oldest last) with n samplings and n-1 coalescences such that the number of
    lineages never drops below 1 and a coalescence needs >= 2 lineages.  The first event is
    a sampling; the last is a coalescence."""
    out = []

    def rec(seq, s, c):
        k = s - c  # lineages
        if s == n and c == n - 1:
            out.append("".join(seq))
            return
        if s < n:
            rec(seq + ["s"], s + 1, c)
        if c < n - 1 and k >= 2:
            rec(seq + ["c"], s, c + 1)

    rec([], 0, 0)
    return out


def compositions(total, parts):
    if parts == 1:
        yield (total,)
        return
    for first in range(0, total + 1):
        for rest in compositions(total - first, parts - 1):
            yield (first,) + rest
