"""Generic introspection of a loaded torchtree object graph: the canonical state key used
by the explicit-state search (every scalar / flag / cached tensor of every reachable
torchtree object) and the list of observables compared with a fresh rebuild."""
import hashlib
import json
import os

GRAPH_DIR = os.path.join(os.path.dirname(os.path.dirname(os.path.abspath(__file__))), "builders", "graphs")
SKIP_ATTRS = {"listeners", "partials", "weights", "tree", "_taxa", "alignment", "site_pattern",
              "_postorder", "preorder", "indices_sorted", "data_type", "_id", "saved_tensors"}


def load_fixture(name):
    with open(os.path.join(GRAPH_DIR, name + ".json")) as fp:
        return json.load(fp)["spec"]


def fixtures():
    return sorted(f[:-5] for f in os.listdir(GRAPH_DIR) if f.endswith(".json"))


def tdigest(t):
    import torch

    if t.dtype in (torch.float64, torch.float32):
        b = t.detach().double().contiguous().numpy().tobytes()
    else:
        b = t.detach().contiguous().numpy().tobytes()
    return (tuple(t.shape), str(t.dtype), hashlib.sha1(b).hexdigest()[:16])


def state_key(dic):
    """tuple of (path, value) for every scalar, flag and tensor attribute of every torchtree
    object reachable from the registry"""
    import torch
    from torch.distributions import Transform

    from torchtree.core.abstractparameter import AbstractParameter
    from torchtree.core.parametric import Parametric

    try:
        from torchtree.inference.mcmc.operator import MCMCOperator
    except Exception:  # pragma: no cover
        MCMCOperator = ()
    seen = set()
    out = []

    def interesting(o):
        return isinstance(o, (AbstractParameter, Parametric, Transform)) or (
            MCMCOperator and isinstance(o, MCMCOperator))

    def visit(o, path, depth):
        if id(o) in seen or depth > 6:
            return
        seen.add(id(o))
        d = getattr(o, "__dict__", {})
        for k in sorted(d):
            if k in SKIP_ATTRS:
                continue
            v = d[k]
            p = path + "." + k
            if v is None or isinstance(v, (bool, int, float, str)):
                out.append((p, v))
            elif isinstance(v, torch.Tensor):
                out.append((p, tdigest(v) + (bool(v.requires_grad),)))
            elif interesting(v):
                visit(v, p, depth + 1)
            elif isinstance(v, dict):
                for kk in v:
                    vv = v[kk]
                    if isinstance(vv, torch.Tensor):
                        out.append((p + "[" + str(kk) + "]", tdigest(vv)))
                    elif interesting(vv):
                        visit(vv, p + "[" + str(kk) + "]", depth + 1)
                    elif vv is None or isinstance(vv, (bool, int, float, str)):
                        out.append((p + "[" + str(kk) + "]", vv))
            elif isinstance(v, (list, tuple)):
                for i, vv in enumerate(v):
                    if isinstance(vv, torch.Tensor):
                        out.append((p + "[%d]" % i, tdigest(vv)))
                    elif interesting(vv):
                        visit(vv, p + "[%d]" % i, depth + 1)
                    elif vv is None or isinstance(vv, (bool, int, float, str)):
                        out.append((p + "[%d]" % i, vv))
            elif hasattr(v, "__len__") and hasattr(v, "popleft"):  # deque
                out.append((p, tuple(v)))

    for name in sorted(dic, key=str):
        visit(dic[name], str(name), 0)
    return hashlib.sha1(repr(out).encode()).hexdigest()


def base_parameters(dic):
    from torchtree.core.parameter import Parameter

    return [k for k, v in dic.items() if type(v) is Parameter and v.tensor.is_floating_point()]


def base_values(dic):
    return {k: dic[k].tensor.detach().clone() for k in base_parameters(dic)}


def with_values(spec, values):
    """deep copy of the specification with the tensors of the named Parameters replaced"""
    import copy

    spec = copy.deepcopy(spec)

    def rec(o):
        if isinstance(o, dict):
            if o.get("type") in ("Parameter", "torchtree.Parameter", "torchtree.core.parameter.Parameter") \
                    and o.get("id") in values:
                for k in list(o):
                    if k not in ("id", "type", "dtype", "nn"):
                        del o[k]
                o["tensor"] = values[o["id"]].tolist()
            else:
                for v in o.values():
                    rec(v)
        elif isinstance(o, list):
            for v in o:
                rec(v)

    rec(spec)
    return spec


def observables(dic):
    """list of (name, thunk) for every quantity a user can read off the graph"""
    from torchtree.core.abstractparameter import AbstractParameter
    from torchtree.core.model import CallableModel
    from torchtree.core.parameter import Parameter, TransformedParameter

    obs = []
    for name in sorted(dic, key=str):
        o = dic[name]
        if isinstance(o, CallableModel) and not type(o).__module__.startswith("torchtree.variational"):
            obs.append((f"{name}()", o))
        if isinstance(o, TransformedParameter):
            obs.append((f"{name}()", o))
        if isinstance(o, AbstractParameter) and type(o) is not Parameter:
            obs.append((f"{name}.tensor", (lambda p: (lambda: p.tensor))(o)))
        cls = type(o).__name__
        if hasattr(o, "branch_lengths") and callable(getattr(o, "branch_lengths")):
            obs.append((f"{name}.branch_lengths()", o.branch_lengths))
        if cls in ("TimeTreeModel", "ReparameterizedTimeTreeModel"):
            obs.append((f"{name}.node_heights", (lambda p: (lambda: p.node_heights))(o)))
        if cls.endswith("SiteModel"):
            obs.append((f"{name}.rates()", o.rates))
            obs.append((f"{name}.probabilities()", o.probabilities))
        if cls.endswith("ClockModel"):
            obs.append((f"{name}.rates", (lambda p: (lambda: p.rates))(o)))
    return obs


def observe(dic, reverse=False):
    """evaluate every observable (in name order, or reversed); returns dict name -> tensor
    (detached clone) or ('raises', text)"""
    import torch

    out = {}
    obs = observables(dic)
    if reverse:
        obs = obs[::-1]
    for name, f in obs:
        try:
            v = f()
            if isinstance(v, (tuple, list)):
                v = torch.cat([x.reshape(-1) for x in v])
            out[name] = v.detach().clone()
        except Exception as e:
            out[name] = ("raises", f"{type(e).__name__}: {str(e)[:120]}")
    return out


def same(a, b, rtol=1e-10):
    import torch

    if isinstance(a, tuple) or isinstance(b, tuple):
        return isinstance(a, tuple) and isinstance(b, tuple)
    if a.shape != b.shape:
        return False
    if a.numel() == 0:
        return True
    if not a.is_floating_point():
        return bool(torch.equal(a, b))
    return bool(torch.allclose(a, b, rtol=rtol, atol=1e-12, equal_nan=True))
