"""Entry point: python -m mc.cli <ID> [--tier quick|thorough] [--replay FILE]

exit 0  property held on everything explored (KNOWN-FINDING lines allowed)
exit 1  VIOLATION line(s) printed
exit 2  the harness itself failed (never reported as a pass, never as a violation)
"""
import argparse
import importlib
import json
import os
import sys
import traceback


def main():
    ap = argparse.ArgumentParser()
    ap.add_argument("prop")
    ap.add_argument("--tier", default=os.environ.get("VERIF_TIER") or "quick",
                    choices=["quick", "thorough"])
    ap.add_argument("--replay", default=None)
    a = ap.parse_args()
    prop = a.prop.upper()
    try:
        from mc.env import tt

        tt.boot()
        mod = importlib.import_module("mc.props." + prop.lower())
        from mc.runner import Run

        if a.replay:
            with open(a.replay) as fp:
                body = json.load(fp)
            run = Run(prop, a.tier, mod.LEVEL, replaying=True)
            viols = mod.replay(body["case"])
            for v in viols:
                run.violation(v["case"], v["detail"], v.get("sig"))
            if not viols:
                print(f"[{prop}] replay: case passes on this tree")
            code = run.finish({})
        else:
            run = Run(prop, a.tier, mod.LEVEL)
            code = mod.run(run)
        sys.stdout.flush()
        sys.exit(code)
    except SystemExit:
        raise
    except BaseException:
        traceback.print_exc()
        print(f"HARNESS-ERROR property={prop} (no verdict)")
        sys.exit(2)


if __name__ == "__main__":
    main()
