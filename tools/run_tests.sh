#!/bin/bash
# usage: run_tests.sh [root]   – runs the repository's pinned suite in <root> (default /repo)
ROOT=${1:-/repo}
cd "$ROOT" && PYTHONDONTWRITEBYTECODE=1 /venv/bin/python -m pytest -q -p no:cacheprovider --timeout=900 --continue-on-collection-errors -W ignore 2>&1 | tail -${2:-1}
