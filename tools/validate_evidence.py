#!/usr/bin/env python3-vt
import json, sys, glob, jsonschema
schema = json.load(open('/root/.vp/EVIDENCE.schema.json'))
bad = 0
for f in sorted(sys.argv[1:] or glob.glob('/verif/evidence/*.json')):
    try:
        jsonschema.validate(json.load(open(f)), schema)
        print('ok ', f)
    except Exception as e:
        bad += 1
        print('BAD', f, str(e)[:300])
sys.exit(1 if bad else 0)
