#!/venv/bin/python
"""Regenerates /verif/MANIFEST.json from the table below (and validates it)."""
import json
import os
import subprocess
import sys

VERIF = os.path.dirname(os.path.dirname(os.path.abspath(__file__)))

# id -> (category, technique, level text, level note, design ref)
CHECKS = {
    "C18": (
        "model_checking",
        "explicit-state search over real checkpoint writes with exhaustive crash-point injection",
        "Every state of the checkpoint directory reachable by any number of consecutive "
        "completed or interrupted writes (crash before every file-system operation, with all / "
        "none / half of the unflushed bytes on disk, and inside every write chunk) is generated "
        "by running the real save paths (save_parameters, MCMC.save_full_state, "
        "Optimizer.save_full_state, the HMC call) on an in-memory file system, until no new "
        "state appears; the recoverability invariant is evaluated in every state.",
        "Process death with intact page cache; states merged on existence/completeness/version "
        "rank of each file (the writer never reads old contents).",
        "DESIGN.md §3 C18",
    ),
}

CHECKS["C04"] = (
    "exploration",
    "bounded-exhaustive enumeration of a (model x parameter x t) lattice against an independent expm reference",
    "Every point of a declared finite lattice (all substitution models; HKY 7 kappa x 87+16 frequency "
    "points incl. a magnitude sweep of the smallest frequency down to 1e-8; GTR {1e-4,1,1e4}^6 rates; "
    "every mapping of the general symmetric / non-symmetric models onto <=3 / <=2 rates; MG94 for all "
    "15 genetic codes) x 10 values of t x every arrangement of t as [branches, categories] x batched "
    "pairs is evaluated on the real models and compared with rate matrices rebuilt from the documented "
    "parameterisation and a Taylor scaling-and-squaring exponential (mpmath arbitrates borderline "
    "cases): generator properties, normalisation, P=exp(Qt) to 1e-9, row sums, P(0)=I, semigroup, "
    "stationarity and detailed balance.",
    "Finite lattice of continuous values; nothing is claimed between lattice points. numpy/mpmath are trusted.",
    "DESIGN.md §3 C04",
)
CHECKS["C05"] = (
    "exploration",
    "bounded-exhaustive enumeration of site-model parameter lattice plus all update histories of depth<=2",
    "Full lattice shape(13) x invariant proportion(6) x categories(1..16) x relative rate(3), every subset of "
    "parameters batched, both read orders (rates first / probabilities first) and every update history "
    "of depth <=2 on the same instance; each value compared with the documented median-quantile "
    "discretisation computed independently (numpy, cross-checked with mpmath).",
    "Finite lattice of continuous values.",
    "DESIGN.md §3 C05",
)

CHECKS["C06"] = (
    "exploration",
    "bounded-exhaustive enumeration of all labelled rooted topologies x sampling-date patterns x parameter lattice, plus all move/update histories of depth<=3",
    "Every labelled rooted binary topology on 3..5 (thorough: 6) taxa x every assignment of sampling ages "
    "{0,1.5} to the tips (as ages and as calendar dates) x both parameterisations x a parameter lattice, "
    "evaluated as one batch and as single points on the real ReparameterizedTimeTreeModel, compared with an "
    "independent recursive computation (tips at sampling times, parent>=child, branch length = parent-child "
    "indexed by child, inverse round trip single and batched); and every sequence of depth<=3 over "
    "{cpu(), to(float64), to('cpu'), set parameters, read} on every 4-taxon topology (parameterisation "
    "unchanged, heights still those of the current parameters).",
    "Topologies above 6 taxa and CUDA moves are not explored; continuous values on a lattice.",
    "DESIGN.md §3 C06",
)

CHECKS["C07"] = (
    "exploration",
    "bounded-exhaustive enumeration of transform x lattice point (and topology x date pattern) against autograd Jacobians",
    "For every shipped bijective transform and the torch transforms the CLI generates: the full lattice "
    "{5 values}^d, d=1..5; for the ratio / increment node-height transforms every labelled rooted topology "
    "(n<=5, thorough 6) x every sampling-date pattern, and the log-rate-difference transform on every "
    "topology: reported log|det J| vs slogdet of the autograd Jacobian (1e-9), inverse round trip (1e-10), "
    "and the value returned by calling the TransformedParameter / ReparameterizedTimeTreeModel after each "
    "of a sequence of parameter updates. The run fails if a shipped Transform class is neither checked nor "
    "listed as not invertible.",
    "torch.autograd.functional.jacobian + slogdet is the trusted reference; lattice of points only.",
    "DESIGN.md §3 C07",
)

CHECKS["C01"] = (
    "exploration",
    "bounded-exhaustive enumeration (all topologies x configurations x all alignment columns) against a brute-force marginalisation oracle",
    "Every labelled rooted binary topology on 3 and 4 taxa (thorough: 5 and 6) x every configuration "
    "{JC69, HKY, GTR, GeneralJC69, general symmetric (2 mappings), general non-symmetric, LG, WAG, MG94} x "
    "{constant, constant+mu, invariant, Weibull K=2/4, Weibull+invariant, Weibull+invariant+mu} x "
    "{unrooted, ratio time tree + strict clock, increment time tree + per-branch clock, plain time tree + "
    "per-branch clock} x {partials with ambiguities, partials without, tip states} x EVERY alignment column "
    "over the alphabet (all 18^3 / 18^4 nucleotide columns incl. lower case; reduced alphabets for the "
    "cross product) is loaded from JSON and evaluated: block totals with repeated non-adjacent columns and "
    "every per-pattern value are compared (1e-9) with a literal sum over all internal-state assignments and "
    "rate categories built from independently constructed rate matrices / expm / site-model rates; the same "
    "model is then given a second parameter point through the public interface and compared again.",
    "Trees above 6 taxa not enumerated; 1-3 generic parameter points per model; numpy trusted.",
    "DESIGN.md §3 C01",
)
CHECKS["C02"] = (
    "exploration",
    "bounded-exhaustive enumeration of equivalent specifications (permutations, orientations, root placements) with a differential oracle",
    "For every labelled rooted topology (3..5 taxa, thorough 6): all n! x n! taxa-list / sequence-list orders "
    "(n<=4; 2 n! for larger n), all 2^(n-1) child orientations, all 120 column orders and all 243 "
    "multiplicity patterns of a 5-column alignment, tip states vs tip partials, and all 2n-3 root placements "
    "(both child orders) for the reversible models, each loaded from JSON and compared (1e-10) with the "
    "canonical specification of the same tree, for JC69 / HKY+I / GTR+W4 on unrooted and dated trees.",
    "Differential oracle: the canonical value is tied to the independent oracle by C01.",
    "DESIGN.md §3 C02",
)
CHECKS["C03"] = (
    "model_checking",
    "explicit-state search over evaluation histories of the sticky rescale flag + exhaustive tree-size sweep through the subnormal band",
    "Every tree size 500..560 (quick: every second) x shape x model x tip representation is evaluated fresh with "
    "saturated branches (site likelihoods sweep through the whole subnormal band and beyond) against an "
    "extended-range log-domain reference (itself checked against mpmath at 60 digits each run); and for each "
    "of a set of model instances (520..800 taxa) the state graph over (rescale flag, previous operation) is "
    "explored to closure with the operations {large, band (site likelihood ~1e-320, located by bisection on "
    "the reference), underflowing, batched [large, under], batched [band, large]} applied through the public "
    "parameter interface, every returned value compared to 1e-8; a model forced to rescale from the start "
    "must agree too.",
    "Three shape families with uniform branch lengths; states merged on (flag, previous op).",
    "DESIGN.md §3 C03",
)

CHECKS["C08"] = (
    "exploration",
    "bounded-exhaustive enumeration of genealogy event interleavings x tie patterns x grid placements x height-vector permutations against closed-form Kingman densities",
    "Every valid interleaving of sampling and coalescent events for n=2..5 tips (thorough ..7) x every tie "
    "pattern between consecutive sampling events x every placement of 1..3 grid points in the gaps between "
    "events and beyond the root x every permutation of the sampling block and of the internal block of the "
    "height vector (all for n<=4) x {constant, exponential with growth +-0.3, skyride, skygrid, "
    "piecewise-linear} x {distinct, equal} population sizes: log_prob and the JSON-built model call are "
    "compared (1e-10) with -sum C(k,2) int 1/N - sum log N(t_coal) computed from the documented N(t) with "
    "closed-form integrals (cross-checked against mpmath quadrature each run); plus the two laws (equal "
    "pieces = constant model, scaling by c shifts by -(n-1) log c).",
    "Generic event times (no coalescent event on a grid point or sampling time); piecewise-exponential only 'evaluates' (N(t) undocumented; open finding).",
    "DESIGN.md §3 C08",
)

CHECKS["C11"] = (
    "model_checking",
    "explicit-state search over update/evaluate histories on real model graphs with state hashing, differential oracle against a fresh rebuild",
    "On 33 model graphs (11 generated by torchtree-cli and committed as JSON fixtures: unrooted GTR+W4+I with "
    "gamma-Dirichlet prior, strict/ucln/horseshoe clocks, skygrid+GMRF, skyride, skyglide, exponential, BDSK, "
    "SRD06 with views, MG94, HMC and ADVI set-ups; 5 hand-written ones with views, concatenations, "
    "transforms that hold parameters, a plain time tree and the constant birth-death prior; 17 from the families "
    "of the gradient check: all tree priors incl. the integrated ones, GMRF variants, scale mixture, Bayesian "
    "bridge, multivariate normal, general substitution models, unrooted) every history over the alphabet {assign each base parameter (2 values), "
    "assign through every invertible derived parameter, in-place change + notification, operator "
    "step+accept / step+reject, draws by distributions, objective evaluation, evaluate one model, evaluate "
    "all} is executed on a freshly built graph up to depth 2 (full alphabet; thorough 3) and depth 3 (reduced "
    "alphabet; thorough 4); after each history every observable (all callable models, derived parameters, "
    "node heights, branch lengths, site/clock rates) is compared with a graph rebuilt from the current base "
    "values; states are merged on a key of every flag, scalar and cached tensor reachable from the registry. "
    "A run fails if a registered model/parameter class is neither in a graph nor in the stated exclusion list.",
    "4-taxon graphs; histories that leave the parameter domain or change a parameter's shape are not judged.",
    "DESIGN.md §3 C11",
)

CHECKS["C13"] = (
    "exploration",
    "bounded-exhaustive enumeration of a language of JSON specifications against a reference interpreter of the id semantics",
    "All JSON specifications derivable from a grammar over 8 registered classes with <=4 objects, <=2 top-level "
    "elements, every slot inline or by reference and every id assignment up to renaming (1.1 M documents quick, "
    "39.6 M thorough; the count is asserted against the closed form) are loaded exactly as torchtree.main loads "
    "them and compared with an independent reference interpreter: ill-formed (duplicate id at any depth, "
    "forward / dangling / cyclic reference) => JSONParseError; well-formed => alias relation by object identity, "
    "registry contents, numpy values, and updates through every holder observed by every other. Every "
    "well-formed document is also checked under every single decoration (comment keys, ignored objects, type "
    "aliases), every pair of list-level decorations and one plate wrapping; all json_factory helpers x ~410 "
    "argument forms are compared with directly constructed twins.",
    "Multi-plate documents, range references and classes outside the grammar are not covered; three from_json argument forms that never load (full=<int>, eye=<list>, view indices=<list>) are left out of the factory menu as outside the property.",
    "DESIGN.md §3 C13",
)
CHECKS["C19"] = (
    "exploration",
    "bounded-exhaustive enumeration of the CLI option space (full core product + complete pairwise covering of the remaining switches), each emitted JSON loaded and judged",
    "Every torchtree-cli command line of the full model-defining core (4 sub-commands x 9 models x categories x "
    "invariant x clock x heights x 11 tree priors = 9648; thorough x2 datings) is run in-process, its JSON loaded "
    "as `torchtree --dry` does and judged; every tree/clock core is additionally crossed with every "
    "model/initialisation switch, and 59 switches are covered pairwise (complete, measured) on representative "
    "cores. Per emitted configuration: it loads; the target and its gradient are finite; requested initial "
    "values are honoured; and, per block of moved leaves with a complete prior, the listed Jacobian entries "
    "equal log|det| of the autograd Jacobian of the forward map from the unconstrained leaves to the prior "
    "variables, evaluated on a fresh load at a generic displaced point.",
    "Forward maps of transforms trusted (C06/C07); command lines the CLI rejects or dies on are counted, not judged; algorithms are constructed, not run. 16 open findings listed in known_findings.json.",
    "DESIGN.md §3 C19",
)

CHECKS["C15"] = (
    "model_checking",
    "deviation-bounded exhaustive exploration of the random environment of the real MCMC.run (stateless, replay-based), with per-transition MH oracle",
    "Every random draw of the real MCMC.run (operator pick, proposal uniforms / indices / normals / Dirichlet "
    "draws, momentum, acceptance uniform) is replaced by a choice point with a small ordered menu; all "
    "executions with at most d non-default answers over T iterations (operator picks free; (d,T)=(2,3) on the "
    "toy and HKY targets, (1,7) on HMC with mass-matrix and step-size adaptors, (1,2..3) on the CLI-generated "
    "skygrid/GMRF block-update and phylogenetic HMC set-ups; thorough one level deeper) are run with "
    "adaptation on and off. On every transition the record reconstructed from outside (wrapped operators, "
    "joint proxy, integrator proxy, scripted draws, captured logger rows) is checked: density used for the "
    "proposal = target of a freshly built graph; accept iff u < min(1, exp(delta + H)) with from-scratch "
    "densities; H = independent log proposal ratio (scaler, window, Dirichlet, HMC kinetic energies under the "
    "current mass matrix); rejection restores bit-identical values; logged rows are self-consistent; tuning "
    "moves in the right direction. Each recorded schedule is replayed twice (determinism) and the global torch "
    "generator must stay untouched.",
    "Menus of 3-5 values per draw; GMRF block-update Hastings ratio taken as returned; end-of-run summary division by zero for never-picked operators is outside the property.",
    "DESIGN.md §3 C15",
)

CHECKS["C20"] = (
    "exploration",
    "bounded-exhaustive enumeration of field lattices x variants x genealogy interleavings x grid placements against exact quadratic forms and self-validating quadrature",
    "Every field on the lattice {-1,0.5,2}^N (N<=5 quick, <=7 thorough; generic fields up to N=50) x precisions x "
    "plain / weighted / time-aware variants (all interleavings <=5-6 tips x 2 tree shapes x ties x rescale) x "
    "single/batched shapes: GMRF() against the quadratic form of its own published precision matrix; "
    "GMRFGammaIntegrated / ConstantCoalescentIntegrated against a log-domain quadrature of the product of the "
    "shipped densities (cross-checked with mpmath each run, 1e-8); skyride and skygrid sufficient statistics "
    "and coalescent counts must reproduce log_prob to 1e-12 on every interleaving (<=5 tips quick, <=7 "
    "thorough) x every multiset placement of up to 3 grid points x batched/unbatched routes, including batch "
    "rows whose event orders differ. ~0.43 M evaluations quick, 3.9 M thorough.",
    "Agreement claimed at the enumerated points only; GMRFCovariate and float32 not covered.",
    "DESIGN.md §3 C20",
)

CHECKS["C16"] = (
    "exploration",
    "bounded-exhaustive enumeration of (target x mass matrix x step size x steps x corner point x how the step size arrives) on the real integrator/operator, against numpy reference energies",
    "The real LeapfrogIntegrator and HMCOperator (built from JSON as the CLI emits them) are run on every "
    "element of a finite grid: targets (Gaussian, correlated Gaussian, gamma via exp-transform + Jacobian, "
    "3-taxon JC69 posterior; 1-8 dimensions; 1-3 parameters per operator) x 6-8 diagonal/dense mass matrices "
    "x 5 step sizes x 6 step counts x corner points of {+-0.5,+-1.5}^2d x four ways the step size reaches "
    "the integrator (constructed, assigned, state_dict round trip, tuned). Every element is checked for time "
    "reversal, unit Jacobian determinant (finite differences whose own error is measured on an exactly "
    "symplectic numpy reference) and second-order energy error against closed-form densities; the operator "
    "is stepped under a scripted environment covering every momentum answer, every position of a NaN answer "
    "of the target over 1/2/10 failing trials, a replaced mass matrix, a tuned step size and a second step "
    "after accept or reject: Hastings term = K(p0)-K(p1), trajectory starts from the current state, MCMC "
    "accept/reject flips exactly at exp(min(0,H0-H1)). Case counts asserted against closed forms.",
    "Unstable trajectories (eps=0.5, L=30 on stiff targets) and determinant cases the finite differences cannot resolve are counted, not judged; float32/CUDA not run.",
    "DESIGN.md §3 C16",
)
CHECKS["C17"] = (
    "model_checking",
    "exhaustive enumeration of restart histories (every interruption point, every pair, selected triples) per run configuration through torchtree.main on an in-memory file system, differential against the uninterrupted run",
    "For 580 (thorough 870+) run configurations - Optimizer x 18 torch optimiser settings x 13 schedulers x "
    "{float64, float32 by spec / --dtype / inherited} x {tensor, nn.Parameter} x shapes, parameter groups, "
    "checkpoint_all, frequency; MCMC x every operator type alone and in mixtures x 15 HMC adaptor/option "
    "combinations x dtypes; four torchtree-cli programs - an uninterrupted N-iteration run with a checkpoint "
    "after every iteration is recorded (file, state_dict, parameters with dtype/nn-ness, generator state); "
    "then every interruption point k=1..N, every pair and selected triples of successive interruptions is "
    "restarted through the real entry point with -c, the generator put back, and compared bit-exactly: "
    "restarting must not raise, parameters and state_dict right after loading are identical (key types, "
    "tensor dtypes), the resumed run executes exactly the remaining iterations and visits the same parameter "
    "and run states (which exposes state that state_dict never contained). 11.6k restart histories quick, "
    "29.8k thorough; history counts asserted against closed forms.",
    "Differential oracle (the uninterrupted run); the HMC runnable (no load_state_dict), convergence monitors and loggers are not covered.",
    "DESIGN.md §3 C17",
)

CHECKS["C12"] = (
    "exploration",
    "bounded-exhaustive enumeration of (model graph x point x rescale flag x density x parameter element), autograd vs Richardson finite differences on freshly built graphs",
    "For every (callable density, base parameter element) pair of every model graph of a declared finite family - "
    "the CLI-generated graphs, every rooted topology on 3-4 (thorough 5) heterochronous tips x {ratio, shift} "
    "carrying all tree priors and likelihoods, every unrooted 4-5-taxon topology, all substitution x site models "
    "including the symmetric interior points, an underflowing 540-taxon likelihood, every shipped transform, "
    "GMRF / scale-mixture / bridge / MVN densities and joints - at three generic interior points plus "
    "one-parameter-at-a-time neutral points, with and without forced rescaling, the autograd gradient read "
    "from parameter.grad is compared with a Richardson central finite difference whose every function value "
    "comes from a graph freshly built from JSON (1e-5*max(1,|g|), ~100x measured head-room); a gradient that "
    "is missing, zero, non-finite or whose backward raises is reported wherever the numerical derivative "
    "exceeds 1e-6. Pairs are judged only where the value function is smooth (two-step and one-sided "
    "consistency tests; event times at least 0.05 apart). 181k evaluations quick, 399k thorough.",
    "Densities that do not evaluate at all (C08/C09 findings), batched sample dimensions, float32/CUDA and stochastic objectives are not covered; one open finding (eigh backward at repeated eigenvalues).",
    "DESIGN.md §3 C12",
)
CHECKS["C14"] = (
    "exploration",
    "bounded-exhaustive enumeration of conjugate configurations x objectives x sample shapes x every assignment of scripted draws, against closed-form log marginal likelihoods",
    "25 conjugate model / variational-form configurations built from the shipped distribution wrappers "
    "(untransformed, behind Exp/Sigmoid/Affine transforms with their Jacobian terms in the CLI's nested joint "
    "shape, multivariate normal in three parameterisations, mean-field products) on a hyper-parameter x data "
    "lattice, through both the JSON loader and anonymous Python construction, x {ELBO, analytic-entropy ELBO, "
    "multi-sample ELBO, VR alpha in {0,.5,2}, CUBO n in {1,2}, KLpq} x sample shapes [S] and [S,K] x EVERY "
    "assignment of scripted menu values to the S*K*dim base draws (154k assignments quick, 533k thorough, "
    "counts asserted against menu^slots). With q set to the exact posterior each objective, invoked twice the "
    "way Optimizer._run does, must equal the closed-form log marginal likelihood to 1e-9 for every draw "
    "(observed deviation <= 7e-15); each request must redraw with the requested shape, write the draws into "
    "the shared parameters and evaluate p and q at those values.",
    "Nothing is claimed between lattice points, for larger sample shapes, or for surrogate objectives (score ELBO, KLpqImportance, SELBO); one open finding (bare Distribution as q).",
    "DESIGN.md §3 C14",
)

CHECKS["C09"] = (
    "exploration",
    "bounded-exhaustive enumeration of tree event interleavings x epoch-boundary placements (incl. exactly on events) x option combinations against integrated master equations and Stadler's closed form",
    "Every sampling/branching interleaving and tie pattern of trees with <=4 tips is crossed with every "
    "placement of up to 2 (quick) / 7 (thorough) epoch boundaries in the gaps between events and exactly on "
    "each sampling and branching time, with rate/rho patterns including every merge of adjacent epochs, and "
    "with all combinations of survival, removal probability, absolute/relative times and origin/root-edge. "
    "Each of the 0.46 M (3.8 M) cases is compared (1e-9) with an independent Taylor-series integration of the "
    "birth-death master equations (cross-checked against RK4 and mpmath on every run), with Stadler's closed "
    "form for one epoch, and with the implementation on the merged model for refinement invariance; the full "
    "cross product of the optional BDSKModel JSON keys (648 combinations) is compared with direct "
    "construction, and BirthDeathModel with the closed form.",
    "Continuous parameters on finite lattices; an additive constant depending only on (n, removal given) is allowed; trees above 4 tips and batched inputs are not explored.",
    "DESIGN.md §3 C09",
)
CHECKS["C10"] = (
    "exploration",
    "bounded-exhaustive enumeration of (model graph x batched parameter subset x sample shape x entry mode) with a per-slice differential oracle",
    "For 94 model graphs (11 torchtree-cli fixtures plus 83 hand-written specifications that together contain "
    "every registered callable model, every substitution/site/clock/tree model and every shipped transform; "
    "completeness asserted against the class registry) every subset of the named parameters (all 2^p-1 for "
    "p<=6, thorough p<=8; otherwise singletons, pairs, thorough triples, complements and the full set) x "
    "sample shapes [S] (S<=4/5 and every other dimension present) and [S,K] (<=2/3) x two or three ways the "
    "batch enters the graph (in the JSON, or assigned after or without a first evaluation) is built on the "
    "real objects; every density, transform and joint value is compared slice by slice (1e-10, >1000x above "
    "the measured noise) with graphs built fresh from the individual slices, and every joint with the sum of "
    "its components' per-slice values; raising is accepted, a wrong or mis-shaped tensor is a violation. "
    "24.7k batched graphs quick, 69k thorough.",
    "Differential oracle (torchtree on unbatched input); absolute correctness of unbatched values is left to C01/C04-C09; two open findings (gamma-Dirichlet prior and GMRFCovariate shapes).",
    "DESIGN.md §3 C10",
)

NOT_APPLICABLE = {}

PENDING_REASON = ("check not built yet in this revision (planned in DESIGN.md §3); "
                  "nothing is claimed for it")



# sentences added with the round-3 strengthening of the checks (DESIGN.md 9.2 / 9.6)
_ADDED = {
 "C01": " The second parameter point is evaluated once more with the public rescale flag switched on (the rescaled kernel).",
 "C02": " Also: alignments with 'twin' columns that differ only in an ambiguity code, and trees with a multifurcating internal node (every order of its children, every resolution into zero-length branches). Taxa named 1..n (names that look like list positions) are included.",
 "C03": " The same search is run on balanced trees of 4096-8192 tips, where the switch happens under mild underflow and later evaluations are an order of magnitude deeper. Every sweep size is also evaluated (fresh model) at branch lengths that put the smallest site likelihood just above / around / just below the smallest normal double.",
 "C04": " Consecutive lattice points are also visited on ONE model object (evaluate, move every parameter through the parameter interface - new tensor or in-place edit + notification -, evaluate).",
 "C05": " Update histories use both a new tensor and an in-place edit followed by the change notification. The lattice includes an invariant proportion of exactly 0.",
 "C06": " Histories include in-place edits followed by the change notification, and the transforms are called again on the same tensor object after an in-place edit.",
 "C07": " Plus six trees of 200-256 tips with heights far from 1 (the determinant leaves the floating-point range, its logarithm does not). One-dimensional transforms are also evaluated far from the origin (tolerance derived from the conditioning), and the smooth-maximum variant (k > 0) of the increment transform on every shift tree.",
 "C08": " Also every genealogy with all times shifted (youngest sample not at 0) and, on the JSON-built models, histories that replace growth / grid / theta in turn on one model object. Models built from times / events are evaluated, and a batch of two genealogies with different sampling times goes through the distribution the model hands out.",
 "C10": " Every density is additionally evaluated as the only component of a JointDistributionModel built at evaluation time. The slices of a batched tree interleave sampling and coalescent events differently.",
 "C12": " Every gradient is read again after the histories the optimisation loop produces (no_grad evaluation, notification, backward; notification and backward again at the same values).",
 "C13": " Well-formed documents are loaded through the real torchtree.torchtree.main() (--dry, document on stdin). Decorations include one parameter in single precision (a document that mixes floating dtypes). Plate variants write references as ranges with missing members and as empty ranges (ill-formed).",
 "C15": " The acceptance probability handed to the tuner is compared with the one computed from the from-scratch densities; targets include a window that leaves the support and a block-HMC target with an independent reversal test. A target with HMC on a positive parameter without a transform exercises the retry path of the operator.",
 "C16": " Block histories: one integrator and one joint, a block integrated twice with the other blocks moved in between, compared with a freshly built integrator. Operator scenarios include a state loaded from the checkpoint of an operator with another mass matrix.",
 "C18": " Drivers include the real Optimizer.run / MCMC.run loops (one iteration that leaves the parameters in place) and checkpoint_all starting from an existing plain checkpoint. Crash modes include death by KeyboardInterrupt (the writer's clean-up code still runs); versions alternate in length.",
 "C19": " What the requested model fixes (equal frequencies of K80/SYM, --rate) must not move when the sampled leaves are displaced. SRD06 is crossed with the switches that set initial values; results of the root-to-tip regression must not depend on the substitution model.",
 "C09": " On the JSON-built BDSKModel every named parameter is replaced in turn on one model object and compared with a freshly built model.",
 "C17": " Includes every form the specification language has of giving a checkpointed parameter its initial value, and adaptors whose window closes before the last checkpoints.",
 "C20": " Sufficient statistics are also checked with grid points exactly on event times (incl. cut-off = root height)."
}
for _k, _t in _ADDED.items():
    _c = list(CHECKS[_k])
    _c[2] = _c[2] + _t
    CHECKS[_k] = tuple(_c)


def main():
    props = [json.loads(line) for line in open(os.path.join(VERIF, "properties.jsonl"))]
    checks = []
    na = []
    for p in props:
        pid = p["id"]
        if pid in CHECKS:
            cat, tech, text, note, ref = CHECKS[pid]
            checks.append({
                "property_id": pid,
                "quick_cmd": f"./check {pid} --tier quick",
                "thorough_cmd": f"./check {pid} --tier thorough",
                "evidence_file": f"/verif/evidence/{pid}.json",
                "replay_cmd_template": f"./check {pid} --replay {{path}}",
                "engine": "mc",
                "level_claimed": {"category": cat, "text": text, "design_ref": ref},
                "level_note": note,
                "technique": tech,
            })
        else:
            na.append({"property_id": pid, "reason": NOT_APPLICABLE.get(pid, PENDING_REASON)})
    manifest = {
        "version": 1,
        "setup_cmd": "/venv/bin/python -c \"import torch, numpy, mpmath, dendropy\" && "
                     "mkdir -p /verif/evidence /verif/replays && chmod +x /verif/check",
        "hooks": {
            "guard": "TORCHTREE_VERIF",
            "enable": "no source hooks: the harness wraps objects and module globals from "
                      "outside; ./check exports TORCHTREE_VERIF=1 for uniformity",
            "baseline_off_cmd": "cd /repo && /venv/bin/python -m pytest -ra -q -p no:cacheprovider "
                                "--timeout=900 --continue-on-collection-errors",
            "source_commits": [],
            "add_only": True,
        },
        "engines": [{
            "name": "mc",
            "path": "/verif/mc",
            "serves_properties": sorted(CHECKS),
            "kind_free_text": "hand-written bounded-exhaustive explorers driving the real "
                              "torchtree objects (explicit-state search over operation "
                              "histories, deviation-bounded exploration of scripted random "
                              "draws, crash-point enumeration on an in-memory file system, "
                              "exhaustive enumeration of small discrete structures against "
                              "independent numpy/mpmath reference models)",
        }],
        "checks": checks,
        "not_applicable": na,
        "notes": "All checks run with /venv/bin/python in a fresh process, importing torchtree "
                 "from /repo's working tree. Fixed defects and open findings: "
                 "/verif/known_findings.json.",
    }
    path = os.path.join(VERIF, "MANIFEST.json")
    with open(path, "w") as fp:
        json.dump(manifest, fp, indent=1)
    code = ("import json,jsonschema;"
            "jsonschema.validate(json.load(open('%s')),json.load(open('/root/.vp/MANIFEST.schema.json')));"
            "print('MANIFEST valid')" % path)
    subprocess.run(["python3-vt", "-c", code], check=True)


if __name__ == "__main__":
    main()
