#!/venv/bin/python
"""Regenerates /verif/MANIFEST.json from the table below (and validates it)."""
import json
import os
import subprocess
import sys

VERIF = os.path.dirname(os.path.dirname(os.path.abspath(__file__)))

# id -> (category, technique, level text, level note, design ref)
CHECKS = {
    "C18": (
        "model_checking",
        "explicit-state search over real checkpoint writes with exhaustive crash-point injection",
        "Every state of the checkpoint directory reachable by any number of consecutive "
        "completed or interrupted writes (crash before every file-system operation, with all / "
        "none / half of the unflushed bytes on disk, and inside every write chunk) is generated "
        "by running the real save paths (save_parameters, MCMC.save_full_state, "
        "Optimizer.save_full_state, the HMC call) on an in-memory file system, until no new "
        "state appears; the recoverability invariant is evaluated in every state.",
        "Process death with intact page cache; states merged on existence/completeness/version "
        "rank of each file (the writer never reads old contents).",
        "DESIGN.md §3 C18",
    ),
}

CHECKS["C04"] = (
    "exploration",
    "bounded-exhaustive enumeration of a (model x parameter x t) lattice against an independent expm reference",
    "Every point of a declared finite lattice (all substitution models; HKY 7 kappa x 87+16 frequency "
    "points incl. a magnitude sweep of the smallest frequency down to 1e-8; GTR {1e-4,1,1e4}^6 rates; "
    "every mapping of the general symmetric / non-symmetric models onto <=3 / <=2 rates; MG94 for all "
    "15 genetic codes) x 10 values of t x every arrangement of t as [branches, categories] x batched "
    "pairs is evaluated on the real models and compared with rate matrices rebuilt from the documented "
    "parameterisation and a Taylor scaling-and-squaring exponential (mpmath arbitrates borderline "
    "cases): generator properties, normalisation, P=exp(Qt) to 1e-9, row sums, P(0)=I, semigroup, "
    "stationarity and detailed balance.",
    "Finite lattice of continuous values; nothing is claimed between lattice points. numpy/mpmath are trusted.",
    "DESIGN.md §3 C04",
)
CHECKS["C05"] = (
    "exploration",
    "bounded-exhaustive enumeration of site-model parameter lattice plus all update histories of depth<=2",
    "Full lattice shape(13) x invariant proportion(6) x categories(1..16) x relative rate(3), every subset of "
    "parameters batched, both read orders (rates first / probabilities first) and every update history "
    "of depth <=2 on the same instance; each value compared with the documented median-quantile "
    "discretisation computed independently (numpy, cross-checked with mpmath).",
    "Finite lattice of continuous values.",
    "DESIGN.md §3 C05",
)

CHECKS["C06"] = (
    "exploration",
    "bounded-exhaustive enumeration of all labelled rooted topologies x sampling-date patterns x parameter lattice, plus all move/update histories of depth<=3",
    "Every labelled rooted binary topology on 3..5 (thorough: 6) taxa x every assignment of sampling ages "
    "{0,1.5} to the tips (as ages and as calendar dates) x both parameterisations x a parameter lattice, "
    "evaluated as one batch and as single points on the real ReparameterizedTimeTreeModel, compared with an "
    "independent recursive computation (tips at sampling times, parent>=child, branch length = parent-child "
    "indexed by child, inverse round trip single and batched); and every sequence of depth<=3 over "
    "{cpu(), to(float64), to('cpu'), set parameters, read} on every 4-taxon topology (parameterisation "
    "unchanged, heights still those of the current parameters).",
    "Topologies above 6 taxa and CUDA moves are not explored; continuous values on a lattice.",
    "DESIGN.md §3 C06",
)

CHECKS["C07"] = (
    "exploration",
    "bounded-exhaustive enumeration of transform x lattice point (and topology x date pattern) against autograd Jacobians",
    "For every shipped bijective transform and the torch transforms the CLI generates: the full lattice "
    "{5 values}^d, d=1..5; for the ratio / increment node-height transforms every labelled rooted topology "
    "(n<=5, thorough 6) x every sampling-date pattern, and the log-rate-difference transform on every "
    "topology: reported log|det J| vs slogdet of the autograd Jacobian (1e-9), inverse round trip (1e-10), "
    "and the value returned by calling the TransformedParameter / ReparameterizedTimeTreeModel after each "
    "of a sequence of parameter updates. The run fails if a shipped Transform class is neither checked nor "
    "listed as not invertible.",
    "torch.autograd.functional.jacobian + slogdet is the trusted reference; lattice of points only.",
    "DESIGN.md §3 C07",
)

NOT_APPLICABLE = {}

PENDING_REASON = ("check not built yet in this revision (planned in DESIGN.md §3); "
                  "nothing is claimed for it")


def main():
    props = [json.loads(line) for line in open(os.path.join(VERIF, "properties.jsonl"))]
    checks = []
    na = []
    for p in props:
        pid = p["id"]
        if pid in CHECKS:
            cat, tech, text, note, ref = CHECKS[pid]
            checks.append({
                "property_id": pid,
                "quick_cmd": f"./check {pid} --tier quick",
                "thorough_cmd": f"./check {pid} --tier thorough",
                "evidence_file": f"/verif/evidence/{pid}.json",
                "replay_cmd_template": f"./check {pid} --replay {{path}}",
                "engine": "mc",
                "level_claimed": {"category": cat, "text": text, "design_ref": ref},
                "level_note": note,
                "technique": tech,
            })
        else:
            na.append({"property_id": pid, "reason": NOT_APPLICABLE.get(pid, PENDING_REASON)})
    manifest = {
        "version": 1,
        "setup_cmd": "/venv/bin/python -c \"import torch, numpy, mpmath, dendropy\" && "
                     "mkdir -p /verif/evidence /verif/replays && chmod +x /verif/check",
        "hooks": {
            "guard": "TORCHTREE_VERIF",
            "enable": "no source hooks: the harness wraps objects and module globals from "
                      "outside; ./check exports TORCHTREE_VERIF=1 for uniformity",
            "baseline_off_cmd": "cd /repo && /venv/bin/python -m pytest -ra -q -p no:cacheprovider "
                                "--timeout=900 --continue-on-collection-errors",
            "source_commits": [],
            "add_only": True,
        },
        "engines": [{
            "name": "mc",
            "path": "/verif/mc",
            "serves_properties": sorted(CHECKS),
            "kind_free_text": "hand-written bounded-exhaustive explorers driving the real "
                              "torchtree objects (explicit-state search over operation "
                              "histories, deviation-bounded exploration of scripted random "
                              "draws, crash-point enumeration on an in-memory file system, "
                              "exhaustive enumeration of small discrete structures against "
                              "independent numpy/mpmath reference models)",
        }],
        "checks": checks,
        "not_applicable": na,
        "notes": "All checks run with /venv/bin/python in a fresh process, importing torchtree "
                 "from /repo's working tree. Fixed defects and open findings: "
                 "/verif/known_findings.json.",
    }
    path = os.path.join(VERIF, "MANIFEST.json")
    with open(path, "w") as fp:
        json.dump(manifest, fp, indent=1)
    code = ("import json,jsonschema;"
            "jsonschema.validate(json.load(open('%s')),json.load(open('/root/.vp/MANIFEST.schema.json')));"
            "print('MANIFEST valid')" % path)
    subprocess.run(["python3-vt", "-c", code], check=True)


if __name__ == "__main__":
    main()
