#!/venv/bin/python
"""Regenerates the static model-graph fixtures used by C11/C10/C12 from torchtree-cli
(run once at build time; the checks only read the JSON files)."""
import contextlib
import io
import json
import os
import sys

sys.path.insert(0, os.path.dirname(os.path.dirname(os.path.abspath(__file__))))
from mc.env import tt  # noqa: E402

tt.boot()
from torchtree.cli.cli import main  # noqa: E402

D = "/tmp/cli-gen"
os.makedirs(D, exist_ok=True)
open(D + "/t.fa", "w").write(""">A_2010
ACGTACGTAACCGGTTAGCTAGCT
>B_2011
ACGTACGAAACCGGTTAGCTAGCA
>C_2012.5
ACGAACGTAACCGCTTAGCTTGCT
>D_2014
ACGTTCGTAACGGGTTAGCAAGCT
""")
open(D + "/t.nwk", "w").write("((A_2010:1,B_2011:2):1.5,(C_2012.5:2,D_2014:3.5):1);\n")
BASE = ["-i", D + "/t.fa", "-t", D + "/t.nwk", "--stem", D + "/out"]
COMBOS = {
    "unrooted_gtr_w4i_gammadir": ["mcmc", "-m", "GTR", "-C", "4", "-I", "--brlenspr", "gammadir"],
    "strict_hky_w4_skygrid": ["mcmc", "-m", "HKY", "-C", "4", "--clock", "strict", "--coalescent", "skygrid",
                              "--grid", "3", "--cutoff", "10"],
    "ucln_jc_constant": ["mcmc", "-m", "JC69", "--clock", "ucln", "--coalescent", "constant"],
    "strict_hky_bdsk": ["mcmc", "-m", "HKY", "--clock", "strict", "--birth-death", "bdsk", "--grid", "2"],
    "strict_srd06_exponential": ["mcmc", "-m", "SRD06", "--clock", "strict", "--coalescent", "exponential"],
    "strict_hky_skyglide": ["mcmc", "-m", "HKY", "--clock", "strict", "--coalescent", "piecewise-linear",
                            "--grid", "3", "--cutoff", "10"],
    "shift_hky_skyride": ["mcmc", "-m", "HKY", "--clock", "strict", "--heights", "shift", "--coalescent", "skyride"],
    "hmc_strict_hky_constant": ["hmc", "-m", "HKY", "--clock", "strict", "--coalescent", "constant"],
    "advi_strict_hky_constant": ["advi", "-m", "HKY", "--clock", "strict", "--coalescent", "constant"],
    "map_horseshoe_jc_constant": ["map", "-m", "JC69", "--clock", "horseshoe", "--coalescent", "constant"],
    "mcmc_mg94_unrooted": ["mcmc", "-m", "MG94", "--genetic_code", "0"],
}


def strip_loggers(o):
    if isinstance(o, dict):
        o.pop("loggers", None)
        for v in o.values():
            strip_loggers(v)
    elif isinstance(o, list):
        for v in o:
            strip_loggers(v)


out = os.path.join(os.path.dirname(os.path.dirname(os.path.abspath(__file__))), "mc", "builders", "graphs")
for name, args in COMBOS.items():
    sys.argv = ["torchtree-cli"] + args + BASE
    buf = io.StringIO()
    with contextlib.redirect_stdout(buf):
        main()
    spec = json.loads(buf.getvalue())
    strip_loggers(spec)
    spec = [o for o in spec if not (isinstance(o, dict) and o.get('type') == 'Sampler')]
    dic = tt.load(spec)
    with open(os.path.join(out, name + ".json"), "w") as fp:
        json.dump({"_generated_by": "torchtree-cli " + " ".join(args), "spec": spec}, fp, indent=1)
    print(name, len(dic), "objects")
