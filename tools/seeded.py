#!/venv/bin/python
"""Management of seeded property-breaking changes (/verif/seeded/<name>/).

  seeded.py import  C05            copy /tmp/seed-C05/_seed/* to /verif/seeded/C05-<k>/
  seeded.py verify  C05-1 [...]    confirm: demo passes on clean tree, tests pass with the
                                   patch, demo fails with the patch  (scratch worktree)
  seeded.py run     C05-1 [ids]    run the check(s) (default: the seed's property) against
                                   the patched scratch worktree (TORCHTREE_ROOT) and record
                                   the outcome in /verif/seeded/RESULTS.json
  seeded.py inrepo  C05-1 [ids]    same, but the way the task prescribes: git apply in /repo,
                                   run, git checkout -- .   (sequential only!)
  seeded.py table                  print the results table
"""
import json
import os
import shutil
import subprocess
import sys
import time

VERIF = os.path.dirname(os.path.dirname(os.path.abspath(__file__)))
SEEDED = os.path.join(VERIF, "seeded")
RESULTS = os.path.join(SEEDED, "RESULTS.json")
TESTCMD = ("PYTHONDONTWRITEBYTECODE=1 /venv/bin/python -m pytest -q -p no:cacheprovider "
           "--timeout=900 --continue-on-collection-errors -W ignore 2>&1 | tail -1")


def sh(cmd, cwd=None, env=None, timeout=3600):
    e = dict(os.environ)
    e.update(env or {})
    p = subprocess.run(cmd, shell=True, cwd=cwd, env=e, capture_output=True, text=True,
                       timeout=timeout)
    return p.returncode, (p.stdout + p.stderr)


def worktree(name):
    d = f"/tmp/swt-{name}-{os.getpid()}"
    sh(f"git -C /repo worktree remove --force {d}")
    rc, out = sh(f"git -C /repo worktree add -q --detach {d} HEAD")
    if rc:
        raise SystemExit(out)
    return d


def drop(d):
    sh(f"git -C /repo worktree remove --force {d}")
    shutil.rmtree(d, ignore_errors=True)


def load_results():
    if os.path.exists(RESULTS):
        return json.load(open(RESULTS))
    return {}


def save_results(r):
    with open(RESULTS, "w") as fp:
        json.dump(r, fp, indent=1, sort_keys=True)


def do_import(pid, src=None):
    """copy <src>/<k>/* to /verif/seeded/<pid>-<next free number>/"""
    src = src or f"/tmp/seed-{pid}/_seed"
    names = []
    for k in sorted(os.listdir(src)):
        n = 1
        while os.path.exists(os.path.join(SEEDED, f"{pid}-{n}")):
            n += 1
        dst = os.path.join(SEEDED, f"{pid}-{n}")
        os.makedirs(dst)
        for f in ("patch.diff", "demo.py", "meta.json"):
            shutil.copy(os.path.join(src, k, f), os.path.join(dst, f))
        print("imported", dst)
        names.append(f"{pid}-{n}")
    return names


def do_verify(name):
    sd = os.path.join(SEEDED, name)
    d = worktree(name)
    try:
        env = {"PYTHONPATH": d, "PYTHONDONTWRITEBYTECODE": "1"}
        rc0, out0 = sh(f"/venv/bin/python {sd}/demo.py", cwd=sd, env=env)
        rc, out = sh(f"git -C {d} apply {sd}/patch.diff")
        if rc:
            print(name, "PATCH DOES NOT APPLY", out)
            return False
        _, tests = sh(TESTCMD, cwd=d)
        rc1, out1 = sh(f"/venv/bin/python {sd}/demo.py", cwd=sd, env=env)
        ok = rc0 == 0 and rc1 != 0 and "144 passed" in tests and "failed" not in tests
        meta = json.load(open(os.path.join(sd, "meta.json")))
        meta["confirmed"] = {
            "demo_clean_exit": rc0, "demo_patched_exit": rc1, "tests_with_patch": tests.strip(),
            "ok": ok, "base_commit": sh("git -C /repo rev-parse --short HEAD")[1].strip(),
            "ran": [f"PYTHONPATH=<worktree> /venv/bin/python demo.py (clean, then patched)",
                    "git apply patch.diff", TESTCMD],
        }
        json.dump(meta, open(os.path.join(sd, "meta.json"), "w"), indent=1)
        print(name, "confirmed" if ok else "NOT CONFIRMED", rc0, rc1, tests.strip())
        return ok
    finally:
        drop(d)


def run_checks(name, ids, root, tier):
    out = {}
    for cid in ids:
        t0 = time.time()
        rc, txt = sh(f"./check {cid} --tier {tier}", cwd=VERIF,
                     env={"TORCHTREE_ROOT": root, "VERIF_NO_EVIDENCE": "1"}, timeout=7200)
        lines = [l for l in txt.splitlines() if l.startswith(("VIOLATION", "KNOWN-FINDING", "HARNESS"))]
        out[cid] = {"exit": rc, "detected": rc == 1 and any(l.startswith("VIOLATION") for l in lines),
                    "lines": [l[:200] for l in lines[:4]], "wall_s": round(time.time() - t0, 1),
                    "tier": tier}
        print(f"  {name} vs {cid} [{tier}]: exit={rc} detected={out[cid]['detected']} "
              f"({out[cid]['wall_s']}s)")
        for l in lines[:3]:
            print("     ", l[:160])
        if rc not in (0, 1):
            print(txt[-1500:])
    return out


def do_run(name, ids, inrepo=False, tier="quick"):
    sd = os.path.join(SEEDED, name)
    meta = json.load(open(os.path.join(sd, "meta.json")))
    ids = ids or [meta["property"]]
    if inrepo:
        rc, out = sh(f"git -C /repo status --porcelain")
        if out.strip():
            raise SystemExit("/repo not clean")
        rc, out = sh(f"git -C /repo apply {sd}/patch.diff")
        if rc:
            raise SystemExit(out)
        try:
            res = run_checks(name, ids, "/repo", tier)
        finally:
            sh("git -C /repo checkout -- .")
    else:
        d = worktree(name)
        try:
            rc, out = sh(f"git -C {d} apply {sd}/patch.diff")
            if rc:
                raise SystemExit(out)
            res = run_checks(name, ids, d, tier)
        finally:
            drop(d)
    import fcntl
    with open(RESULTS + ".lock", "w") as lk:
        fcntl.flock(lk, fcntl.LOCK_EX)
        r = load_results()
        r.setdefault(name, {}).update(res)
        save_results(r)


def table():
    r = load_results()
    for name in sorted(r):
        meta = json.load(open(os.path.join(SEEDED, name, "meta.json")))
        for cid, v in sorted(r[name].items()):
            print(f"{name:8s} {cid} {'DETECTED' if v['detected'] else 'missed  '} "
                  f"[{v['tier']}] {meta.get('title', '')[:70]}")


if __name__ == "__main__":
    cmd = sys.argv[1]
    args = sys.argv[2:]
    tier = "quick"
    if "--thorough" in args:
        args.remove("--thorough")
        tier = "thorough"
    if cmd == "import":
        do_import(args[0], args[1] if len(args) > 1 else None)
    elif cmd == "verify":
        for a in args:
            do_verify(a)
    elif cmd == "run":
        do_run(args[0], args[1:], tier=tier)
    elif cmd == "inrepo":
        do_run(args[0], args[1:], inrepo=True, tier=tier)
    elif cmd == "table":
        table()
