#!/bin/bash
# usage: mutant.sh <name> <patchfile|-e sed-expr file> -- <check ids...>
# Creates a scratch worktree of /repo under /tmp/mut-<name>, applies the patch (git apply) and
# runs the repository tests and the given checks against it via TORCHTREE_ROOT; removes it.
name=$1; patch=$2; shift 2; [ "$1" == "--" ] && shift
dir=/tmp/mut-$name
git -C /repo worktree remove --force $dir 2>/dev/null
git -C /repo worktree add -q --detach $dir HEAD || exit 2
if ! git -C $dir apply "$patch"; then echo "PATCH DOES NOT APPLY"; git -C /repo worktree remove --force $dir; exit 2; fi
echo "== tests: $(/verif/tools/run_tests.sh $dir)"
for id in "$@"; do
  echo "== check $id"
  (cd /verif && TORCHTREE_ROOT=$dir VERIF_NO_EVIDENCE=1 ./check $id 2>&1 | grep -E "VIOLATION|KNOWN|HARNESS|^\[C" | cut -c1-300 | head -8)
done
git -C /repo worktree remove --force $dir
